"""C06 — the parser builds the grammar's tree; node ranges delimit their source text.

Decided on the parser *model* = LALR automaton read from the compiled tables + semantic actions/helpers summarised from the
typed AST (engine/models/lr.py, act.py).  The model is asked about token-kind sequences, so the verdicts hold for every
spelling, whitespace and syntax variant that lexes to those kinds.
 r1 SYNC        the committed tables/actions are what bison produces from RSParserImpl.y (no unresolved conflicts); TokenID
                values agree with the bison token kinds position by position.
 r2 PRECEDENCE  grouping of `x o1 y o2 z` for every ordered pair of infix operators of a family, prefix operators and
                quantifier scope, against the documented table (tables/precedence.json).
 r3 RANGE       at every reduction whose action assigns $$, the node's range is [start of the first token, finish of the last
                token] of the production's yield (all productions exercised; an uncovered production is ANALYSIS-BROKEN).
 r4 NESTING     in every resulting tree a child's range lies inside its parent's range and siblings are in source order; redundant parentheses leave no node;
                only unparenthesised products are flattened.
 r5 ACTION-ARGS every `A op B` production builds its node with ($1,$2,$3) in that order (sibling rule over the 15 binary
                productions).
 r6 UNITS       the MATH lexer derives token ranges and its line base only from code-point columns.
Not decided: that RE/flex counts columns in code points; the lexers' ranges (C04/C05 use the DFA models).
"""
import json
import os
import re
import subprocess
import tempfile

from engine.evalmini import OutOfFragment
from engine.facts import AnalysisBroken
from engine.models.lr import LR
from engine.models.act import AstModel
from engine.models.corpus import corpus, sentence, SET_BIN, LOGIC_BIN

UNITS = ['RSlang', 'RSlang2']
VERIF = os.path.dirname(os.path.dirname(os.path.abspath(__file__)))

# TokenID enumerator <-> bison token name where they are spelled differently (read once from RSToken.h / RSParserImpl.y)
ALIAS = {
    'ID_LOCAL': 'LOCAL', 'ID_GLOBAL': 'GLOBAL', 'ID_FUNCTION': 'FUNCTION', 'ID_PREDICATE': 'PREDICATE', 'ID_RADICAL': 'RADICAL',
    'LIT_INTEGER': 'INTEGER', 'LIT_INTSET': 'INTSET', 'LIT_EMPTYSET': 'EMPTYSET', 'REDUCE': 'RED',
    'PUNC_DEFINE': 'DEFINE', 'PUNC_STRUCT': 'STRUCT', 'PUNC_PL': 'LP', 'PUNC_PR': 'RP', 'PUNC_CL': 'LC', 'PUNC_CR': 'RC',
    'PUNC_SL': 'LS', 'PUNC_SR': 'RS', 'PUNC_BAR': 'BAR', 'PUNC_COMMA': 'COMMA', 'PUNC_SEMICOLON': 'SEMICOLON',
}


def check(db, rep):
    rep.explanation = ('Parser model = LALR tables compiled into the library + semantic actions and helpers summarised from the typed AST; '
                       'queries over token-kind sequences decide grouping (precedence/associativity), node ranges at every reduction and nesting.')
    lr = LR(db)
    model = AstModel(db, lr)
    rep.note('lalr', {'states': lr.nstates, 'rules': lr.nrules - 1, 'terminals': lr.ntokens, 'nonterminals': lr.nnts, 'actions': len(lr.actions)})
    prec = json.load(open(os.path.join(VERIF, 'tables', 'precedence.json')))

    # ---------------------------------------------------------------- r1
    r1 = rep.rule('r1', 'SYNC: committed LALR tables and action code equal bison(RSParserImpl.y); no unresolved conflicts; TokenID values match bison token kinds', 3)
    _sync(db, rep, r1, lr)
    _token_kinds(db, r1, lr)

    # ---------------------------------------------------------------- r2
    r2 = rep.rule('r2', 'PRECEDENCE: grouping of x o1 y o2 z for every ordered operator pair, prefix operators and quantifier scope equals the documented table', 80)
    level = {}
    for fam in ('set', 'logic'):
        for i, grp in enumerate(prec[fam]['levels_loosest_first']):
            for op in grp:
                level[op] = i
    fams = {'set': (SET_BIN, 'G1', 'G2', 'G3'), 'logic': (LOGIC_BIN, 'a IN G1', 'b IN G1', 'c IN G1')}
    for fam, (ops, x, y, z) in fams.items():
        missing = [o for o in ops if o not in level]
        if missing:
            r2.broken('precedence table lacks %s' % missing)
            continue
        for o1 in ops:
            for o2 in ops:
                inst = '%s,%s' % (o1, o2)
                s = '%s %s %s %s %s' % (x, o1, y, o2, z)
                try:
                    t, info = model.build(sentence(s))
                except OutOfFragment as e:
                    r2.broken('parser model left the fragment on `%s`: %s' % (s, e))
                    return
                if t is None:
                    r2.violation(inst, 'ccl/rslang/src/RSParserImpl.cpp', '`%s` is rejected by the automaton (%s)' % (s, info))
                    continue
                want_left = level[o1] >= level[o2]
                if o1 == 'DECART' and o2 == 'DECART':
                    ok = t.id == 'DECART' and len(t.children) == 3 and all(not c.children for c in t.children)
                    got = 'flat n-ary product' if ok else str(t.shape())
                    want = 'flat n-ary product'
                else:
                    got = 'left' if (t.id == o2 and len(t.children) == 2 and t.children[0].id == o1) else 'right' if (t.id == o1 and len(t.children) == 2 and t.children[1].id == o2) else str(t.shape())
                    want = 'left' if want_left else 'right'
                    ok = got == want
                if ok:
                    r2.ok(inst, '%s: %s' % (s, got))
                else:
                    r2.violation(inst, 'ccl/rslang/src/RSParserImpl.y', '`x %s y %s z` groups %s, documented grouping is %s (%s binds %s than %s)' % (
                        o1, o2, got, want, o2, 'tighter' if not want_left else 'not tighter', o1))
    # prefix operators and quantifier scope, parenthesised products
    extra = [
        ('NOT-binds-tighter', 'NOT a IN G1 AND b IN G1', ('AND', ('NOT', ('IN', 'ID_LOCAL', 'ID_GLOBAL')), ('IN', 'ID_LOCAL', 'ID_GLOBAL'))),
        ('NOT-binds-tighter-equiv', 'NOT a IN G1 EQUIVALENT b IN G1', ('EQUIVALENT', ('NOT', ('IN', 'ID_LOCAL', 'ID_GLOBAL')), ('IN', 'ID_LOCAL', 'ID_GLOBAL'))),
        ('quantifier-scope', 'FORALL a IN G1 a IN G2 AND a IN G3', ('AND', ('FORALL', 'ID_LOCAL', 'ID_GLOBAL', ('IN', 'ID_LOCAL', 'ID_GLOBAL')), ('IN', 'ID_LOCAL', 'ID_GLOBAL'))),
        ('quantifier-scope-impl', 'EXISTS a IN G1 a IN G2 IMPLICATION a IN G3', ('IMPLICATION', ('EXISTS', 'ID_LOCAL', 'ID_GLOBAL', ('IN', 'ID_LOCAL', 'ID_GLOBAL')), ('IN', 'ID_LOCAL', 'ID_GLOBAL'))),
        ('quantifier-parenthesised-body', 'FORALL a IN G1 ( a IN G2 AND a IN G3 )', ('FORALL', 'ID_LOCAL', 'ID_GLOBAL', ('AND', ('IN', 'ID_LOCAL', 'ID_GLOBAL'), ('IN', 'ID_LOCAL', 'ID_GLOBAL')))),
        ('nested-quantifiers', 'FORALL a IN G1 EXISTS b IN G2 a EQUAL b', ('FORALL', 'ID_LOCAL', 'ID_GLOBAL', ('EXISTS', 'ID_LOCAL', 'ID_GLOBAL', ('EQUAL', 'ID_LOCAL', 'ID_LOCAL')))),
        ('boolean-prefix', 'BOOLEAN BOOLEAN ( G1 )', ('BOOLEAN', ('BOOLEAN', 'ID_GLOBAL'))),
        ('product-left-parenthesised', '( G1 DECART G2 ) DECART G3', ('DECART', ('DECART', 'ID_GLOBAL', 'ID_GLOBAL'), 'ID_GLOBAL')),
        ('product-right-parenthesised', 'G1 DECART ( G2 DECART G3 )', ('DECART', 'ID_GLOBAL', ('DECART', 'ID_GLOBAL', 'ID_GLOBAL'))),
        ('product-four', 'G1 DECART G2 DECART G3 DECART G1', ('DECART', 'ID_GLOBAL', 'ID_GLOBAL', 'ID_GLOBAL', 'ID_GLOBAL')),
        ('product-after-union', 'G1 UNION G2 DECART G3', ('DECART', ('UNION', 'ID_GLOBAL', 'ID_GLOBAL'), 'ID_GLOBAL')),
        ('redundant-parentheses', '( ( G1 UNION G2 ) )', ('UNION', 'ID_GLOBAL', 'ID_GLOBAL')),
        ('parenthesised-operand', '( G1 UNION G2 ) INTERSECTION G3', ('INTERSECTION', ('UNION', 'ID_GLOBAL', 'ID_GLOBAL'), 'ID_GLOBAL')),
        ('predicate-over-setexpr', 'G1 UNION G2 SUBSET G3 INTERSECTION G1', ('SUBSET', ('UNION', 'ID_GLOBAL', 'ID_GLOBAL'), ('INTERSECTION', 'ID_GLOBAL', 'ID_GLOBAL'))),
        ('arithmetic-under-comparison', 'I1 PLUS I2 LESSER I1 MULTIPLY I2', ('LESSER', ('PLUS', 'LIT_INTEGER:1', 'LIT_INTEGER:42'), ('MULTIPLY', 'LIT_INTEGER:1', 'LIT_INTEGER:42'))),
    ]
    for inst, s, want in extra:
        t, info = model.build(sentence(s))
        got = _shape_ids(t) if t else None
        want_n = _strip_data(want)
        if got == want_n:
            r2.ok(inst, s)
        else:
            r2.violation(inst, 'ccl/rslang/src/RSParserImpl.y', '`%s` builds %s, the grammar of the language gives %s' % (s, got if t else 'no tree (%s)' % (info,), want_n))

    # parenthesis-depth invariance: wrapping an already parenthesised binary group once or twice more never changes the tree
    base_sentences = ['( G1 DECART G2 ) DECART G3', 'G1 DECART ( G2 DECART G3 )', '( G1 UNION G2 ) INTERSECTION G3', 'G1 SET_MINUS ( G2 SET_MINUS G3 )',
                      '( I1 PLUS I2 ) MULTIPLY I1', '( G1 DECART G2 ) DECART ( G2 DECART G3 )', '( G1 DECART G2 ) UNION G3', '{ ( G1 DECART G2 ) DECART G3 , G1 }']
    for s0 in base_sentences:
        t0, info0 = model.build(sentence(s0))
        for depth in (2, 3):
            s1 = _deepen(s0, depth)
            t1, info1 = model.build(sentence(s1))
            inst = 'paren-depth-%d:%s' % (depth, s0)
            if t0 is None:
                r2.broken('sentence `%s` rejected' % s0)
            elif t1 is None:
                r2.violation(inst, 'ccl/rslang/src/RSParser.cpp', '`%s` is rejected although `%s` is accepted (%s)' % (s1, s0, info1))
            elif _shape_ids(t0) != _shape_ids(t1):
                r2.violation(inst, 'ccl/rslang/src/RSParser.cpp', 'redundant parentheses change the tree: `%s` builds %s but `%s` builds %s' % (s0, _shape_ids(t0), s1, _shape_ids(t1)))
            else:
                r2.ok(inst, s1)

    # ---------------------------------------------------------------- r3 / r4
    r3 = rep.rule('r3', 'RANGE: at every reduction whose action assigns $$ the node range equals [start of first token, finish of last token] of the yield; every production is exercised', 40)
    r4 = rep.rule('r4', 'NESTING: child ranges lie inside parent ranges; every sentence of the corpus is accepted and yields one tree', 60)
    covered = set()
    faults = {}
    sentences = [(s, toks, False) for s, toks in corpus()]
    if rep.tier == 'thorough':
        # every witness sentence of the tree grammar: each production with each operand root kind at each position
        from engine.models.treegrammar import TreeGrammar
        sentences += [(s, toks, True) for s, toks in TreeGrammar(db).sentences()]
        rep.note('grammar_witness_sentences', len(sentences) - len(corpus()))
    for s, toks, may_reject in sentences:
        try:
            t, info = model.build(toks)
        except OutOfFragment as e:
            r3.broken('parser model left the fragment on `%s`: %s' % (s, e))
            return
        covered |= set(lr.reductions)
        for r, span, got, want in model.range_faults:
            faults.setdefault(r, (s, span, got, want))
        if t is None and may_reject:
            continue          # witnesses include sentences a semantic action rejects
        if t is None:
            r4.violation('sentence:' + s, 'ccl/rslang/src/RSParserImpl.cpp', 'valid sentence `%s` is rejected: %s' % (s, info))
            continue
        bad = None
        order_bad = None
        for n in t.walk():
            for c in n.children:
                if not (n.start <= c.start and c.finish <= n.finish) and bad is None:
                    bad = (n, c)
            for c0, c1 in zip(n.children, n.children[1:]):
                if c1.start < c0.finish and order_bad is None:
                    order_bad = (n, c0, c1)
            if n.id == 'PUNC_PL' and bad is None:
                bad = (n, n)
        root_ok = t.start == 0 and t.finish == 10 * (len(toks) - 1) + toks[-1][2]
        if bad:
            r4.violation('sentence:' + s, 'ccl/rslang/src/RSParser.cpp', 'in `%s` node %s [%d,%d) does not enclose child %s [%d,%d) (token i spans [10i,10i+1))' % (
                s, bad[0].id, bad[0].start, bad[0].finish, bad[1].id, bad[1].start, bad[1].finish))
        elif order_bad:
            r4.violation('sentence:' + s, 'ccl/rslang/src/RSParser.cpp', 'in `%s` the children of %s are not in source order: %s [%d,%d) precedes %s [%d,%d)' % (
                s, order_bad[0].id, order_bad[1].id, order_bad[1].start, order_bad[1].finish, order_bad[2].id, order_bad[2].start, order_bad[2].finish))
        elif not root_ok:
            r4.violation('sentence:' + s, 'ccl/rslang/src/RSParser.cpp', 'root range [%d,%d) of `%s` does not cover the whole input [0,%d)' % (t.start, t.finish, s, 10 * (len(toks) - 1) + 1))
        else:
            r4.ok('sentence:' + s, str(_shape_ids(t))[:120])
    assigning = model.assigning_rules()
    errs = model.error_rules()
    for r in sorted(assigning):
        inst = 'rule%d:%s' % (r, lr.tname[lr.r1[r]])
        if r in faults:
            s, span, got, want = faults[r]
            r3.violation(inst, 'ccl/rslang/src/RSParser.cpp', 'reducing %s over tokens %d..%d of `%s` yields range [%d,%d), the yield spans [%d,%d)' % (lr.tname[lr.r1[r]], span[0], span[1], s, got[0], got[1], want[0], want[1]))
        elif r in covered:
            r3.ok(inst, 'range = yield span on every exercised reduction')
        else:
            r3.broken('production %d (%s) has an action but no sentence of the corpus exercises it' % (r, lr.tname[lr.r1[r]]))
    uncovered = [r for r in lr.actions if r not in covered and r not in errs]
    if uncovered:
        r3.broken('productions %s are neither exercised by the corpus nor error productions' % uncovered)
    rep.note('productions_exercised', len(covered))
    rep.note('error_productions', sorted(errs))

    # ---------------------------------------------------------------- r6
    r6 = rep.rule('r6', 'UNITS: the MATH lexer computes token ranges and the line base only from code-point columns (columno/columns), never from byte offsets', 2)
    ML = 'ccl::rslang::detail::rslex::MathLexerImpl'
    BYTE_API = {'first', 'last', 'size', 'pos', 'border'}
    CP_API = {'columno', 'columns', 'columno_end'}
    rg = db.fn(ML + '::Range', required=False)
    if rg is None:
        r6.broken('MathLexerImpl::Range not found')
    else:
        used = {(n.get('cs') or '').split('::')[-1] for n in rg.calls()}
        reads_base = any(x['k'] == 'MemberExpr' and x.get('member') == 'lineBase' for x in rg.walk())
        if used & BYTE_API or not (used & CP_API) or not reads_base:
            r6.violation('MathLexerImpl::Range', '%s:%d' % (rg.file, rg.line), 'token range is computed from %s (byte offsets) instead of lineBase + columno()/columns(): ranges are wrong after any multi-byte symbol' % sorted(used & BYTE_API or used))
        else:
            r6.ok('MathLexerImpl::Range', 'lineBase + columno() .. + columns()', '%s:%d' % (rg.file, rg.line))
    lx = db.fn(ML + '::lex', pick=lambda x: not x.rec['params'])
    writes = [n for n in lx.walk() if n['k'] in ('CompoundAssignOperator', 'BinaryOperator') and (n.get('op') in ('+=', '=')) and lx.strip(lx.children(n)[0]).get('member') == 'lineBase']
    if len(writes) != 1:
        r6.violation('newline-rule', '%s:%d' % (lx.file, lx.line), 'the line base is updated at %d places in the scanner actions (expected exactly the newline rule)' % len(writes))
    else:
        w = writes[0]
        used = {(n.get('cs') or '').split('::')[-1] for n in lx.calls(w)}
        if w.get('op') != '+=' or used & BYTE_API or 'columno' not in used:
            r6.violation('newline-rule', lx.loc(w), 'the newline rule sets the line base with `%s`: it must add the code-point column of the line break (lineBase += columno() + 1), a byte offset shifts every later position by the extra UTF-8 bytes' % w.get('txt', '')[:60])
        else:
            r6.ok('newline-rule', 'lineBase += columno() + 1', lx.loc(w))

    # ---------------------------------------------------------------- r5
    r5 = rep.rule('r5', 'ACTION-ARGS: each binary production passes ($1,$2,$3) to its node constructor in that order', 15)
    f = lr.actions_fn
    n_bin = 0
    for r, stmts in sorted(lr.actions.items()):
        if lr.r2[r] != 3:
            continue
        for st in stmts:
            for c in f.calls(st):
                if c.get('cs') in ('ccl::rslang::detail::BinaryOperation', 'ccl::rslang::detail::Decartian'):
                    n_bin += 1
                    idx = []
                    for a in c['args']:
                        k = [x for x in f.walk(f.stmts[a]) if x['k'] == 'CXXOperatorCallExpr' and x.get('op') == '[]']
                        idx.append(f.strip(f.stmts[k[0]['args'][1]]).get('cv') if k else None)
                    inst = 'rule%d:%s' % (r, c['cs'].split('::')[-1])
                    if idx == [2, 1, 0]:
                        r5.ok(inst, '($1,$2,$3)', f.loc(c), nontrivial=False)
                    else:
                        r5.violation(inst, f.loc(c), 'operands passed as %s (stack offsets), expected ($1,$2,$3) = offsets [2,1,0]: operands swapped or duplicated' % idx)
    rep.note('binary_productions', n_bin)
    _ranges_support(db, rep)


def _deepen(s, depth):
    """wrap every parenthesised group whose content has an infix operator at its top level `depth` times instead of once"""
    toks = s.split()
    out = []
    stack = []
    infix = set(SET_BIN)    # only set-expression groups may be parenthesised repeatedly (logic_par takes exactly one pair)
    # find matching groups
    match = {}
    for i, t in enumerate(toks):
        if t == '(':
            stack.append(i)
        elif t == ')':
            match[stack.pop()] = i
    wrap = set()
    for a, b in match.items():
        lvl = 0
        has = False
        comma = False
        for t in toks[a + 1:b]:
            if t == '(':
                lvl += 1
            elif t == ')':
                lvl -= 1
            elif lvl == 0 and t in infix:
                has = True
            elif lvl == 0 and t == ',':
                comma = True
        prev = toks[a - 1] if a > 0 else ''
        functional = prev in ('BOOLEAN', 'CARD', 'BOOL', 'DEBOOL', 'REDUCE', 'Pr1', 'Pr12', 'pr2', 'pr13') or prev == ']'
        if has and not comma and not functional:
            wrap.add(a)
            wrap.add(b)
    for i, t in enumerate(toks):
        if i in wrap:
            out += [t] * depth
        else:
            out.append(t)
    return ' '.join(out)


def _shape_ids(t):
    if t is None:
        return None
    if not t.children:
        return t.id
    return (t.id,) + tuple(_shape_ids(c) for c in t.children)


def _strip_data(x):
    if isinstance(x, tuple):
        return tuple(_strip_data(y) for y in x)
    return x.split(':')[0]


def _token_kinds(db, r1, lr):
    tok = {e['name']: e['val'] for e in db.enum('ccl::rslang::TokenID')['enumerators']}
    bad = []
    n = 0
    for name, val in tok.items():
        if name.startswith('NT_') or name in ('INTERRUPT', 'END'):
            continue
        sym = lr.terminal_of_token(val)
        want = ALIAS.get(name, name)
        n += 1
        if sym >= len(lr.tname) or lr.tname[sym] != want:
            bad.append('%s=%d -> %s (expected %s)' % (name, val, lr.tname[sym] if sym < len(lr.tname) else '?', want))
    if bad:
        r1.violation('token-kinds', 'ccl/rslang/include/ccl/rslang/RSToken.h', 'yylex returns static_cast<int>(TokenID) but the values do not denote the same grammar tokens: ' + '; '.join(bad[:5]))
    else:
        r1.ok('token-kinds', '%d terminals: TokenID value -> bison symbol of the same name' % n)


def _arrays_from_cpp(text):
    out = {}
    for m in re.finditer(r'RSParserImpl::(yy\w+_)\[\]\s*=\s*\{(.*?)\};', text, re.S):
        name, body = m.group(1), m.group(2)
        if name == 'yytname_':
            continue
        out[name] = [int(x) for x in re.findall(r'-?\d+', body)]
    return out


def _actions_from_cpp(text):
    acts = {}
    for m in re.finditer(r'\n  case (\d+): // ([^\n]*)\n(.*?)\n    break;', text, re.S):
        body = '\n'.join(l for l in m.group(3).split('\n') if not l.startswith('#line'))
        acts[int(m.group(1))] = (m.group(2).strip(), re.sub(r'\s+', ' ', body).strip())
    return acts


def _sync(db, rep, r1, lr):
    ypath = os.path.join(db.root, 'ccl/rslang/src/RSParserImpl.y')
    cpath = os.path.join(db.root, 'ccl/rslang/src/RSParserImpl.cpp')
    if not os.path.exists(ypath) or not os.path.exists(cpath):
        r1.broken('RSParserImpl.y / RSParserImpl.cpp not found')
        return
    tmp = tempfile.mkdtemp(prefix='verif-bison-')
    try:
        os.makedirs(os.path.join(tmp, 'src'))
        os.makedirs(os.path.join(tmp, 'header'))
        with open(ypath, encoding='utf-8-sig') as fh:
            y = fh.read()
        with open(os.path.join(tmp, 'src', 'RSParserImpl.y'), 'w') as fh:
            fh.write(y)
        try:
            p = subprocess.run(['bison', '-Wall', 'RSParserImpl.y'], cwd=os.path.join(tmp, 'src'), capture_output=True, text=True, timeout=120)
        except FileNotFoundError:
            r1.broken('bison not available')
            return
        if p.returncode != 0 or not os.path.exists(os.path.join(tmp, 'src', 'RSParserImpl.cpp')):
            r1.violation('bison-accepts-grammar', 'ccl/rslang/src/RSParserImpl.y', 'bison rejects the grammar: ' + p.stderr[-300:])
            return
        conf = [l for l in p.stderr.splitlines() if 'conflict' in l]
        if conf:
            r1.violation('no-conflicts', 'ccl/rslang/src/RSParserImpl.y', 'grammar has unresolved conflicts: ' + '; '.join(conf[:3]))
        else:
            r1.ok('no-conflicts', 'bison reports no shift/reduce or reduce/reduce conflicts')
        gen = open(os.path.join(tmp, 'src', 'RSParserImpl.cpp')).read()
        com = open(cpath, encoding='utf-8-sig').read()
        ga, ca = _arrays_from_cpp(gen), _arrays_from_cpp(com)
        diff = []
        for name in sorted(set(ga) | set(ca)):
            a, b = ga.get(name), ca.get(name)
            if name == 'yydefgoto_' and a and b and a[1:] == b[1:]:
                continue    # entry 0 ($accept) differs between bison 3.7 and 3.8 skeletons and is never used
            if name == 'yyrline_':
                continue
            if a != b:
                diff.append(name)
        if diff:
            r1.violation('tables', 'ccl/rslang/src/RSParserImpl.cpp', 'committed parser tables %s differ from bison(RSParserImpl.y): the compiled parser does not implement the grammar file' % diff)
        else:
            r1.ok('tables', '%d arrays equal to a fresh bison run' % len(ca))
        gact, cact = _actions_from_cpp(gen), _actions_from_cpp(com)
        bad = [k for k in sorted(set(gact) | set(cact)) if gact.get(k) != cact.get(k)]
        if bad:
            r1.violation('actions', 'ccl/rslang/src/RSParserImpl.cpp', 'semantic actions of rules %s differ between RSParserImpl.y and the committed RSParserImpl.cpp' % bad[:8])
        else:
            r1.ok('actions', '%d action bodies equal' % len(cact))
        # the arrays read from the compiled unit are the committed ones
        if ca.get('yytable_') != lr.table or ca.get('yypact_') != lr.pact:
            r1.broken('tables in the fact database differ from RSParserImpl.cpp text')
    finally:
        import shutil
        shutil.rmtree(tmp, ignore_errors=True)


def _ranges_support(db, rep):
    """r7: node ranges of a later input do not depend on an earlier one (lexer reset, shared with C18); r8: FindMinimalNode returns the innermost node
    whose range contains the requested range, evaluated on small trees including wrappers that share the range of their only child."""
    import itertools
    from engine.evalmini import Interp, Obj, OutOfFragment, NOT_HANDLED
    from engine.modset import ModSets
    from rules import C18
    r7 = rep.rule('r7', 'LEXER-RESET (shared with C18): every lexer entry point rebinds the input and re-initialises the position state lex() modifies, so token ranges do not depend on earlier inputs', 4)
    C18.lexer_reset_rule(db, r7, r7, ModSets(db))
    r9 = rep.rule('r9', 'TOKEN-DATA: an integer literal or a projection / filter index list carries exactly the numbers written, or the token is refused; never a silently wrapped value', 2)
    token_data_rule(db, r9)
    r8 = rep.rule('r8', 'INNERMOST: FindMinimalNode(root, range) is the deepest node whose range contains the range (none if the root does not contain it)', 1)
    f = db.fn('ccl::rslang::FindMinimalNode', required=False)
    if f is None:
        r8.broken('anchor vanished: FindMinimalNode')
        return
    # trees as (start, finish, [children]); the second has a wrapper sharing the range of its only child (function definition with one argument)
    T1 = (0, 6, [(0, 2, []), (3, 6, [(3, 4, []), (5, 6, [])])])
    T2 = (0, 6, [(0, 3, [(0, 3, [(0, 1, []), (2, 3, [])])]), (4, 6, [])])
    T3 = (0, 4, [])

    def node_at(tree, path):
        n = tree
        for i in path:
            n = n[2][i]
        return n

    def reference(tree, rng):
        def contains(n):
            return n[0] <= rng[0] and rng[1] <= n[1] if rng[0] != rng[1] else n[0] <= rng[1] < n[1]
        if not contains(tree):
            return None
        path = []
        while True:
            n = node_at(tree, path)
            nxt = [i for i, c in enumerate(n[2]) if contains(c)]
            if not nxt:
                return tuple(path)
            path.append(nxt[0])
    bad, cases = None, 0
    contains_fn = db.fn('ccl::StrRange::Contains', required=False, pick=lambda x: 'StrRange' in x.rec['params'][0]['type']) if hasattr(db, 'fn') else None
    try:
        for tree in (T1, T2, T3):
            for a in range(0, 7):
                for b in range(a, 7):
                    cases += 1

                    def on_call(it, fn, n, env, tree=tree):
                        cs = n.get('cs') or ''
                        last = cs.split('::')[-1]
                        S = fn.stmts
                        if cs == 'std::empty' and n.get('args'):
                            v = it.eval(fn, S[n['args'][0]], env)
                            if isinstance(v, Obj) and 'start' in v:
                                return it.call(db.fn('ccl::StrRange::empty'), [], v)
                        if cs == 'ccl::rslang::FindMinimalNode':
                            cur = it.eval(fn, S[n['args'][0]], env)
                            rng = it.eval(fn, S[n['args'][1]], env)
                            return it.call(f, [Obj(__kind__='cursor', path=list(cur['path'])), rng])     # the cursor is passed by value
                        if 'Cursor' in cs and 'obj' in n:
                            cur = it.eval(fn, S[n['obj']], env)
                            node = node_at(tree, cur['path'])
                            if last == 'ChildrenCount':
                                return len(node[2])
                            if last == 'MoveToChild':
                                k = it.eval(fn, S[n['args'][0]], env)
                                if not (0 <= k < len(node[2])):
                                    raise OutOfFragment('MoveToChild(%s) of a node with %d children' % (k, len(node[2])))
                                cur['path'].append(k)
                                return None
                            if last == 'MoveToNextSibling':
                                if not cur['path']:
                                    return False
                                parent = node_at(tree, cur['path'][:-1])
                                if cur['path'][-1] + 1 < len(parent[2]):
                                    cur['path'][-1] += 1
                                    return True
                                return False
                            if last == 'MoveToParent':
                                if cur['path']:
                                    cur['path'].pop()
                                    return True
                                return False
                        if n['k'] == 'CXXOperatorCallExpr' and n.get('op') == '->' and 'Cursor' in S[n['args'][0]].get('t', ''):
                            cur = it.eval(fn, S[n['args'][0]], env)
                            node = node_at(tree, cur['path'])
                            return ('ptr', Obj(pos=Obj(start=node[0], finish=node[1])))
                        if n['k'] in ('CXXConstructExpr', 'CXXTemporaryObjectExpr') and n.get('args') and 'Cursor' in (n.get('cls') or n.get('t', '')):
                            v = it.eval(fn, S[n['args'][0]], env)
                            if isinstance(v, Obj) and v.get('__kind__') == 'cursor':
                                return Obj(__kind__='cursor', path=list(v['path']))
                        return NOT_HANDLED
                    got = Interp(db, on_call=on_call, max_steps=50000).call(f, [Obj(__kind__='cursor', path=[]), Obj(start=a, finish=b)])
                    gotp = tuple(got['path']) if isinstance(got, Obj) and 'path' in got else None
                    want = reference(tree, (a, b))
                    if gotp != want and bad is None:
                        def show(p):
                            return 'none' if p is None else 'node %s [%d,%d)' % (list(p), node_at(tree, p)[0], node_at(tree, p)[1])
                        bad = 'tree %s, range [%d,%d): returns %s, the innermost node is %s' % (tree, a, b, show(gotp), show(want))
    except OutOfFragment as e:
        if str(e).startswith(('call to', 'expression kind', 'statement kind', 'unbound', 'field')):
            r8.broken('FindMinimalNode outside the evaluable fragment: %s' % e)
            return
        bad = str(e)
    if bad:
        r8.violation('FindMinimalNode', '%s:%d' % (f.file, f.line), bad)
    else:
        r8.ok('FindMinimalNode', 'innermost containing node on %d (tree, range) cases, including a wrapper that shares the range of its only child' % cases, '%s:%d' % (f.file, f.line))


# ---------------------------------------------------------------------------------------------- r9: numbers carried by tokens
def token_data_rule(db, rule):
    """The token stream of both lexers, interpreted from LexerBase (Stream's lambda -> lex -> MakeToken -> ParseData -> ToInt / ToTuple ->
    TokenData::FromIndexSequence) with the scanner's verdict (token kind, matched text) supplied: a literal or an index list either carries
    exactly the number(s) written or the token is refused (INTERRUPT). Shared with C05 (printing re-parses to the same literals) and C01."""
    from engine.evalmini import Interp, Obj, NOT_HANDLED, SignedOverflow
    TID = {e['name']: e['val'] for e in db.enum('ccl::rslang::TokenID')['enumerators']}
    cases = []
    for txt, val in (('0', 0), ('7', 7), ('007', 7), ('2147483647', 2147483647), ('2147483648', 2147483648), ('4294967297', 4294967297), ('3000000000', 3000000000), ('99999999999', 99999999999), ('18446744073709551617', 18446744073709551617)):
        cases.append(('LIT_INTEGER', txt, val))
    for kind, prefix in (('SMALLPR', 'pr'), ('BIGPR', 'Pr'), ('FILTER', 'Fi')):
        for seq in ([1], [0], [12], [32767], [32768], [40000], [65537], [1, 2, 3], [1, 65538], [70000, 1], [99999999999]):
            cases.append((kind, prefix + ','.join(str(x) for x in seq), list(seq)))
    n_ok = 0
    for lexer in ('MathLexer', 'AsciiLexer'):
        base = 'ccl::rslang::detail::LexerBase<ccl::rslang::detail::%s>' % lexer
        lam = db.fn(base + '::Stream::lambda@29:11', required=False)
        if lam is None:
            cands = [f for f in db.functions if f.name.startswith(base + '::Stream::lambda@') and not f.rec.get('dependent')]
            lam = cands[0] if len(cands) == 1 else None
        if lam is None:
            rule.broken('anchor vanished: the token stream lambda of %s' % base)
            continue
        bad = None
        for kind, txt, want in cases:
            state = {'text': txt.encode()}

            def on_call(it, fn, n, env):
                cs = n.get('cs') or ''
                callee = n.get('callee') or ''
                last = cs.split('::')[-1]
                k = n['k']
                if last == 'BaseT' and 'obj' in n:
                    return it.eval(fn, fn.stmts[n['obj']], env)
                if last == 'DoLex':
                    return TID[kind]
                if last == 'GetText':
                    return state['text']
                if last == 'Range' and callee.startswith('ccl::rslang::detail::'):
                    return Obj(start=0, finish=len(txt))
                if callee in ('atol', 'atoi', 'atoll', 'std::atol', 'std::atoi', 'std::atoll') and n.get('args'):
                    s_ = it.eval(fn, fn.stmts[n['args'][0]], env)
                    s_ = bytes(s_[1][s_[2]:]) if isinstance(s_, tuple) and s_ and s_[0] == 'sptr' else bytes(s_)
                    digits = b''
                    for ch in s_:
                        if 48 <= ch <= 57:
                            digits += bytes([ch])
                        else:
                            break
                    v = int(digits) if digits else 0
                    bits = {'atoi': 31, 'atol': 63, 'atoll': 63}[callee.split('::')[-1]]
                    if v >= 2 ** bits:
                        raise SignedOverflow('%s("%s"): the value is not representable in the return type (undefined behaviour)' % (callee, digits.decode()))
                    return v
                if callee in ('std::stoi', 'std::stol', 'std::stoll', 'std::stoul') and n.get('args'):
                    s_ = bytes(it.eval(fn, fn.stmts[n['args'][0]], env)).decode('ascii', 'replace')
                    digits = ''
                    for ch in s_.lstrip():
                        if ch.isdigit() or (ch in '+-' and not digits):
                            digits += ch
                        else:
                            break
                    if not digits.strip('+-'):
                        raise SignedOverflow('%s("%s") throws std::invalid_argument' % (callee, s_))
                    v = int(digits)
                    lim = 2 ** 31 if callee == 'std::stoi' else 2 ** 63
                    if not (-lim <= v < lim):
                        raise SignedOverflow('%s("%s") throws std::out_of_range: an exception escapes the lexer' % (callee, s_))
                    return v
                if last == 'c_str' and 'obj' in n:
                    o = it.eval(fn, fn.stmts[n['obj']], env)
                    return ('sptr', bytes(o), 0)
                if last == 'erase' and cs.startswith(('std::basic_string::', 'std::__cxx11::basic_string::')) and 'obj' in n and len(n.get('args', [])) == 2:
                    o = it.eval(fn, fn.stmts[n['obj']], env)
                    a, b = (it.eval(fn, fn.stmts[x], env) for x in n['args'])
                    return bytes(o[:a] + o[a + b:])
                if callee in ('isdigit', 'std::isdigit') and n.get('args'):
                    c = it.eval(fn, fn.stmts[n['args'][0]], env)
                    return int(48 <= c <= 57)
                if k in ('CXXConstructExpr', 'CXXTemporaryObjectExpr') and (n.get('cls') or '') == 'ccl::rslang::TokenData':
                    a = [it.eval(fn, fn.stmts[x], env) for x in n.get('args', [])]
                    if n.get('copyctor') or n.get('movector'):
                        return a[0]
                    return Obj(__cls__='TokenData', v=(a[0] if a else None))
                if k in ('CXXConstructExpr', 'CXXTemporaryObjectExpr') and (n.get('cls') or '') == 'ccl::rslang::Token':
                    a = [it.eval(fn, fn.stmts[x], env) for x in n.get('args', [])]
                    if n.get('copyctor') or n.get('movector'):
                        return a[0]
                    if len(a) == 3:
                        return Obj(__cls__='Token', id=a[0], pos=a[1], data=a[2])
                if cs in ('std::optional::has_value',) and 'reporter' in (fn.stmts[n['obj']].get('txt', '') if 'obj' in n else ''):
                    return False
                return NOT_HANDLED
            it = Interp(db, on_call=on_call, max_steps=200000)
            this = Obj(__cls__=base, reporter=None, lastRead=TID['INTERRUPT'])
            try:
                tok = it.call_lambda(('lambda', lam, {'lex': this}), [])
            except SignedOverflow as e:
                bad = bad or ('%s token `%s`: %s' % (kind, txt, e))
                continue
            except OutOfFragment as e:
                rule.broken('token stream of %s outside the evaluable fragment on `%s`: %s' % (lexer, txt, e))
                bad = None
                break
            if not isinstance(tok, Obj) or 'id' not in tok:
                rule.broken('token stream of %s returned %r' % (lexer, type(tok)))
                break
            refused = tok['id'] == TID['INTERRUPT']
            data = tok['data']['v'] if isinstance(tok.get('data'), Obj) else tok.get('data')
            fits = (0 <= want < 2 ** 31) if kind == 'LIT_INTEGER' else all(0 <= x < 2 ** 15 for x in want)
            if refused:
                if fits and bad is None:
                    bad = '%s token `%s` is refused although every number fits the token data' % (kind, txt)
            elif tok['id'] != TID[kind]:
                bad = bad or '%s token `%s` comes out as token kind %s' % (kind, txt, tok['id'])
            elif (list(data) if isinstance(data, list) else data) != want:
                bad = bad or ('the %s token `%s` is accepted carrying %s: the number written is %s (silently wrapped to the width of the token data)' % (kind, txt, data, want if kind == 'LIT_INTEGER' else ','.join(str(x) for x in want)))
            n_ok += 1
        else:
            f = db.fn(base + '::ParseData', required=False) or lam
            if bad:
                rule.violation('token-data:' + lexer, '%s:%d' % (f.file, f.line), bad)
            else:
                rule.ok('token-data:' + lexer, '%d literal / index tokens carry exactly the numbers written or are refused' % len(cases), '%s:%d' % (f.file, f.line))
