"""C02 — type soundness: accepted expressions evaluate safely to the reported type.

The joint statement (checker accepts => evaluator cannot fault, value has the reported structure) is a statement about values and is
not decided as a whole. Decided are the structural obligations the evaluator relies on and the checker must discharge:
 r1 CHILD-INDEX   every child access of every syntax-tree visitor (checker, value auditor, evaluator, name collector, generator, printer)
                  is inside the node, for every node kind and arity the tree grammar (derived from the LALR tables composed with the
                  semantic actions) can produce under the guards that dominate the access.
 r2 DISPATCH      every node kind of the grammar has a dispatch case; arities asserted at the dispatch hold for all trees.
 r3 VARIANT-TAG   every unchecked std::get<Typification> in the checker reads a value that cannot be LOGIC: type tags are propagated from
                  SetCurrent through the tree grammar (which kinds can sit at the child that is read).
 r4 ACCESSOR      every E()/T()/B() structure accessor in the checker is dominated by the matching structure test on the same object
                  (the accessors dereference get_if without a check); TypeEnv's are covered by the evaluation of C03 r8.
 r5 EVAL-LOUD     every refusal of the evaluator and its name collector logs a specific error (otherwise ASTInterpreter::AfterVisit logs
                  unknownError, which the property forbids).
 r6 ORDER         Interpreter::Evaluate runs parse, type check, normalisation and evaluation in this order, each guarded by the previous.
Not decided: that every structure the evaluator dereferences is implied by the typing rules (needs the typing rules as mathematics).
"""
from engine.cfgq import call_sites, dominating_guards, normalise_cond, enumerate_paths, paths_avoiding
from engine.visitors import VisitorModel, R
from engine.shape import Keyer
from engine.facts import AnalysisBroken
from rules import shared_visitors as sv

UNITS = ['RSlang', 'RSlang2']
TA = R + 'TypeAuditor'


# ---------------------------------------------------------------------------------------------------------------- tags
class Tags:
    """which of {T (typification), L (logic)} currentType can hold after a node of a given kind was visited successfully"""

    def __init__(self, db, tg, vm):
        self.db, self.tg, self.vm = db, tg, vm
        self.methods = {f.name.split('::')[-1]: f for f in vm.methods}
        self.kind_tags = {}     # kind -> set
        self._memo = {}
        self.notes = {}
        self._solve()

    def _unwrap(self, f, n):
        n = f.stmts[n] if isinstance(n, int) else n
        while True:
            if n['k'] in ('ImplicitCastExpr', 'MaterializeTemporaryExpr', 'CXXBindTemporaryExpr', 'ExprWithCleanups', 'CXXFunctionalCastExpr', 'ParenExpr') and n.get('c'):
                n = f.stmts[n['c'][0]]
            elif n['k'] in ('CXXConstructExpr', 'CXXTemporaryObjectExpr') and 'variant' in (n.get('cls') or n.get('t', '')) and n.get('args'):
                n = f.stmts[n['args'][0]]
            else:
                return n

    def expr_tags(self, f, n, kind, depth=0):
        n = self._unwrap(f, n)
        t = n.get('t', '').replace('const ', '').replace(' const', '').strip()
        if t in ('ccl::rslang::Typification', 'Typification'):
            return {'T'}
        if t in ('ccl::rslang::LogicT', 'LogicT'):
            return {'L'}
        if depth > 6:
            return {'T', 'L'}
        # X.value() / *X with X a local optional filled by ChildType(iter, k)
        src = None
        if n['k'] == 'CXXMemberCallExpr' and (n.get('cs') or '').endswith('optional::value') and 'obj' in n:
            src = f.strip(f.stmts[n['obj']])
        elif n['k'] in ('UnaryOperator', 'CXXOperatorCallExpr') and n.get('op') == '*':
            kids = f.children(n) if n['k'] == 'UnaryOperator' else [f.stmts[a] for a in n['args']]
            src = f.strip(kids[0])
        if src is not None and src['k'] == 'DeclRefExpr' and src.get('dk') == 'local':
            init = None
            for s0 in f.rec['stmts']:
                if s0['k'] == 'DeclStmt':
                    for d in s0.get('decls', []):
                        if d.get('did') == src.get('did') and 'init' in d:
                            init = f.strip(f.stmts[d['init']])
            if init is not None and init['k'] == 'CXXMemberCallExpr' and (init.get('cs') or '').endswith('::ChildType'):
                return self.child_tags(f, init, kind)
            if init is not None and init['k'] == 'CXXMemberCallExpr' and (init.get('cs') or '').endswith('TypeContext::TypeFor'):
                return self._context_tags(f, n, kind)
        if n['k'] == 'DeclRefExpr' and n.get('dk') == 'param':
            out = set()
            for g in self.vm.methods:
                for c in g.calls():
                    if c.get('mn') == f.mn:
                        idx = [i for i, p in enumerate(f.rec['params']) if p['did'] == n.get('did')]
                        if idx and idx[0] < len(c.get('args', [])):
                            for k2 in (self.vm.kinds.get(g.mn) or {None}):
                                out |= self.expr_tags(g, c['args'][idx[0]], k2, depth + 1)
            return out or {'T', 'L'}
        return {'T', 'L'}

    def child_tags(self, f, call, kind):
        """tags of the child read by ChildType(iter, k) when f visits a node of `kind`"""
        idx = self.vm.index_class(f, f.stmts[call['args'][1]])
        out = set()
        ars = sorted(self.tg.arity.get(kind, ()))
        if idx[0] == 'cond':
            g = self.vm.guard_holds(f, f.stmts[idx[1]['cond']], True, kind, ars[0] if ars else 0)
            idx = idx[2] if g is True else idx[3] if g is False else ('loop', '?')
        if idx[0] == 'lit':
            kids = self.tg.children_at(kind, idx[1])
        elif idx[0] == 'count-':
            kids = self.tg.children_at(kind, -idx[1])
        else:
            kids = set()
            for (k, i), s in self.tg.child.items():
                if k == kind and i >= 0:
                    kids |= s
        allowed = self._kind_filter(f, call, kind)
        if allowed is not None:
            kids = {c for c in kids if c.split(':')[0] in allowed}
        for c in kids:
            out |= self.tags_under(c, kind)
        return out

    def _kind_filter(self, f, call, kind):
        """a dominating guard `g(iter, k)` where g refuses every node kind outside a fixed list (switch with `default: return false`)
        narrows the kinds of child k (IsStructureDomain before the structure type is read)"""
        pos = f.position_of(call)
        if pos is None:
            return None
        want = f.strip(f.stmts[call['args'][1]]).get('txt')
        for c, pol in dominating_guards(f, pos):
            c = f.strip(c)
            while c is not None and c['k'] == 'BinaryOperator' and c.get('op') in ('&&', '||'):
                c = f.strip(f.children(c)[-1])
            c2, pol2 = normalise_cond(f, c, pol)
            if c2 is None or c2['k'] != 'CallExpr' or not pol2 or len(c2.get('args', [])) != 2:
                continue
            if not self.vm._is_own_cursor(f, f.stmts[c2['args'][0]]) or f.strip(f.stmts[c2['args'][1]]).get('txt') != want:
                continue
            g = self.db.by_mn.get(c2.get('mn') or '')
            seen = 0
            while g is not None and seen < 3:
                seen += 1
                sw = [x for x in g.walk() if x['k'] == 'SwitchStmt']
                if sw:
                    body = g.stmts[sw[0]['body']]
                    labelled, default_false = set(), False
                    for ci in body['c']:
                        st = g.stmts[ci]
                        labels = []
                        while st['k'] in ('CaseStmt', 'DefaultStmt'):
                            labels.append('default' if st['k'] == 'DefaultStmt' else (st.get('enumerator') or '').split('::')[-1])
                            st = g.stmts[st['sub']]
                        if 'default' in labels and st['k'] == 'ReturnStmt' and g.return_literal(st) == 'false' and len(labels) == 1:
                            default_false = True
                        labelled |= {l for l in labels if l != 'default'}
                    if default_false and 'id' in g.stmts[sw[0]['cond']].get('txt', ''):
                        return labelled
                    return None
                # forwarding overload: g(iter, index) { iter.MoveToChild(index); return g(iter); }
                nxt = [self.db.by_mn.get(x.get('mn') or '') for x in g.calls() if (x.get('cs') or '') == g.name and x.get('mn') != g.mn]
                g = nxt[0] if nxt else None
        return None

    def tags_under(self, child_kind, parent_kind):
        if child_kind in ('ID_GLOBAL', 'ID_FUNCTION', 'ID_PREDICATE'):
            return self._global_tags(parent_kind)
        if child_kind == 'NT_FUNC_CALL:F':
            # ASSUMPTION (C03 r5 decides it for schema contexts): the context types a term-function F# as a typification, a predicate P# as LOGIC
            return {'T'}
        if child_kind == 'NT_FUNC_CALL:P':
            return {'L'}
        return set(self.kind_tags.get(child_kind.split(':')[0], set()))

    def _global_tags(self, parent_kind):
        """ViGlobal: the context may type the identifier LOGIC; L survives only on the paths the guards leave open for this parent"""
        f = self.methods.get('ViGlobal')
        if f is None:
            return {'T', 'L'}
        sets = [n for n in f.calls() if (n.get('cs') or '') == TA + '::SetCurrent']
        out = {'T'}
        for n in sets:
            for path in enumerate_paths(f, f.graph()[1], [f.position_of(n)], limit=400):
                if self._consistent(f, path, parent_kind):
                    out.add('L')
        return out

    def _context_tags(self, f, n, kind):
        return {'T', 'L'}

    def _consistent(self, f, path, parent_kind):
        """can this path be taken when the identifier is LOGIC, is not the root and its parent has the given kind?"""
        for c, pol in path:
            c = f.strip(c)
            while c is not None and c['k'] == 'BinaryOperator' and c.get('op') in ('&&', '||'):
                c = f.strip(f.children(c)[-1])
            c, pol = normalise_cond(f, c, pol)
            if c is None:
                continue
            txt = c.get('txt', '')
            val = None
            if c['k'] == 'CallExpr' and c.get('cs') == 'std::holds_alternative':
                targ = ','.join(c.get('targs', []))
                val = 'LogicT' in targ
            elif c['k'] == 'CXXMemberCallExpr' and (c.get('cs') or '').endswith('Cursor::IsRoot'):
                val = False
            elif c['k'] == 'BinaryOperator' and c.get('op') in ('==', '!=') and 'Parent()' in txt:
                en = [x.get('name') for x in f.walk(c) if x['k'] == 'DeclRefExpr' and x.get('dk') == 'enumerator']
                if en:
                    val = (parent_kind == en[0]) == (c['op'] == '==')
            if val is not None and val != pol:
                return False
        return True

    def _events(self, f, kind):
        """[(position, tags)] of the calls in f that set currentType, for a node of `kind`"""
        out = []
        for n in f.calls():
            cs = n.get('cs') or ''
            last = cs.split('::')[-1]
            pos = f.position_of(n)
            if pos is None:
                continue
            sk = self.vm.switch_kinds(f, n)
            if sk is not None and kind is not None and not (kind in sk[1] or (sk[2] and kind not in sk[3])):
                continue
            if cs == TA + '::SetCurrent':
                e = self._unwrap(f, n['args'][0])
                t = self.expr_tags(f, e, kind)
                if t == {'T', 'L'}:
                    key = Keyer(f).key(e)
                    for c, pol in dominating_guards(f, pos):
                        c2, pol2 = normalise_cond(f, c, pol)
                        if c2 is not None and c2['k'] == 'CallExpr' and c2.get('cs') == 'std::holds_alternative' and Keyer(f).key(f.stmts[c2['args'][0]]) == key:
                            is_t = 'Typification' in ','.join(c2.get('targs', []))
                            t = {'T'} if is_t == pol2 else {'L'}
                out.append((pos, t))
            elif last == 'VisitAllAndSetCurrent' and len(n.get('args', [])) >= 2:
                out.append((pos, self.expr_tags(f, n['args'][1], kind)))
            elif last in ('ChildType', 'ChildTypeDebool', 'VisitChild') and len(n.get('args', [])) >= 2 and self.vm._is_own_cursor(f, f.stmts[n['args'][0]]):
                out.append((pos, self.child_tags(f, n, kind) if kind is not None else {'T', 'L'}))
            elif last == 'VisitAllChildren':
                out.append((pos, {'T', 'L'}))
            elif cs.startswith(TA + '::'):
                g = self.vm.by_mn.get(n.get('mn') or '')
                if g is not None and g is not f and g.has_cfg() and self._sets_type(g):
                    out.append((pos, self.method_tags(g, kind)))
        return out

    def _sets_type(self, g, seen=None):
        seen = seen or set()
        if g.mn in seen:
            return False
        seen.add(g.mn)
        for n in g.calls():
            cs = n.get('cs') or ''
            if cs == TA + '::SetCurrent' or cs.split('::')[-1] in ('VisitChild', 'ChildType', 'VisitAllChildren', 'DispatchVisit'):
                return True
            h = self.vm.by_mn.get(n.get('mn') or '')
            if h is not None and h is not g and cs.startswith(TA + '::') and self._sets_type(h, seen):
                return True
        return False

    def method_tags(self, f, kind):
        """tags currentType can hold when f returns true: the last type-setting event on some path to a success exit"""
        key = (f.mn, kind)
        if key in self._memo:
            return self._memo[key]
        self._memo[key] = set()      # recursion: start from bottom
        from engine.cfgq import success_exits
        ev = self._events(f, kind)
        exits = success_exits(f)
        out = set()
        allpos = [p for p, _ in ev]
        for p, t in ev:
            others = [q for q in allpos if q != p]
            if paths_avoiding(f, [p], others, exits):
                out |= t
        self._memo[key] = out
        return out

    def _solve(self):
        final = {k for k in self.tg.kinds() if k not in ('INTERRUPT', 'PUNC_PL', 'PUNC_PR', 'PUNC_CR')}
        for k in final:
            self.kind_tags[k] = set()
        changed = True
        rounds = 0
        while changed and rounds < 12:
            rounds += 1
            changed = False
            self._memo = {}
            for kind in sorted(final):
                m = self.vm.dispatch.get(kind, self.vm.dispatch.get('default'))
                f = self.methods.get(m)
                if f is None:
                    continue
                tags = self.method_tags(f, kind)
                if kind in ('ID_GLOBAL', 'ID_FUNCTION', 'ID_PREDICATE'):
                    tags = {'T', 'L'}      # context-dependent; position-dependent refinement in tags_under
                if not tags <= self.kind_tags[kind]:
                    self.kind_tags[kind] |= tags
                    changed = True
        self.rounds = rounds


def variant_rule(db, rule, tg, note):
    vm = VisitorModel(db, tg, TA)
    tags = Tags(db, tg, vm)
    note['type_tags'] = {k: ''.join(sorted(v)) for k, v in sorted(tags.kind_tags.items())}
    note['logical_identifier_allowed_under'] = sorted(p for p in tg.kinds() if 'L' in tags._global_tags(p))
    n_sites = 0
    seen_inst = {}
    for f in vm.methods:
        kinds = vm.kinds.get(f.mn)
        for n in sorted(f.calls(), key=lambda x: (x.get('line', 0), x.get('col', 0))):
            if n.get('cs') != 'std::get' or 'Typification' not in ','.join(n.get('targs', [])) or not n.get('args'):
                continue
            n_sites += 1
            e = tags._unwrap(f, n['args'][0])
            inst = '%s:get(%s)' % (f.name.split('::')[-1], e.get('txt', '')[:28])
            seen_inst[inst] = seen_inst.get(inst, 0) + 1
            if seen_inst[inst] > 1:
                inst += '#%d' % seen_inst[inst]
            # guarded by holds_alternative on the same expression?
            key = Keyer(f).key(e)
            guarded = False
            pos = f.position_of(n)
            for c, pol in (dominating_guards(f, pos) if pos is not None else []):
                for x in f.walk(c):
                    if x['k'] == 'CallExpr' and x.get('cs') == 'std::holds_alternative' and Keyer(f).key(f.stmts[x['args'][0]]) == key:
                        guarded = True
            # `!holds || !f(get(...))` : the get is the right operand of a short-circuit whose left operand tested it
            for a in f.ancestors(n):
                if a['k'] == 'BinaryOperator' and a.get('op') in ('||', '&&'):
                    l = f.children(a)[0]
                    if any(x['k'] == 'CallExpr' and x.get('cs') == 'std::holds_alternative' and Keyer(f).key(f.stmts[x['args'][0]]) == key for x in f.walk(l)) and not any(y is n for y in f.walk(l)):
                        guarded = True
            if guarded:
                rule.ok(inst, 'guarded by holds_alternative on the same value', f.loc(n), nontrivial=False)
                continue
            es = f.strip(e)
            if es['k'] == 'MemberExpr' and es.get('member') == 'currentType':
                # declaration mode: currentType was assigned a Typification by the function that entered the mode
                rule.ok(inst, 'declaration mode (see currentType:writers)', f.loc(n), nontrivial=False)
                continue
            if not kinds:
                if f.name.split('::')[-1] in ('AreCompatible',):
                    rule.ok(inst, 'guarded by the LogicT test of the other branch', f.loc(n), nontrivial=False)
                    continue
                rule.violation(inst, f.loc(n), 'unchecked std::get<Typification> in a function whose node kinds are unknown')
                continue
            bad = {}
            for k in sorted(kinds):
                sk = vm.switch_kinds(f, n)
                if sk is not None and not (k in sk[1] or (sk[2] and k not in sk[3])):
                    continue
                if not any(kk == k for kk, a in vm.feasible(f, n)):
                    continue
                t = tags.expr_tags(f, e, k)
                if 'L' in t:
                    bad[k] = t
            if bad:
                k = sorted(bad)[0]
                rule.violation(inst, f.loc(n), 'std::get<Typification> on a value that can be LOGIC when visiting %s: a logical operand makes it throw std::bad_variant_access out of the type check' % sorted(bad))
            else:
                rule.ok(inst, 'the value read is a typification for every node kind the grammar puts there (%s)' % ', '.join(sorted(kinds))[:80], f.loc(n))
    # declaration mode: writers of currentType other than SetCurrent assign Typification-typed values
    w_bad = []
    w_n = 0
    for f in vm.methods:
        if f.name.endswith('::SetCurrent') or f.name.endswith('::Clear'):
            continue
        for x in f.walk():
            if x['k'] in ('BinaryOperator', 'CXXOperatorCallExpr') and x.get('op') == '=':
                kids = f.children(x) if x['k'] == 'BinaryOperator' else [f.stmts[a] for a in x.get('args', [])]
                if kids and f.strip(kids[0]).get('member') == 'currentType':
                    w_n += 1
                    if tags.expr_tags(f, kids[1], None) != {'T'}:
                        w_bad.append(f.loc(x))
    if w_bad:
        rule.violation('currentType:writers', w_bad[0], 'currentType is assigned a value that may be LOGIC before a declaration is visited; ViLocal / ViTupleDeclaration read it with std::get<Typification>')
    else:
        rule.ok('currentType:writers', '%d direct writes, all of static type Typification' % w_n)
    note['get_sites'] = n_sites


_CF = {}


def _collection_factories(db):
    """static factories of Typification whose every return is the result of ApplyBool() / Bool(): what they return is a collection"""
    if 'v' not in _CF:
        out = []
        for g in db.functions:
            if g.cls == R + 'Typification' and g.rec.get('static') and g.body >= 0 and not g.rec.get('params'):
                rets = [r for r in g.walk() if r['k'] == 'ReturnStmt']

                def is_coll(r):
                    if any((c.get('cs') or '').split('::')[-1] in ('ApplyBool', 'Bool') for c in g.calls(r)):
                        return True
                    v = g.strip(g.children(r)[0]) if g.children(r) else None
                    if v is not None and v['k'] == 'DeclRefExpr' and v.get('name'):        # a (static) local initialised once with such a result
                        inits = [h for h in db.functions if h.name == '%s::%s::<init>' % (g.name, v['name'])]
                        inits += [g] if any(d.get('name') == v['name'] and 'init' in d and any((c.get('cs') or '').split('::')[-1] in ('ApplyBool', 'Bool') for c in g.calls(g.stmts[d['init']]))
                                            for s0 in g.rec['stmts'] if s0['k'] == 'DeclStmt' for d in s0.get('decls', [])) else []
                        return any(h is g or any((c.get('cs') or '').split('::')[-1] in ('ApplyBool', 'Bool') for c in h.calls()) for h in inits)
                    return False
                if rets and all(is_coll(r) for r in rets):
                    out.append(g.name.split('::')[-1])
        _CF['v'] = tuple(sorted(out))
    return _CF['v']


def accessor_rule(db, rule):
    want = {'E': ('IsElement', 'basic'), 'T': ('IsTuple', 'tuple'), 'B': ('IsCollection', 'collection')}
    n_sites = 0
    seen_a = {}
    for f in db.methods_of(TA):
        if not f.has_cfg():
            continue
        K = Keyer(f)
        for n in f.calls():
            cs = n.get('cs') or ''
            last = cs.split('::')[-1]
            if not (cs.startswith(R + 'Structured') and last in want and 'obj' in n):
                continue
            n_sites += 1
            obj = f.stmts[n['obj']]
            key = K.key(obj)
            inst = '%s:%s' % (f.name.split('::')[-1], n.get('txt', '')[:30])
            seen_a[inst] = seen_a.get(inst, 0) + 1
            if seen_a[inst] > 1:
                inst += '#%d' % seen_a[inst]
            pos = f.position_of(n)
            ok = None
            for c, pol in (dominating_guards(f, pos) if pos is not None else []):
                c2 = f.strip(c)
                while c2 is not None and c2['k'] == 'BinaryOperator' and c2.get('op') in ('&&', '||'):
                    c2 = f.strip(f.children(c2)[-1])
                c2, pol2 = normalise_cond(f, c2, pol)
                if c2 is not None and c2['k'] == 'CXXMemberCallExpr' and 'obj' in c2 and K.key(f.stmts[c2['obj']]) == key:
                    p = (c2.get('cs') or '').split('::')[-1]
                    if p == want[last][0] and pol2:
                        ok = 'guarded by %s()' % p
                    elif p in ('IsElement', 'IsTuple', 'IsCollection') and p != want[last][0] and pol2:
                        ok = None
                        rule.violation(inst, f.loc(n), '%s() is reached only when %s() holds for the same object: null dereference' % (last, p))
                        ok = 'reported'
                        break
            if ok is None:
                # same-expression short circuit:  x.IsTuple() && x.T()...   /  !x.IsCollection() || x.B()...
                for a in f.ancestors(n):
                    if a['k'] == 'BinaryOperator' and a.get('op') in ('&&', '||'):
                        l = f.children(a)[0]
                        if any(y is n for y in f.walk(l)):
                            continue
                        for x in f.walk(l):
                            if x['k'] == 'CXXMemberCallExpr' and 'obj' in x and (x.get('cs') or '').split('::')[-1] == want[last][0] and K.key(f.stmts[x['obj']]) == key:
                                neg = any(u['k'] == 'UnaryOperator' and u.get('op') == '!' and any(v is x for v in f.walk(u)) for u in f.walk(l))
                                if (a['op'] == '&&' and not neg) or (a['op'] == '||' and neg):
                                    ok = 'short-circuit after %s()' % want[last][0]
            if ok is None:
                # structure known by construction: ApplyBool()/Bool() results are collections, Tuple() results are tuples
                o = f.strip(obj)
                if o['k'] in ('CXXMemberCallExpr', 'CallExpr') and (o.get('cs') or '').split('::')[-1] in {'B': ('ApplyBool', 'Bool') + _collection_factories(db), 'T': ('Tuple',), 'E': ()}[last]:
                    ok = 'constructed as a %s' % want[last][1]
            if ok == 'reported':
                continue
            if ok:
                rule.ok(inst, ok, f.loc(n))
            else:
                rule.violation(inst, f.loc(n), '%s() dereferences get_if<> without a dominating %s() test on `%s`: a typification of another structure is a null dereference' % (last, want[last][0], obj.get('txt', '')[:40]))
    return n_sites


def check(db, rep):
    rep.explanation = ('Structural safety obligations of the checker/evaluator pair, decided over the tree grammar extracted from the LALR tables and the semantic actions: '
                       'child accesses within bounds for every node kind and arity, dispatch exhaustive, unchecked variant reads only of typifications, structure accessors guarded, evaluator refusals loud. '
                       'The implication "typing rule accepts => evaluator dereference is valid" is not decided.')
    tg = sv.tree_grammar(db)
    rep.note('tree_grammar', dict(tg.stats, node_kinds=len(tg.kinds()), relation_size=sum(len(v) for k, v in tg.child.items() if k[1] >= 0)))
    note = {}
    r1 = rep.rule('r1', 'CHILD-INDEX: every child access of every visitor is inside the node for every (kind, arity) of the tree grammar under its dominating guards', 150)
    sv.child_index_rule(db, r1, tg, note=note)
    r2 = rep.rule('r2', 'DISPATCH: every node kind has a dispatch case in every visitor; asserted arities hold for all trees', 10)
    sv.dispatch_rule(db, r2, tg)
    r3 = rep.rule('r3', 'VARIANT-TAG: unchecked std::get<Typification> reads only values that cannot be LOGIC (tags propagated over the tree grammar)', 20)
    variant_rule(db, r3, tg, note)
    r4 = rep.rule('r4', 'ACCESSOR: E()/T()/B() in the checker are dominated by the matching structure test on the same object', 15)
    note['accessor_sites'] = accessor_rule(db, r4)
    r5 = rep.rule('r5', 'PARENT: Cursor::Parent() is read only where the node cannot be the root of a tree, or under an IsRoot() test', 1)
    parent_rule(db, r5, tg)
    r6 = rep.rule('r6', 'EVAL-LOUD: every refusal of the evaluator, its imperative block evaluator and its name collector logs a specific error or propagates a loud callee', 30)
    from rules import C03
    C03.loud_rule(db, rep, r6, [R + 'ASTInterpreter', R + 'ASTInterpreter::ImpEvaluator', R + 'ASTInterpreter::NameCollector'],
                  'ASTInterpreter::AfterVisit then logs unknownError for an expression the checker accepted', prefix='evaluator_', defensive_variant_tests=True)
    evaluator_error_count(db, r6)
    r7 = rep.rule('r7', 'ORDER: Interpreter::Evaluate parses, type-checks, normalises and evaluates in this order, each step guarded by the success of the previous', 1)
    order_rule(db, r7)
    r8 = rep.rule('r8', 'NORMALISE-SCOPE (shared with C01 r10): eliminating tuple and enumerated declarations and inlining term-functions, interpreted from the normaliser source, leaves every variable bound to its own binder - no variable of the evaluated tree is unbound or captured; fresh names come from a counter that is only incremented', 10)
    from rules import C01
    C01.normalise_meaning_rule(db, r8)
    fresh_names_rule(db, r8)
    r10 = rep.rule('r10', 'DECL-VARS: the identifier of a declared variable is read only from a child that the tree grammar guarantees to be a declaration', 6)
    note['decl_var_sites'] = decl_vars_rule(db, r10, tg)
    r9 = rep.rule('r9', 'TYPING-SUPPORT (shared with C03 r8, r9): the checker accepts a set-theoretic construct only when the typing rule derives a type, and the type algebra is the specificity order; the evaluator dereferences exactly these structures', 17)
    C03.type_algebra(db, r9)
    note['typing_rule_cases'] = C03.typing_rules(db, r9, rep.tier)
    C03.recursion_typing(db, r9)
    C03.scope_rules(db, r9)           # a re-declared name carries the type of its new binding: the evaluator's structure accesses follow that type
    for k, v in note.items():
        rep.note(k, v)


def parent_rule(db, rule, tg):
    n = 0
    for cls in sv.VISITORS:
        vm = VisitorModel(db, tg, cls)
        for f in vm.methods:
            kinds = vm.kinds.get(f.mn)
            for c in f.calls():
                if not (c.get('cs') or '').endswith('Cursor::Parent') or 'obj' not in c or not vm._is_own_cursor(f, f.stmts[c['obj']]):
                    continue
                n += 1
                inst = '%s::%s' % (cls.split('::')[-1], f.name.split('::')[-1])
                rootable = sorted((kinds or set()) & tg.roots) if kinds else ['?']
                pos = f.position_of(c)
                guarded = False
                for g, pol in (dominating_guards(f, pos) if pos is not None else []):
                    g2 = f.strip(g)
                    while g2 is not None and g2['k'] == 'BinaryOperator' and g2.get('op') in ('&&', '||'):
                        g2 = f.strip(f.children(g2)[-1])
                    g2, pol2 = normalise_cond(f, g2, pol)
                    if g2 is not None and g2['k'] == 'CXXMemberCallExpr' and (g2.get('cs') or '').endswith('Cursor::IsRoot') and pol2 is False:
                        guarded = True
                for a in f.ancestors(c):
                    if a['k'] == 'BinaryOperator' and a.get('op') == '&&':
                        l = f.children(a)[0]
                        if not any(y is c for y in f.walk(l)) and any(x['k'] == 'CXXMemberCallExpr' and (x.get('cs') or '').endswith('Cursor::IsRoot') for x in f.walk(l)) \
                                and any(u['k'] == 'UnaryOperator' and u.get('op') == '!' for u in f.walk(l)):
                            guarded = True
                if guarded or not rootable:
                    rule.ok(inst, 'under !IsRoot()' if guarded else 'the node kinds visited here are never roots', f.loc(c))
                else:
                    rule.violation(inst, f.loc(c), 'Parent() dereferences the parent pointer; a %s node can be the whole expression (null dereference)' % '/'.join(rootable[:4]))
    if n == 0:
        rule.ok('none', 'no visitor reads Parent()')


def order_rule(db, rule):
    f = db.fn(R + 'Interpreter::Evaluate')
    def pos_of(name):
        c = [p for p, n in call_sites(f, lambda n: (n.get('cs') or '').endswith(name))]
        return c[0] if c else None
    parse, check, norm, ev = pos_of('Parser::Parse'), pos_of('TypeAuditor::CheckType'), pos_of('SyntaxTree::Normalize'), pos_of('ASTInterpreter::Evaluate')
    if None in (parse, check, norm, ev):
        rule.broken('Interpreter::Evaluate: one of Parse / CheckType / Normalize / Evaluate not found')
        return
    ok = check in f.reach(parse) and norm in f.reach(check) and ev in f.reach(norm)
    g_check = any((c.get('cs') or '').endswith('Parser::Parse') and pol is True for c, pol in _atoms_at(f, check))
    g_ev = any((c.get('cs') or '').endswith('TypeAuditor::CheckType') and pol is True for c, pol in _atoms_at(f, ev))
    if ok and g_check and g_ev:
        rule.ok('Interpreter::Evaluate', 'Parse -> CheckType -> Normalize -> Evaluate, each under the success of the previous', '%s:%d' % (f.file, f.line))
    else:
        rule.violation('Interpreter::Evaluate', '%s:%d' % (f.file, f.line), 'evaluation can be reached without a successful parse and type check of the same text')


def _atoms_at(f, pos):
    out = []
    for c, pol in dominating_guards(f, pos):
        c2, pol2 = normalise_cond(f, c, pol)
        if c2 is not None:
            out.append((c2, pol2))
    return out


# scope of the variables bound by a tuple declaration, per construct: child indices whose subtree may mention them (read off the language:
# quantifier and declarative bind in their predicate, recursion in condition and step, an imperative block binds for the whole imperative expression)
# constructs where an in-scope child may be *one of the declared variables itself*: only the value expression of an imperative (any type).
# The step/condition of a recursion cannot: its type must equal the type of the whole declared tuple (ViRecursion), which no component has.
BARE_VARIABLE_POSSIBLE = {'NT_IMPERATIVE_EXPR'}
TUPLE_SCOPE = {
    'Quantifier': {'FORALL': [2], 'EXISTS': [2]},
    'Declarative': {'NT_DECLARATIVE_EXPR': [2]},
    'Recursion': {'NT_RECURSIVE_FULL': [2, 3], 'NT_RECURSIVE_SHORT': [2]},
    'Imperative': {'NT_IMPERATIVE_EXPR': 'all'},
}


def normalise_scope_rule(db, rule, tg):
    """After a tuple declaration (a,b) is replaced by one fresh variable, every occurrence of a and b in its scope must be rewritten to a
    projection: each in-scope child is handed to SubstituteTupleVariables, and where the grammar allows the child itself to be a bare
    variable the parent is handed over as well (the substitution only rewrites children of the node it is given)."""
    N = R + 'Normalizer'
    sub = N + '::SubstituteTupleVariables'
    methods = {f.name.split('::')[-1]: f for f in db.methods_of(N) if f.has_cfg()}
    for mname, kinds in TUPLE_SCOPE.items():
        f = methods.get(mname)
        if f is None:
            rule.broken('anchor vanished: Normalizer::%s' % mname)
            continue
        root_param = f.rec['params'][0]
        calls = [n for n in f.calls() if n.get('cs') == sub]
        # helper indirection: Quantifier -> TupleDeclaration(quant(0), quant(2)) -> SubstituteTupleVariables(predicate)
        covered_idx, covers_root, covers_all = set(), False, False
        for n in f.calls():
            cs = n.get('cs') or ''
            tgt = None
            if cs == sub:
                tgt = f.strip(f.stmts[n['args'][0]])
            elif cs == N + '::TupleDeclaration' and len(n.get('args', [])) >= 2:
                tgt = f.strip(f.stmts[n['args'][1]])
            if tgt is None:
                continue
            if tgt['k'] == 'DeclRefExpr' and tgt.get('did') == root_param['did']:
                covers_root = True
            elif tgt['k'] == 'CXXOperatorCallExpr' and tgt.get('op') == '()' and f.strip(f.stmts[tgt['args'][0]]).get('did') == root_param['did']:
                idx = f.strip(f.stmts[tgt['args'][1]])
                if idx['k'] == 'IntegerLiteral':
                    covered_idx.add(int(idx.get('cv', idx.get('txt', '0'))))
                else:
                    # a loop variable running over all children
                    covers_all = True
        for kind, scope in kinds.items():
            ars = sorted(tg.arity.get(kind, ()))
            if not ars:
                rule.broken('tree grammar has no %s nodes' % kind)
                continue
            idxs = list(range(0, max(ars))) if scope == 'all' else scope
            missing = [i for i in idxs if not (covers_all or i in covered_idx or covers_root and False)]
            bare = [i for i in idxs if 'ID_LOCAL' in tg.children_at(kind, i)] if kind in BARE_VARIABLE_POSSIBLE else []
            inst = 'Normalizer::%s:%s' % (mname, kind)
            if missing:
                rule.violation(inst, '%s:%d' % (f.file, f.line), 'children %s of a %s node are in the scope of the tuple declaration but are not handed to SubstituteTupleVariables: variables of the removed declaration stay unbound there' % (missing, kind))
            elif bare and not covers_root:
                rule.violation(inst, '%s:%d' % (f.file, f.line), 'child %s of a %s node can be a bare variable (tree grammar) and SubstituteTupleVariables only rewrites the children of the node it is given: the node itself must be passed too, or `%s` keeps a variable the declaration no longer binds' % (
                    bare, kind, tg.witness.get((kind, bare[0], 'ID_LOCAL'), '?')))
            else:
                rule.ok(inst, 'in-scope children %s substituted%s' % (idxs if scope != 'all' else 'all', '; bare-variable children covered through the parent' if bare else ''), '%s:%d' % (f.file, f.line))


DECL_KINDS = {'ID_LOCAL', 'NT_TUPLE_DECL', 'NT_ENUM_DECL'}


def decl_vars_rule(db, rule, tg):
    """`*begin(nodeVars[C.Child(0).get()])` reads the identifier of the variable a construct declares. It is defined only if child 0 of C is a
    declaration (the name collector stores exactly one identifier for a local; any other node may have none: begin() of an empty vector).
    C is the visited node (kinds from the dispatch) or a cursor moved onto a block under `switch (C->id)` (kinds from the case labels)."""
    n_sites = 0
    # node kinds for which the name collector stores an identifier on every accepting path
    from engine.cfgq import success_exits
    named = set()
    try:
        nc = VisitorModel(db, tg, R + 'ASTInterpreter::NameCollector')
        for g in nc.methods:
            if g.mn not in nc.kinds or g.name.split('::')[-1] not in ('ViLocal', 'ViGlobal'):
                continue
            writes = [g.position_of(x) for x in g.walk() if x['k'] in ('BinaryOperator', 'CXXOperatorCallExpr') and x.get('op') == '='
                      and 'nodeVars[iter.get()]' in x.get('txt', '').replace(' ', '').replace('parent.', '')]
            writes = [w for w in writes if w is not None]
            if writes and not paths_avoiding(g, [g.graph()[1]], writes, success_exits(g)):
                named |= nc.kinds[g.mn]
    except AnalysisBroken:
        pass
    for cls in (R + 'ASTInterpreter', R + 'ASTInterpreter::NameCollector', R + 'ASTInterpreter::ImpEvaluator'):
        try:
            vm = VisitorModel(db, tg, cls) if not cls.endswith('ImpEvaluator') else None
        except AnalysisBroken:
            vm = None
        for f in db.methods_of(cls):
            if not f.has_cfg():
                continue
            for n in f.walk():
                if not (n['k'] in ('UnaryOperator', 'CXXOperatorCallExpr') and n.get('op') == '*'):
                    continue
                kids = f.children(n) if n['k'] == 'UnaryOperator' else [f.stmts[a] for a in n.get('args', [])]
                if not kids or 'nodeVars' not in kids[0].get('txt', '') or 'begin' not in kids[0].get('txt', ''):
                    continue
                n_sites += 1
                inst = '%s::%s:%s' % (cls.split('::')[-1], f.name.split('::')[-1], n.get('txt', '')[:44])
                # the cursor expression inside nodeVars[...]
                childcalls = [x for x in f.walk(n) if x['k'] == 'CXXMemberCallExpr' and (x.get('cs') or '').endswith('Cursor::Child') and 'obj' in x]
                gets = [x for x in f.walk(n) if x['k'] == 'CXXMemberCallExpr' and (x.get('cs') or '').endswith('Cursor::get') and 'obj' in x]
                if not childcalls:
                    # nodeVars[iter.get()] : the node itself must be a local
                    own = gets and vm is not None and vm._is_own_cursor(f, f.stmts[gets[0]['obj']])
                    kinds = vm.kinds.get(f.mn, set()) if own else None
                    if kinds and kinds <= named:
                        rule.ok(inst, 'the visited node is an identifier: the name collector stores its id on every accepting path (%s)' % ', '.join(sorted(kinds)), f.loc(n))
                    else:
                        rule.violation(inst, f.loc(n), 'the identifier list of a node that need not be an identifier is dereferenced: empty for %s' % (sorted(kinds - named)[:4] if kinds else 'an unknown node'))
                    continue
                cc = childcalls[0]
                idx = f.strip(f.stmts[cc['args'][0]]) if cc.get('args') else None
                k = int(idx.get('cv', idx.get('txt', '-1'))) if idx is not None and idx['k'] == 'IntegerLiteral' else None
                cur = f.strip(f.stmts[cc['obj']])
                kinds = None
                if vm is not None and vm._is_own_cursor(f, cur):
                    kinds = set(vm.kinds.get(f.mn, set()))
                    sk = vm.switch_kinds(f, n)
                    if sk is not None:
                        kinds = {x for x in kinds if x in sk[1] or (sk[2] and x not in sk[3])}
                else:
                    # a local cursor: kinds from the case labels of a switch over its id (directly or through a variable copied from it)
                    for a in f.ancestors(n):
                        if a['k'] == 'CaseStmt':
                            sw = [b for b in f.ancestors(n) if b['k'] == 'SwitchStmt']
                            if sw:
                                ctxt = f.stmts[sw[0]['cond']].get('txt', '')
                                if cur.get('txt', '') and (cur['txt'] + '->id' in ctxt or 'rootID' in ctxt or 'ID' in ctxt):
                                    body = f.stmts[sw[0]['body']]
                                    curl, hit = [], None
                                    for ci in body['c']:
                                        st = f.stmts[ci]
                                        labels = []
                                        while st['k'] in ('CaseStmt', 'DefaultStmt'):
                                            labels.append('default' if st['k'] == 'DefaultStmt' else (st.get('enumerator') or '').split('::')[-1])
                                            st = f.stmts[st['sub']]
                                        if labels:
                                            curl = labels
                                        if any(x is n for x in f.walk(st)):
                                            hit = list(curl)
                                    if hit and 'default' not in hit:
                                        kinds = set(hit)
                            break
                if kinds is None or k is None:
                    rule.violation(inst, f.loc(n), 'the node whose child declares the variable cannot be identified (cursor `%s`): the identifier list may be empty' % cur.get('txt', '')[:30])
                    continue
                bad = {kd: sorted(tg.children_at(kd, k) - DECL_KINDS)[:4] for kd in kinds if tg.children_at(kd, k) - DECL_KINDS}
                if bad:
                    rule.violation(inst, f.loc(n), 'child %d of %s is not always a declaration (it can be %s): a node without variables has an empty identifier list and begin() is dereferenced' % (k, sorted(bad), list(bad.values())[0]))
                else:
                    rule.ok(inst, 'child %d of %s is always a declaration' % (k, sorted(kinds)), f.loc(n))
    return n_sites


def fresh_names_rule(db, rule):
    """Bound variables of an inlined function body are renamed to fresh names; freshness must hold across all calls expanded in one expression
    (a body may call another function inside the scope of its own bound variable): the number in the name comes from a member counter that is
    only ever incremented, never reset or recomputed per call."""
    from engine.modset import ModSets
    N = R + 'Normalizer'
    f = db.fn(N + '::SubstituteArgs', required=False)
    if f is None:
        rule.broken('anchor vanished: Normalizer::SubstituteArgs')
        return
    ts = [n for n in f.calls() if n.get('cs') == 'std::to_string' and n.get('args')]
    if not ts:
        # the name generator may be a helper of the normaliser shared by several renamers
        for c in f.calls():
            for g in db.callees(f, c):
                if g.cls == N and g.has_cfg() and any(x.get('cs') == 'std::to_string' and x.get('args') for x in g.calls()):
                    f = g
                    ts = [x for x in g.calls() if x.get('cs') == 'std::to_string' and x.get('args')]
                    break
            if ts:
                break
    if not ts:
        rule.violation('SubstituteArgs:fresh-names', '%s:%d' % (f.file, f.line), 'the renamed variables are no longer numbered')
        return
    arg = f.strip(f.stmts[ts[0]['args'][0]])
    fld = arg.get('member') if arg['k'] == 'MemberExpr' and (not f.children(arg) or f.strip(f.children(arg)[0])['k'] == 'CXXThisExpr') else None
    if fld is None:
        rule.violation('SubstituteArgs:fresh-names', f.loc(ts[0]), 'the fresh name is numbered by `%s`, which is not a counter of the normaliser: it restarts for every expanded call, so a function called inside the scope of another expanded body reuses the name of its bound variable' % arg.get('txt', '')[:50])
        return
    ms = ModSets(db)
    bad = []
    incs = 0
    for g in db.methods_of(N):
        if not g.has_cfg():
            continue
        for ev in ms.direct_events(g):
            if ev[0] == fld:
                if ev[1] == 'incdec' and ev[2].get('op') == '++':
                    incs += 1
                else:
                    bad.append((g, ev[2]))
    if bad:
        rule.violation('SubstituteArgs:fresh-names', bad[0][0].loc(bad[0][1]), 'the fresh-name counter `%s` is reset or overwritten (`%s`): names restart and can capture a variable of an enclosing expanded body' % (fld, bad[0][1].get('txt', '')[:40]))
    elif incs == 0:
        rule.violation('SubstituteArgs:fresh-names', f.loc(ts[0]), 'the fresh-name counter `%s` is never incremented' % fld)
    else:
        rule.ok('SubstituteArgs:fresh-names', 'numbered by the member counter `%s`, which is only incremented' % fld, f.loc(ts[0]))


def evaluator_error_count(db, rule):
    """every ASTInterpreter::OnError overload counts the error as critical: AfterVisit appends unknownError to a failure with no counted error"""
    from engine.evalmini import Interp, Obj, OutOfFragment, NOT_HANDLED, enum_values
    eids = enum_values(db, R + 'ValueEID')
    for f in [g for g in db.methods_of(R + 'ASTInterpreter') if g.name.endswith('::OnError') and g.has_cfg()]:
        inst = 'OnError/%d:counts' % len(f.rec['params'])
        bad = None
        try:
            for nm, val in sorted(eids.items()):
                this = Obj(countCriticalErrors=0, reporter=None)
                args = [val, 3] + ([b'p'] if len(f.rec['params']) == 3 else [])
                Interp(db).call(f, args, this)
                if this['countCriticalErrors'] != 1:
                    bad = bad or 'ValueEID::%s is reported without being counted as critical: the evaluation fails and AfterVisit adds ValueEID::unknownError to the specific error' % nm
        except OutOfFragment as e:
            rule.broken('ASTInterpreter::OnError outside the evaluable fragment: %s' % e)
            continue
        if bad:
            rule.violation(inst, '%s:%d' % (f.file, f.line), bad)
        else:
            rule.ok(inst, 'all %d evaluation error codes are counted' % len(eids), '%s:%d' % (f.file, f.line))
