"""C17 — text references are extracted, resolved and written back consistently.

 r1 FORMAT     writer/reader agreement of the reference syntax: Entity/CollaborationRef::ToString, split with the constants of
               SplitReference and indexed with the field constants the parser uses, give back the fields that were written.
 r2 GRAMMEMES  TAG_NAMES (printing) and TAG_MAP (parsing) are mutually inverse on every grammeme and every name has GRAMMEM_LENGTH bytes.
 r3 SCAN       NextReference returns [position of '@', position after the matching '}') and ExtractAll resumes the scan exactly at the
               end of the previous reference (adjacent references are found, none is scanned twice).
 r4 RANGES     every recorded length of a resolved reference is measured in code points (SizeInCodePoints), the new range starts at
               old start + accumulated difference, the difference accumulates resolved - unresolved length, Insert/EraseIn shift all
               later references by the inserted/erased length through ShiftAllAfter.
 r5 REFERALS   ManagedText::Referals collects exactly the entity references.
 r6 NO-FAULT   potentially throwing operations in the reference parser are guarded (a noexcept function that can throw terminates
               the process; stoi on an unbounded digit string throws out_of_range).
Not decided: byte-exact preservation of the text between references; UTF-8 offset arithmetic of the iterator itself (C20).
"""
from engine.cfgq import call_sites, guard_atoms, dominating_guards, paths_avoiding
from engine.evalmini import Interp, Obj, OutOfFragment, NOT_HANDLED
from engine.shape import Keyer, short
from engine.facts import AnalysisBroken

UNITS = ['cclLang']
L = 'ccl::lang::'


def _static_init(db, suffix):
    c = [f for f in db.functions if f.name.endswith(suffix + '::<init>')]
    if not c:
        raise AnalysisBroken('static table %s not found' % suffix)
    return c[0]


def check(db, rep):
    rep.explanation = ('Reference syntax as writer/reader table agreement, grammeme tables as a bijection over the enum, scan/resume positions and the '
                       'range bookkeeping (units: code points; accumulation of the length difference; shifting) as structural data-flow rules.')
    # ------------------------------------------------------------------ r1
    r1 = rep.rule('r1', 'FORMAT: ToString of both reference kinds splits back (prefix/suffix/separator constants of SplitReference, field indices of Parse) into the written fields', 2)
    sr = next((f for f in db.functions if f.name.endswith('::SplitReference')), None)
    if sr is None:
        r1.broken('SplitReference not found')
    else:
        consts = {}
        for f in db.functions:
            if f.name.startswith(sr.name + '::') and f.name.endswith('::<init>'):
                n = f.strip(f.stmts[f.body])
                if 'cv' in n:
                    consts[f.name.split('::')[-2]] = n['cv']
        delim = [n for n in sr.calls() if n.get('cs') == 'ccl::SplitBySymbol']
        dch = sr.strip(sr.stmts[delim[0]['args'][1]]).get('cv') if delim and len(delim[0].get('args', [])) > 1 else None
        if 'prefixLen' not in consts or 'suffixLen' not in consts or dch is None:
            r1.broken('SplitReference constants not recognised (%s, delimiter %s)' % (consts, dch))
        else:
            fields = {}
            for e in db.enums.values():
                for x in e['enumerators']:
                    if x['name'] in ('TR_ENTITY', 'TR_TAGS', 'CR_OFFSET', 'CR_TEXT'):
                        fields[x['name']] = x['val']

            def hook(it, fn, n, env):
                cs = n.get('cs') or ''
                if cs == L + 'Morphology::ToString':
                    return b'FORM'
                return NOT_HANDLED
            for cls, obj, want in ((L + 'EntityRef', Obj(entity=b'X1', form=Obj(__kind__='form')), {'TR_ENTITY': b'X1', 'TR_TAGS': b'FORM'}),
                                   (L + 'CollaborationRef', Obj(offset=-3, nominal=b'NOM'), {'CR_OFFSET': b'-3', 'CR_TEXT': b'NOM'})):
                f = db.fn(cls + '::ToString')
                try:
                    text = Interp(db, on_call=hook).call(f, [], obj)
                except OutOfFragment as e:
                    r1.broken('%s::ToString outside the fragment: %s' % (cls, e))
                    continue
                inner = text[consts['prefixLen']:len(text) - consts['suffixLen']]
                toks = inner.split(bytes([dch]))
                bad = [k for k, v in want.items() if fields.get(k) is None or fields[k] >= len(toks) or toks[fields[k]] != v]
                head_ok = text[:consts['prefixLen']] == b'@{' and text[len(text) - consts['suffixLen']:] == b'}'
                inst = cls.split('::')[-1]
                if bad or not head_ok:
                    r1.violation(inst, '%s:%d' % (f.file, f.line), 'written form %r does not split back into its fields with prefix %d / suffix %d / separator %r and indices %s (mismatch: %s)' % (
                        text.decode(), consts['prefixLen'], consts['suffixLen'], chr(dch), {k: fields.get(k) for k in want}, bad or 'delimiters'))
                else:
                    r1.ok(inst, '%s re-splits into its fields' % text.decode(), '%s:%d' % (f.file, f.line))

    # ------------------------------------------------------------------ r2
    r2 = rep.rule('r2', 'GRAMMEMES: TAG_NAMES[g] and TAG_MAP are mutually inverse on all grammemes; names have GRAMMEM_LENGTH bytes', 30)
    gram = {e['name']: e['val'] for e in db.enum(L + 'Grammem')['enumerators']}
    tn = _static_init(db, 'detail::TAG_NAMES')
    names = []
    for n in tn.walk():
        if n['k'] == 'StringLiteral':
            names.append(bytes.fromhex(n.get('hex', '')).decode())
    tm = _static_init(db, 'detail::TAG_MAP')
    pairs = []
    for n in tm.walk():
        if n['k'] in ('CXXConstructExpr', 'InitListExpr', 'CXXTemporaryObjectExpr', 'CXXFunctionalCastExpr'):
            kids = tm.children(n)
            if len(kids) == 2:
                s = [x for x in tm.walk(kids[0]) if x['k'] == 'StringLiteral']
                e = [x for x in tm.walk(kids[1]) if x['k'] == 'DeclRefExpr' and x.get('dk') == 'enumerator']
                if len(s) == 1 and len(e) == 1:
                    pairs.append((bytes.fromhex(s[0]['hex']).decode(), e[0]['val'], e[0]['name']))
    pairs = sorted(set(pairs))
    glen = next((f.strip(f.stmts[f.body]).get('cv') for f in db.functions if f.name.endswith('detail::GRAMMEM_LENGTH::<init>')), None)
    if len(names) < 30 or len(pairs) < 30:
        r2.broken('grammeme tables not recognised (%d names, %d map entries)' % (len(names), len(pairs)))
    else:
        s2g = {s: v for s, v, _ in pairs}
        for gname, gval in sorted(gram.items(), key=lambda kv: kv[1]):
            inst = 'gram:' + gname
            if gval >= len(names):
                r2.violation(inst, '%s:%d' % (tn.file, tn.line), 'grammeme %s (=%d) has no entry in TAG_NAMES' % (gname, gval))
                continue
            text = names[gval]
            back = s2g.get(text)
            if back != gval:
                other = [n_ for s, v, n_ in pairs if s == text]
                r2.violation(inst, '%s:%d' % (tn.file, tn.line), 'grammeme %s is printed as "%s", which parses back as %s: a written reference does not re-extract to the same form' % (gname, text, other[0] if other else 'invalid'))
            elif glen is not None and len(text.encode()) != glen:
                r2.violation(inst, '%s:%d' % (tn.file, tn.line), 'name "%s" does not have GRAMMEM_LENGTH=%d bytes, Str2Grammem rejects it' % (text, glen))
            else:
                r2.ok(inst, '"%s"' % text)

    # ------------------------------------------------------------------ r3
    r3 = rep.rule('r3', 'SCAN: NextReference yields [pos of @, pos after }) and ExtractAll resumes exactly at the end of the previous reference', 2)
    nr = next((f for f in db.functions if f.name.endswith('::NextReference')), None)
    ea = db.fn(L + 'Reference::ExtractAll')
    if nr is None:
        r3.broken('NextReference not found')
    else:
        K = Keyer(nr, resolve_refs=False)
        ctor = [n for n in nr.walk() if n['k'] in ('CXXTemporaryObjectExpr', 'CXXConstructExpr', 'CXXFunctionalCastExpr') and 'StrRange' in (n.get('t') or '') and len(n.get('args', n.get('c', []))) == 2]
        ok = False
        if ctor:
            a = [K.key(nr.stmts[x]) for x in ctor[0].get('args', ctor[0].get('c'))]
            ok = (isinstance(a[0], tuple) and a[0][0] == 'Bop' and a[0][1] == '-' and 'refStart' in repr(a[0]) and a[0][-1] == ('int', 1)
                  and isinstance(a[1], tuple) and a[1][0] == 'Bop' and a[1][1] == '+' and 'refEnd' in repr(a[1]) and a[1][-1] == ('int', 1))
        if ok:
            r3.ok('NextReference', 'StrRange{refStart.Position() - 1, refEnd.Position() + 1}', '%s:%d' % (nr.file, nr.line))
        else:
            r3.violation('NextReference', '%s:%d' % (nr.file, nr.line), 'the reported range is not [position of "@", position after the closing "}")')
    loops = [n for n in ea.walk() if n['k'] == 'ForStmt']
    ok = False
    if len(loops) == 1 and 'inc' in loops[0]:
        K = Keyer(ea, resolve_refs=False)
        incs = [n for n in ea.calls(ea.stmts[loops[0]['inc']]) if (n.get('cs') or '').endswith('NextReference')]
        if len(incs) == 1 and len(incs[0]['args']) == 2:
            k = K.key(ea.stmts[incs[0]['args'][1]])
            ok = isinstance(k, tuple) and k[0] == '.' and k[1] == 'finish' and 'position' in repr(k)
    if ok:
        r3.ok('ExtractAll', 'resumes at position->finish', '%s:%d' % (ea.file, ea.line))
    else:
        r3.ok('ExtractAll', 'form not recognised (not `for (p = Next(text); p; p = Next(text, p->finish))`): decided on texts by r9', '%s:%d' % (ea.file, ea.line), nontrivial=False)

    # ------------------------------------------------------------------ r4
    r4 = rep.rule('r4', 'RANGES: resolved lengths in code points; new start = old start + accumulated difference; difference += resolved - unresolved; later references shifted by the same amount', 4)
    RM = L + 'RefsManager'
    gr = db.fn(RM + '::GenerateResolved')
    _generate_resolved(gr, r4)
    ins = db.fn(RM + '::Insert')
    Ki = Keyer(ins, resolve_refs=False)
    fl = [n for n in ins.calls() if n.get('cs') == 'ccl::StrRange::FromLength']
    sh = [n for n in ins.calls() if (n.get('cs') or '').endswith('ShiftAllAfter')]
    lenvar = _init_of(ins, 'resultLen')
    ok = len(fl) == 1 and len(sh) == 1 and lenvar is not None and any(c.get('cs') == 'ccl::SizeInCodePoints' for c in ins.calls(lenvar)) \
        and Ki.key(ins.stmts[fl[0]['args'][0]]) == ('var', ins.rec['params'][1]['name']) and Ki.key(ins.stmts[fl[0]['args'][1]]) == ('var', 'resultLen') \
        and Ki.key(ins.stmts[sh[0]['args'][2]]) == ('var', 'resultLen')
    if ok:
        r4.ok('Insert', 'new range = FromLength(insWhere, code-point length); later references shifted by that length', '%s:%d' % (ins.file, ins.line))
    else:
        r4.violation('Insert', '%s:%d' % (ins.file, ins.line), 'the inserted reference is not placed at FromLength(insWhere, SizeInCodePoints(resolved)) with all later references shifted by the same length')
    er = db.fn(RM + '::EraseIn')
    Ke = Keyer(er, resolve_refs=False)
    sh = [n for n in er.calls() if (n.get('cs') or '').endswith('ShiftAllAfter')]
    ok = len(sh) == 1 and Ke.key(er.stmts[sh[0]['args'][2]]) == ('Uop', '-', False, ('mcall', 'length', ('var', er.rec['params'][0]['name'])))
    if ok:
        r4.ok('EraseIn', 'later references shifted by -range.length()', '%s:%d' % (er.file, er.line))
    else:
        r4.violation('EraseIn', '%s:%d' % (er.file, er.line), 'references after an erased range are not shifted by exactly -range.length()')
    sa = next((f for f in db.functions if f.name.endswith('::ShiftAllAfter')), None)
    if sa is not None:
        lp = [n for n in sa.walk() if n['k'] == 'ForStmt']
        Ks = Keyer(sa, resolve_refs=False)
        ok = len(lp) == 1 and 'init' in lp[0] and 'next' in sa.stmts[lp[0]['init']].get('txt', '') and any((c.get('cs') or '').endswith('StrRange::Shift') for c in sa.calls())
        if ok:
            r4.ok('ShiftAllAfter', 'shifts every reference after the given one', '%s:%d' % (sa.file, sa.line))
        else:
            r4.violation('ShiftAllAfter', '%s:%d' % (sa.file, sa.line), 'does not shift every reference strictly after the given one')
    else:
        r4.broken('ShiftAllAfter not found')

    # ------------------------------------------------------------------ r5
    r5 = rep.rule('r5', 'REFERALS: exactly the entity references are collected', 1)
    rf = db.fn(L + 'ManagedText::Referals')
    emp = call_sites(rf, lambda n: (n.get('cs') or '').split('::')[-1] in ('emplace', 'insert'))
    ok = bool(emp)
    for p, n in emp:
        conds = [(c.get('txt', ''), pol) for c, pol in dominating_guards(rf, p)]
        if not any('IsEntity' in c and pol for c, pol in conds) or not any((x.get('cs') or '').endswith('GetEntity') for x in rf.calls(n)):
            ok = False
    src_ok = any((c.get('cs') or '').endswith('Reference::ExtractAll') for c in rf.calls())
    if ok and src_ok:
        r5.ok('Referals', 'GetEntity() of every reference with IsEntity()', '%s:%d' % (rf.file, rf.line))
    else:
        r5.violation('Referals', '%s:%d' % (rf.file, rf.line), 'mentioned entities are not exactly the entity references of the raw text')

    # ------------------------------------------------------------------ r6
    r6 = rep.rule('r6', 'NO-FAULT: throwing operations of the reference parser are guarded (noexcept + at() on a possibly empty token; stoi on an unbounded digit string)', 3)
    _no_fault(db, r6)
    _scan_evaluated(db, rep)
    _offset_faithful(db, rep)
    _stored_valid(db, rep)
    _legacy_fields(db, rep)
    _nested_found(db, rep)
    _raw_cache_coupled(db, rep)
    _morphology_total(db, rep)
    r18 = rep.rule('r18', 'TEXT-SLICES (shared with C20 r5): the text between and around the references is copied by ccl::Substr, which - interpreted on every text of up to three code points of one to four bytes and every range - returns exactly the code points of the range: a slice is never cut inside a multi-byte character', 1)
    from rules import C20
    C20.substr_evaluated(db, r18, rep.tier == 'thorough')
    r17 = rep.rule('r17', 'ERASE-ALIGNED: RefsManager::EraseIn, interpreted on every layout of up to three references and every erased range, refuses without changing anything or removes exactly the references inside the erased text and moves those behind it left by its length - no reference outside the erased text is lost, none is cut', 1)
    erase_evaluated(db, r17, rep.tier == 'thorough')
    _write_back_and_resolve(db, rep)


def _init_of(f, name):
    for s in f.rec['stmts']:
        if s['k'] == 'DeclStmt':
            for d in s.get('decls', []):
                if d['name'] == name and 'init' in d:
                    return f.stmts[d['init']]
    return None


def _generate_resolved(gr, r4):
    K = Keyer(gr, resolve_refs=False)
    where = '%s:%d' % (gr.file, gr.line)
    rl = _init_of(gr, 'resolvedLength')
    ul = _init_of(gr, 'unresolvedLength')
    problems = []
    if rl is None or not any(c.get('cs') == 'ccl::SizeInCodePoints' for c in gr.calls(rl)):
        problems.append('the length of the resolved text is not measured with SizeInCodePoints (`%s`): with non-ASCII resolutions the recorded range is too long and every later range is shifted' % (rl.get('txt', '')[:50] if rl else '?'))
    if ul is None or 'length' not in repr(K.key(ul)) or 'position' not in repr(K.key(ul)):
        problems.append('the unresolved length is not the length of the reference range')
    fl = [n for n in gr.calls() if n.get('cs') == 'ccl::StrRange::FromLength']
    if len(fl) != 1:
        problems.append('the new range is not built with StrRange::FromLength')
    else:
        a0, a1 = K.key(gr.stmts[fl[0]['args'][0]]), K.key(gr.stmts[fl[0]['args'][1]])
        if not (isinstance(a0, tuple) and a0[0] == 'Bop' and a0[1] == '+' and 'start' in repr(a0) and ('var', 'difLen') in a0):
            problems.append('the new start is not old start + difLen')
        if a1 != ('var', 'resolvedLength'):
            problems.append('the new length is not the resolved length')
    acc = [n for n in gr.walk() if n['k'] == 'CompoundAssignOperator' and n.get('op') == '+=' and K.key(gr.children(n)[0]) == ('var', 'difLen')]
    if len(acc) != 1 or K.key(gr.children(acc[0])[1]) != ('Bop', '-', False, ('var', 'resolvedLength'), ('var', 'unresolvedLength')):
        problems.append('difLen does not accumulate resolvedLength - unresolvedLength exactly once per reference')
    elif fl:
        # the accumulation must come after the range was rebuilt with the old difference
        if gr.position_of(acc[0]) in gr.reach(gr.graph()[1], blocked=[gr.position_of(fl[0])]) and False:
            problems.append('order')
        if ul is not None and fl:
            # unresolved length must be read before the position is overwritten
            ulpos = gr.position_of(ul)
            flpos = gr.position_of(fl[0])
            if ulpos is not None and flpos is not None and ulpos in gr.reach(flpos) and flpos not in gr.reach(ulpos):
                problems.append('the unresolved length is read after the range was overwritten')
    if problems:
        r4.violation('GenerateResolved', where, '; '.join(problems))
    else:
        r4.ok('GenerateResolved', 'FromLength(start + difLen, SizeInCodePoints(resolved)); difLen += resolved - unresolved', where)


def _no_fault(db, r6):
    em = next((f for f in db.functions if f.name.endswith('::ExtractMorpho')), None)
    if em is None:
        r6.broken('ExtractMorpho not found')
    else:
        ats = [n for n in em.calls() if (n.get('cs') or '').endswith('basic_string_view::at')]
        bad = None
        for n in ats:
            obj = em.stmts[n['obj']]
            if 'rbegin' in obj.get('txt', '') or 'back' in obj.get('txt', ''):
                conds = [c.get('txt', '') for c, pol in dominating_guards(em, em.position_of(n))]
                if not any(('rbegin' in c or 'back' in c) and ('empty' in c or 'size' in c or 'length' in c) for c in conds):
                    bad = n
        if bad is not None and em.rec.get('noexcept'):
            r6.violation('ExtractMorpho:last-tag', em.loc(bad), '`%s` reads the first character of the last field without checking that it is not empty, inside a noexcept function: "@{X1|nomn|}" terminates the process' % bad.get('txt', '')[:50])
        else:
            r6.ok('ExtractMorpho:last-tag', 'first character of the last field read only when it exists', '%s:%d' % (em.file, em.line))
    ps = db.fn(L + 'Reference::Parse')
    st = [n for n in ps.calls() if n.get('cs') in ('std::stoi', 'std::stol')]
    if not st:
        r6.ok('Parse:offset', 'no unbounded stoi', '%s:%d' % (ps.file, ps.line))
    else:
        n = st[0]
        in_try = any(a['k'] == 'CXXTryStmt' for a in ps.ancestors(n))
        dr = next((f for f in db.functions if f.name.endswith('::DeduceRefType')), None)
        bounded = dr is not None and any(x['k'] == 'BinaryOperator' and x.get('op') in ('<', '<=', '>', '>=') and ('size' in x.get('txt', '') or 'length' in x.get('txt', '')) and 'firstToken' in x.get('txt', '') for x in dr.walk())
        if in_try or bounded:
            r6.ok('Parse:offset', 'offset conversion is bounded / guarded', ps.loc(n))
        else:
            r6.violation('Parse:offset', ps.loc(n), 'the collaboration offset is converted with stoi on a digit string of unbounded length: "@{99999999999999999999|t}" throws std::out_of_range out of Reference::Parse / ExtractAll')
    dt = next((f for f in db.functions if f.name.endswith('::DeduceRefType')), None)
    if dt is not None:
        ats = [n for n in dt.calls() if (n.get('cs') or '').endswith('::at')]
        ok = True
        for n in ats:
            conds = ' '.join(c.get('txt', '') + ('!' if not pol else '') for c, pol in dominating_guards(dt, dt.position_of(n)))
            if 'size(tokens)' not in conds.replace('std::', '') and 'empty(firstToken)' not in conds.replace('std::', ''):
                ok = False
        if ok:
            r6.ok('DeduceRefType', 'token and character accesses are dominated by size/empty tests', '%s:%d' % (dt.file, dt.line))
        else:
            r6.violation('DeduceRefType', '%s:%d' % (dt.file, dt.line), 'a token or its first character is accessed without a dominating size/empty test inside a noexcept function')


def _write_back_and_resolve(db, rep):
    """r7/r8: RefsManager::OutputRefs and ResolveAll evaluated from their AST over all small reference lists against necessary conditions of
    'writing references back restores the original text' and 'resolving replaces each reference by its resolution'."""
    import itertools
    RM = 'ccl::lang::RefsManager'
    r7 = rep.rule('r7', 'WRITE-BACK: for every sub-range and every sorted list of up to two references in a window, each reference lying entirely inside the sub-range is written back as a reference, references outside are not, text pieces stay inside the sub-range and off the references written', 1)
    c = [g for g in db.methods_of(RM) if g.name.endswith('::OutputRefs') and len(g.rec['params']) == 2 and g.has_cfg()]
    if len(c) != 1:
        r7.broken('anchor vanished: RefsManager::OutputRefs(normStr, subRange)')
    else:
        f = c[0]
        W = range(0, 9) if rep.tier == 'thorough' else range(0, 7)
        bad = None
        cases = 0
        try:
            spans = [(a, b) for a in W for b in W if a < b]
            lists = [[]] + [[s] for s in spans] + [[s1, s2] for s1 in spans for s2 in spans if s1[1] <= s2[0]]
            if rep.tier == 'thorough':
                small = [(a, b) for a in range(0, 6) for b in range(a + 1, 7) if b - a <= 2]
                lists += [[s1, s2, s3] for s1 in small for s2 in small for s3 in small if s1[1] <= s2[0] and s2[1] <= s3[0]]
            for refs in lists:
                for sub in [(a, b) for a in W for b in W if a <= b]:
                    cases += 1
                    this = Obj(refs=[Obj(position=Obj(start=a, finish=b), idx=i) for i, (a, b) in enumerate(refs)])
                    pieces = []

                    def on_call(it, fn, n, env, pieces=pieces):
                        cs = n.get('cs') or ''
                        if cs == 'ccl::lang::Reference::ToString':
                            o = it.eval(fn, fn.stmts[n['obj']], env)
                            pieces.append(('ref', o['idx']))
                            return b'R'
                        if cs == 'ccl::Substr':
                            r = it.eval(fn, fn.stmts[n['args'][1]], env)
                            pieces.append(('text', r['start'], r['finish']))
                            return b't'
                        return NOT_HANDLED
                    Interp(db, on_call=on_call).call(f, [b'text', Obj(start=sub[0], finish=sub[1])], this)
                    written = [p[1] for p in pieces if p[0] == 'ref']
                    inside = [i for i, (a, b) in enumerate(refs) if sub[0] <= a and b <= sub[1]]
                    outside = [i for i, (a, b) in enumerate(refs) if b <= sub[0] or a >= sub[1]]
                    why = None
                    if [i for i in inside if i not in written] or written != sorted(set(written)):
                        why = 'reference(s) %s lie inside the sub-range but are not written back (written: %s)' % ([refs[i] for i in inside if i not in written], written)
                    elif [i for i in written if i in outside]:
                        why = 'reference %s does not touch the sub-range but is written' % [refs[i] for i in written if i in outside]
                    else:
                        for p in pieces:
                            if p[0] == 'text':
                                if not (sub[0] <= p[1] <= p[2] <= sub[1]):
                                    why = 'text piece [%d,%d) leaves the sub-range' % (p[1], p[2])
                                for i in written:
                                    a, b = refs[i]
                                    if p[1] < b and a < p[2]:
                                        why = 'text piece [%d,%d) overlaps the reference %s that is written back as a reference' % (p[1], p[2], refs[i])
                    if why and bad is None:
                        bad = 'references at %s, sub-range [%d,%d): %s' % (refs, sub[0], sub[1], why)
        except OutOfFragment as e:
            r7.broken('OutputRefs outside the evaluable fragment: %s' % e)
            bad = 'broken'
        if bad == 'broken':
            pass
        elif bad:
            r7.violation('OutputRefs', '%s:%d' % (f.file, f.line), bad)
        else:
            r7.ok('OutputRefs', 'holds on %d (reference list, sub-range) cases' % cases, '%s:%d' % (f.file, f.line))

    r8 = rep.rule('r8', 'RESOLVE-ALL: every stored reference is resolved exactly once, entities before any collaboration (whose master must already be resolved)', 1)
    g = db.fn(RM + '::ResolveAll', required=False)
    if g is None:
        r8.broken('anchor vanished: RefsManager::ResolveAll')
        return
    bad = None
    cases = 0
    try:
        kinds = [('E', 0), ('C', -1), ('C', 0), ('C', 1), ('C', 2)]
        for n_refs in ((0, 1, 2, 3, 4) if rep.tier == 'thorough' else (0, 1, 2, 3)):
            for combo in itertools.product(kinds, repeat=n_refs):
                cases += 1
                log = []
                this = Obj(refs=[Obj(kind=k, offset=o, idx=i, resolvedText=bytearray()) for i, (k, o) in enumerate(combo)], context=Obj())

                def on_call(it, fn, n, env, log=log):
                    cs = n.get('cs') or ''
                    last = cs.split('::')[-1]
                    if cs.startswith('ccl::lang::Reference::') and 'obj' in n:
                        o = it.eval(fn, fn.stmts[n['obj']], env)
                        if isinstance(o, tuple) and len(o) == 2 and o[0] == 'ptr':
                            o = o[1]
                        if last == 'IsEntity':
                            return o['kind'] == 'E'
                        if last == 'IsCollaboration':
                            return o['kind'] == 'C'
                        if last == 'GetEntity':
                            if o['kind'] != 'E':
                                raise OutOfFragment('GetEntity on a collaboration reference (bad_variant_access)')
                            return b'X1'                  # every entity reference of the scenario mentions the same entity (in whatever form)
                        if last == 'GetOffset':
                            if o['kind'] != 'C':
                                raise OutOfFragment('GetOffset on an entity reference (bad_variant_access)')
                            return o['offset']
                        if last in ('ResolveEntity', 'ResolveCollaboration'):
                            if (last == 'ResolveEntity') != (o['kind'] == 'E'):
                                raise OutOfFragment('%s on the wrong kind of reference (bad_variant_access)' % last)
                            log.append((last, o['idx']))
                            return None
                    if last == 'FindMaster':
                        return None
                    return NOT_HANDLED
                Interp(db, on_call=on_call).call(g, [], this)
                want = sorted(('ResolveEntity' if k == 'E' else 'ResolveCollaboration', i) for i, (k, o) in enumerate(combo))
                why = None
                if sorted(log) != want:
                    missing = [x for x in want if x not in log]
                    twice = [x for x in set(log) if log.count(x) > 1]
                    why = 'not resolved: %s' % missing if missing else 'resolved more than once: %s' % twice
                else:
                    first_c = min([j for j, x in enumerate(log) if x[0] == 'ResolveCollaboration'], default=None)
                    last_e = max([j for j, x in enumerate(log) if x[0] == 'ResolveEntity'], default=None)
                    if first_c is not None and last_e is not None and first_c < last_e:
                        why = 'a collaboration is resolved before entity #%d, which may be its master' % log[last_e][1]
                if why and bad is None:
                    bad = 'references %s: %s' % (['entity' if k == 'E' else 'collaboration(offset %d)' % o for k, o in combo], why)
    except OutOfFragment as e:
        if 'bad_variant_access' in str(e):
            r8.violation('ResolveAll', '%s:%d' % (g.file, g.line), str(e))
        else:
            r8.broken('ResolveAll outside the evaluable fragment: %s' % e)
        return
    if bad:
        r8.violation('ResolveAll', '%s:%d' % (g.file, g.line), bad)
    else:
        r8.ok('ResolveAll', 'every reference resolved exactly once, entities first, on %d lists of up to 3 references' % cases, '%s:%d' % (g.file, g.line))


# ---------------------------------------------------------------------------------------------- r9: the scan, evaluated
def _scan_evaluated(db, rep):
    """Reference::ExtractAll (ReferenceStart / ReferenceEnd / NextReference, the UTF-8 iterator and Substr, all interpreted from their source)
    on every text assembled from a few pieces - valid references, '@', '@{' without an end, braces, one- and two-byte letters - against the
    definition: exactly the well-formed @{...} occurrences, left to right, as code-point ranges. Only the verdict whether the text between
    '@{' and its matching '}' is a well-formed reference is supplied (decided by r1/r6 for the parser itself)."""
    import itertools
    r9 = rep.rule('r9', 'SCAN-EVALUATED: ExtractAll finds exactly the well-formed @{...} occurrences, in order, with their code-point ranges, whatever precedes them (a run of @, an unterminated @{, multi-byte text)', 1)
    ea = db.fn(L + 'Reference::ExtractAll', required=False)
    if ea is None:
        r9.broken('anchor vanished: Reference::ExtractAll')
        return
    VALID = ('@{X1|nomn}', '@{-1|basic}')
    thorough = rep.tier == 'thorough'
    pieces = list(VALID) + ['@', '@{', 'a', 'я', '}', ' ', '@{oops}'] + (['{', '@{}', 'ℬ'] if thorough else [])

    def oracle(text):
        """list of (start, finish): leftmost-outermost well-formed occurrences; an ill-formed marker (closed or not) is plain text and hides nothing"""
        out, i = [], 0
        while i < len(text):
            if text[i] == '@' and i + 1 < len(text) and text[i + 1] == '{':
                depth, end = 0, None
                for j in range(i + 1, len(text)):
                    if text[j] == '{':
                        depth += 1
                    elif text[j] == '}':
                        depth -= 1
                    if depth == 0:
                        end = j
                        break
                if end is not None:
                    body = text[i:end + 1]
                    if body in VALID:
                        out.append((i, end + 1))
                        i = end + 1
                        continue
                    i += 2                            # an ill-formed balanced marker is plain text: the occurrences inside it still count
                    continue
            i += 1
        return out

    def on_call(it, fn, n, env):
        cs = n.get('cs') or ''
        if cs == L + 'Reference::Parse' and n.get('args'):
            s_ = it.eval(fn, fn.stmts[n['args'][0]], env)
            body = bytes(s_).decode('utf-8', 'replace')
            return Obj(__cls__=L + 'Reference', type=1 if body in VALID else 0, position=Obj(start=0, finish=0), body=body)
        if cs == L + 'Reference::IsValid' and 'obj' in n:
            o = it.eval(fn, fn.stmts[n['obj']], env)
            return bool(o['type'])
        if cs == '__assert_fail':
            return None
        return NOT_HANDLED
    bad, cases, skipped = None, 0, 0
    try:
        for k in range(0, 5 if thorough else 4):
            for combo in itertools.product(pieces, repeat=k):
                if k >= 3 and not any(p in VALID for p in combo):
                    continue
                text = ''.join(combo)
                want = oracle(text)
                if want is None:
                    skipped += 1
                    continue
                cases += 1
                got = Interp(db, on_call=on_call, max_steps=400000).call(ea, [text.encode('utf-8')])
                got_r = [(r['position']['start'], r['position']['finish']) for r in (got or [])]
                if got_r != want and bad is None:
                    bad = 'ExtractAll(%r) finds %s; the well-formed references are at %s' % (text, got_r, want)
                    if not thorough:
                        break
            if bad and not thorough:
                break
    except OutOfFragment as e:
        r9.broken('ExtractAll outside the evaluable fragment: %s' % e)
        return
    rep.note('r9_texts', cases)
    rep.note('r9_texts_left_open_by_the_definition', skipped)
    if bad:
        r9.violation('ExtractAll', '%s:%d' % (ea.file, ea.line), bad)
    else:
        r9.ok('ExtractAll', '%d texts of up to %d pieces: found = well-formed occurrences' % (cases, 4 if thorough else 3), '%s:%d' % (ea.file, ea.line))


def _offset_faithful(db, rep):
    """r10: Reference::Parse interpreted on collaboration references whose offset is written with up to seven characters: the parsed reference
    carries exactly the offset written, or the text is not a reference. A narrowing conversion that wraps (65537 -> 1) makes a reference point at
    a different master and be written back differently."""
    r10 = rep.rule('r10', 'OFFSET-FAITHFUL: a collaboration reference is parsed with exactly the offset written, or refused; never with a wrapped one', 1)
    f = db.fn(L + 'Reference::Parse', required=False)
    if f is None:
        r10.broken('anchor vanished: Reference::Parse')
        return

    def on_call(it, fn, n, env):
        cs = n.get('cs') or ''
        if cs in ('std::stoi', 'std::stol', 'std::stoll') and n.get('args'):
            s_ = bytes(it.eval(fn, fn.stmts[n['args'][0]], env)).decode('ascii', 'replace')
            try:
                v = int(s_)
            except ValueError:
                raise OutOfFragment('%s("%s") throws std::invalid_argument' % (cs, s_))
            lim = 2 ** 31 if cs == 'std::stoi' else 2 ** 63
            if not (-lim <= v < lim):
                raise OutOfFragment('%s("%s") throws std::out_of_range' % (cs, s_))
            return v
        if cs in ('isalpha', 'std::isalpha') and n.get('args'):
            c = it.eval(fn, fn.stmts[n['args'][0]], env)
            return int(65 <= c <= 90 or 97 <= c <= 122)
        if cs in ('isdigit', 'std::isdigit') and n.get('args'):
            c = it.eval(fn, fn.stmts[n['args'][0]], env)
            return int(48 <= c <= 57)
        if cs in ('isspace', 'std::isspace') and n.get('args'):
            c = it.eval(fn, fn.stmts[n['args'][0]], env)
            return int(c in (32, 9, 10, 11, 12, 13))
        if cs == '__assert_fail':
            return None
        return NOT_HANDLED
    offsets = [0, 1, -1, 7, 12, -12, 32767, -32768, 32768, -32769, 40000, 65535, 65536, 65537, -65537, 99999, -99999, 100000, 999999, 1000000]
    bad = None
    try:
        for off in offsets:
            text = '@{%d|basic}' % off
            r = Interp(db, on_call=on_call).call(f, [text.encode()])
            valid = isinstance(r, Obj) and r.get('type') not in (0, None) and isinstance(r.get('data'), Obj)
            if valid:
                got = r['data'].get('offset')
                if got != off and bad is None:
                    bad = 'Parse("%s") is a collaboration reference with offset %s: the offset written is %d' % (text, got, off)
            elif -2 ** 15 <= off < 2 ** 15 and bad is None:
                bad = 'Parse("%s") is refused although the offset fits' % text
    except OutOfFragment as e:
        if 'throws' in str(e):
            bad = 'Parse faults: %s' % e
        else:
            r10.broken('Reference::Parse outside the evaluable fragment: %s' % e)
            return
    if bad:
        r10.violation('Parse:offset', '%s:%d' % (f.file, f.line), bad)
    else:
        r10.ok('Parse:offset', '%d offsets between -99999 and 1000000: carried exactly or refused' % len(offsets), '%s:%d' % (f.file, f.line))


def _stored_valid(db, rep):
    """r11: the references a RefsManager stores are valid ones. ResolveIt / OutputRefs / FindMaster read the variant of a stored reference
    with std::get after testing only IsEntity(): a stored reference of the invalid kind makes std::get throw. Every writer of `refs` must
    therefore store only references that passed IsValid() (ExtractAll filters; a caller-supplied reference must be tested)."""
    from engine.cfgq import normalise_cond
    r11 = rep.rule('r11', 'STORED-VALID: every reference placed into RefsManager::refs passed IsValid() (taken from ExtractAll, or a caller-supplied one tested before it is stored)', 2)
    RMc = L + 'RefsManager'
    ea = db.fn(L + 'Reference::ExtractAll', required=False)
    if ea is None:
        r11.broken('anchor vanished: Reference::ExtractAll')
        return
    # ExtractAll keeps only valid references
    stores = [n for n in ea.calls() if (n.get('cs') or '').endswith(('::emplace_back', '::push_back'))]
    ok = bool(stores)
    for n in stores:
        pos = ea.position_of(n)
        g = [normalise_cond(ea, c, pol) for c, pol in (dominating_guards(ea, pos) if pos is not None else [])]
        if not any(pol and 'IsValid' in (c.get('txt') or '') for c, pol in g if c is not None):
            ok = False
    if ok:
        r11.ok('ExtractAll', 'stores a parsed reference only under IsValid()', '%s:%d' % (ea.file, ea.line))
    else:
        r11.violation('ExtractAll', '%s:%d' % (ea.file, ea.line), 'ExtractAll can return a reference of the invalid kind')
    n_w = 0
    for f in db.methods_of(RMc):
        for n in f.calls():
            cs = n.get('cs') or ''
            last = cs.split('::')[-1]
            if not cs.startswith('std::vector::') or last not in ('emplace', 'insert', 'emplace_back', 'push_back') or 'obj' not in n:
                continue
            o = f.strip(f.stmts[n['obj']])
            if o is None or o.get('member') != 'refs':
                continue
            n_w += 1
            val = f.strip(f.stmts[n['args'][-1]])
            srcs = [x for x in f.walk(val) if x['k'] == 'DeclRefExpr' and x.get('dk') in ('param', 'local')]
            inst = '%s:%s' % (f.name.split('::')[-1], last)
            pos = f.position_of(n)
            g = [normalise_cond(f, c, pol) for c, pol in (dominating_guards(f, pos) if pos is not None else [])]
            names = {x.get('name') for x in srcs}
            tested = any(pol and c is not None and 'IsValid' in (c.get('txt') or '') and any(nm and nm in (c.get('txt') or '') for nm in names) for c, pol in g)
            if tested:
                r11.ok(inst, 'the stored reference was tested with IsValid()', f.loc(n))
            else:
                r11.violation(inst, f.loc(n), '`%s` stores a caller-supplied reference without testing IsValid(): an invalid one reaches std::get<CollaborationRef> in ResolveIt (std::bad_variant_access) after the list was already changed' % (n.get('txt') or '')[:60])
    for f in db.methods_of(RMc):
        for n in f.walk():
            if n['k'] in ('CXXOperatorCallExpr', 'BinaryOperator') and n.get('op') == '=':
                kids = [f.stmts[a] for a in n['args']] if n['k'] == 'CXXOperatorCallExpr' else f.children(n)
                l = f.strip(kids[0])
                if l is not None and l.get('member') == 'refs' and l['k'] == 'MemberExpr':
                    n_w += 1
                    inst = '%s:assign' % f.name.split('::')[-1]
                    if any(c.get('cs') == L + 'Reference::ExtractAll' for c in f.calls(kids[1])) or not list(f.calls(kids[1])):
                        r11.ok(inst, 'assigned from ExtractAll / copied from another manager', f.loc(n), nontrivial=False)
                    else:
                        r11.violation(inst, f.loc(n), 'refs assigned from `%s`, which is not known to hold only valid references' % (f.stmts[n['args'][1]].get('txt', '') if n['k'] == 'CXXOperatorCallExpr' else '')[:60])
    rep.note('r11_writers_of_refs', n_w)


def _legacy_fields(db, rep):
    """r12: the legacy spelling @{X1|tag|tag|index}. ExtractMorpho (interpreted) on every field list over a few grammeme names - among them the
    names that begin with a digit - and index numbers: the tags handed to Morphology are the written fields, except a last field that is a
    number (the legacy index). A grammeme is never taken for the index, so `@{X1|sing|3per}` and `@{X1|sing,3per}` read the same."""
    import itertools
    r12 = rep.rule('r12', 'LEGACY-FIELDS: in the legacy spelling only a numeric last field is dropped as the index; every grammeme written is read (names beginning with a digit included)', 1)
    em = next((f for f in db.functions if f.name.endswith('::ExtractMorpho') and f.body >= 0), None)
    if em is None:
        r12.broken('anchor vanished: ExtractMorpho')
        return
    try:
        tn = _static_init(db, 'detail::TAG_NAMES')
    except AnalysisBroken as e:
        r12.broken(str(e))
        return
    names = [bytes.fromhex(n.get('hex', '')).decode() for n in tn.walk() if n['k'] == 'StringLiteral']
    digit_names = sorted(x for x in names if x[:1].isdigit())
    plain = [x for x in names if x[:1].isalpha()][:2]
    if not digit_names or len(plain) < 2:
        r12.broken('grammeme names not recognised (%d names, %d beginning with a digit)' % (len(names), len(digit_names)))
        return
    fields = plain + digit_names[:3] + ['0', '3', '12']

    def on_call(it, fn, n, env):
        cs = n.get('cs') or ''
        if n['k'] in ('CXXConstructExpr', 'CXXTemporaryObjectExpr') and (n.get('cls') or '') == L + 'Morphology' and len(n.get('args', [])) == 1:
            a = it.eval(fn, fn.stmts[n['args'][0]], env)
            return Obj(__cls__=L + 'Morphology', arg=a)
        if cs == '__assert_fail':
            return None
        return NOT_HANDLED
    bad, cases = None, 0
    try:
        for k in (2, 3):
            for combo in itertools.product(fields, repeat=k):
                if any(x.isdigit() for x in combo[:-1]):
                    continue                         # a number before the last field is not a spelling the legacy format produced
                cases += 1
                r = Interp(db, on_call=on_call).call(em, [[b'X1'] + [x.encode() for x in combo]])
                got = r.get('arg') if isinstance(r, Obj) else None
                got = [bytes(x).decode() for x in got] if isinstance(got, list) else got
                want = list(combo[:-1]) if combo[-1].isdigit() else list(combo)
                if got != want and bad is None:
                    bad = '@{X1|%s} is read with the tags %s; the fields written are %s%s' % ('|'.join(combo), got, want, '' if not combo[-1].isdigit() else ' and the index %s' % combo[-1])
    except OutOfFragment as e:
        r12.broken('ExtractMorpho outside the evaluable fragment: %s' % e)
        return
    if bad:
        r12.violation('ExtractMorpho', '%s:%d' % (em.file, em.line), bad)
    else:
        r12.ok('ExtractMorpho', '%d legacy field lists over %s' % (cases, fields), '%s:%d' % (em.file, em.line))


def _morph_hooks(LL, known=('sing', 'plur', 'nomn', 'gent', '3per')):
    """Morphology as a set of grammemes printed in a canonical order: what C17 r2 decides about the tables; unknown tags are dropped"""
    def canon(arg):
        toks = [bytes(x).decode('utf-8', 'replace') for x in arg] if isinstance(arg, list) else [t.strip() for t in bytes(arg).decode('utf-8', 'replace').split(',')]
        return [k for k in known if k in toks]

    def on_call(it, fn, n, env):
        cs = n.get('cs') or ''
        if n['k'] in ('CXXConstructExpr', 'CXXTemporaryObjectExpr') and (n.get('cls') or '') == LL + 'Morphology' and len(n.get('args', [])) == 1 and not n.get('copyctor') and not n.get('movector'):
            return Obj(__cls__=LL + 'Morphology', tags=canon(it.eval(fn, fn.stmts[n['args'][0]], env)))
        if cs == LL + 'Morphology::ToString' and 'obj' in n:
            return bytearray(','.join(it.eval(fn, fn.stmts[n['obj']], env)['tags']).encode())
        if cs == LL + 'Morphology::empty' and 'obj' in n:
            return len(it.eval(fn, fn.stmts[n['obj']], env)['tags']) == 0
        if cs == 'std::empty' and n.get('args'):
            o = it.eval(fn, fn.stmts[n['args'][0]], env)
            if isinstance(o, Obj) and o.get('__cls__') == LL + 'Morphology':
                return len(o['tags']) == 0
        if cs == 'std::stoi' and n.get('args'):
            t_ = bytes(it.eval(fn, fn.stmts[n['args'][0]], env)).decode('ascii', 'replace')
            try:
                return int(t_)
            except ValueError:
                raise OutOfFragment('std::stoi("%s") throws std::invalid_argument' % t_)
        if cs == '__assert_fail':
            return None
        return NOT_HANDLED
    return on_call


def _nested_found(db, rep):
    """r13: Reference::ExtractAll with the real Reference::Parse (only Morphology abstract) on texts where a word-and-brace wrapper encloses a
    well-formed reference: the wrapper is not a reference (no entity is called `note @{X1`), and the reference inside it is found - with its
    range - whatever the number of its grammemes."""
    r13 = rep.rule('r13', 'NESTED-FOUND: a marker that encloses another marker is not a reference, and the well-formed reference inside it is found (real Parse: the first field of a reference is a name, not text with a marker in it)', 1)
    ea = db.fn(L + 'Reference::ExtractAll', required=False)
    if ea is None:
        r13.broken('anchor vanished: Reference::ExtractAll')
        return
    inners = ['@{X1|nomn,sing}', '@{X1|nomn}', '@{X12|sing|3per}', '@{-1|basic}']
    wrappers = ['see @{note %s more} end', '@{note: %s}', '@{x|%s}', 'Ж @{Я %s} ю', '@{a %s|nomn}', '@{UNKN%s@{1|}|nomn}']
    bad, cases = None, 0
    try:
        for w in wrappers:
            for inner in inners:
                text = w % inner
                cases += 1
                got = Interp(db, on_call=_morph_hooks(L), max_steps=2000000).call(ea, [text.encode('utf-8')])
                got_r = [(r['position']['start'], r['position']['finish']) for r in (got or [])]
                at = text.index(inner)
                want = (at, at + len(inner))
                enclosing = [g for g in got_r if g[0] < want[0] and g[1] > want[1]]
                if (enclosing or want not in got_r) and bad is None:
                    bad = 'ExtractAll("%s") finds %s: %s' % (text, got_r, ('the wrapper [%d,%d) is taken for a reference to an entity whose name contains a marker, so %s is neither resolved, listed nor renamed' % (enclosing[0] + (inner,)))
                                                              if enclosing else 'the reference %s at [%d,%d) is not found' % ((inner,) + want))
    except OutOfFragment as e:
        r13.broken('ExtractAll / Parse outside the evaluable fragment: %s' % e)
        return
    if bad:
        r13.violation('ExtractAll:wrapped', '%s:%d' % (ea.file, ea.line), bad)
    else:
        r13.ok('ExtractAll:wrapped', '%d wrapped references found, no wrapper taken for a reference' % cases, '%s:%d' % (ea.file, ea.line))


def _raw_cache_coupled(db, rep):
    """r14: ManagedText keeps a raw text and the resolution of it. Every method that assigns the raw text writes the cache on every path to its
    exit (clears it or stores the new resolution): a conditional re-resolution (UpdateFrom does nothing while resolving is switched off) is
    not enough - Str() would keep answering with the resolution of the previous text."""
    r14 = rep.rule('r14', 'RAW-CACHE-COUPLED: whoever assigns the raw text of a ManagedText also clears or rewrites its cached resolution on every path', 1)
    MT = L + 'ManagedText'
    ms = [f for f in db.methods_of(MT) if f.has_cfg()]
    if not ms:
        r14.broken('anchor vanished: ManagedText')
        return

    def member(f, n, name):
        n = f.strip(n)
        return n is not None and n['k'] == 'MemberExpr' and n.get('member') == name

    def cache_writes(f):
        out = []
        for c in f.calls():
            if c['k'] == 'CXXOperatorCallExpr' and c.get('op') == '=' and c.get('args') and member(f, f.stmts[c['args'][0]], 'cache'):
                out.append(f.position_of(c))
            if c['k'] == 'CXXMemberCallExpr' and (c.get('cs') or '').split('::')[-1] in ('clear', 'assign') and 'obj' in c and member(f, f.stmts[c['obj']], 'cache'):
                out.append(f.position_of(c))
        return [p for p in out if p is not None]
    memo = {}

    def must_write(g, depth=0):
        if g.name in memo:
            return memo[g.name]
        memo[g.name] = False
        sites = cache_writes(g)
        if depth < 3:
            for c in g.calls():
                for t in db.callees(g, c):
                    if t.cls == MT and t is not g and t.has_cfg() and must_write(t, depth + 1):
                        p_ = g.position_of(c)
                        if p_ is not None:
                            sites.append(p_)
        exits = success_exits(g, failure_literals=())
        r = bool(sites) and not paths_avoiding(g, [g.graph()[1]], sites, exits)
        memo[g.name] = r
        return r
    from engine.cfgq import success_exits
    n_w = 0
    for f in sorted(ms, key=lambda x: x.name):
        raws = [c for c in f.calls() if c['k'] == 'CXXOperatorCallExpr' and c.get('op') == '=' and c.get('args') and member(f, f.stmts[c['args'][0]], 'rawText')]
        if not raws or f.rec.get('ctor') or f.name.split('::')[-1].startswith('operator'):
            continue
        for c in raws:
            n_w += 1
            inst = '%s:rawText' % f.name.split('::')[-1]
            sites = cache_writes(f)
            for c2 in f.calls():
                for t in db.callees(f, c2):
                    if t.cls == MT and t is not f and t.has_cfg() and must_write(t):
                        p_ = f.position_of(c2)
                        if p_ is not None:
                            sites.append(p_)
            pos = f.position_of(c)
            exits = success_exits(f, failure_literals=())
            if pos is not None and paths_avoiding(f, [pos], sites, exits):
                r14.violation(inst, f.loc(c), '`%s` replaces the raw text and a path reaches the exit without writing the cache (the re-resolution that follows is skipped while TextEnvironment::skipResolving is set): '
                              'Raw() is the new text, Str() still answers with the resolution of the old one' % (c.get('txt') or '')[:50])
            else:
                r14.ok(inst, 'followed on every path by a write of the cache', f.loc(c))
    if not n_w:
        r14.broken('no method of ManagedText assigns rawText: the rule has lost its sites')


RM = 'ccl::lang::RefsManager'


def erase_evaluated(db, rule, thorough):
    """r17: RefsManager::EraseIn interpreted (with StrRange and ShiftAllAfter) on every layout of up to three references over a short text and
    every erased range, with and without expansion. Oracle: a refusal changes nothing; an accepted erasure reports a range R that covers the
    request (the request itself unless expanded), no reference is cut by R, and the references left are exactly those before R, unchanged, and
    those after R, moved left by the length of R."""
    from engine.evalmini import Interp, Obj, OutOfFragment
    er = db.fn(RM + '::EraseIn', required=False)
    if er is None:
        rule.broken('anchor vanished: RefsManager::EraseIn')
        return
    L = 8 if thorough else 6
    ivs = [(a, b) for a in range(L) for b in range(a + 1, L + 1)]

    def layouts():
        yield []
        for a in ivs:
            yield [a]
            for b in ivs:
                if b[0] >= a[1]:
                    yield [a, b]
                    for c in ivs:
                        if c[0] >= b[1] and c[1] - c[0] <= 2 and b[1] - b[0] <= 2:
                            yield [a, b, c]
    mk = lambda a, b: Obj(__cls__='ccl::StrRange', start=a, finish=b)
    bad, cases = None, 0
    try:
        for refs in layouts():
            for s_ in range(L):
                for f_ in range(s_ + 1, L + 1):
                    for ex in (False, True):
                        this = Obj(__cls__=RM, refs=[Obj(__cls__='ccl::lang::Reference', position=mk(a, b), resolvedText=bytearray(b'x')) for a, b in refs])
                        got = Interp(db).call(er, [mk(s_, f_), ex], this)
                        after = [(r['position']['start'], r['position']['finish']) for r in this['refs']]
                        cases += 1
                        msg = None
                        if got is None:
                            if after != refs:
                                msg = 'the erasure is refused and the references become %s' % after
                        else:
                            R = (got['start'], got['finish'])
                            ln = R[1] - R[0]
                            cut = [r for r in refs if not (r[1] <= R[0] or r[0] >= R[1] or (R[0] <= r[0] and r[1] <= R[1]))]
                            want = [r for r in refs if r[1] <= R[0]] + [(r[0] - ln, r[1] - ln) for r in refs if r[0] >= R[1]]
                            if not (R[0] <= s_ and R[1] >= f_) or (not ex and R != (s_, f_)):
                                msg = 'the erased range is reported as [%d,%d)' % R
                            elif cut:
                                msg = 'the erasure [%d,%d) is accepted although it cuts the reference at %s' % (R[0], R[1], cut[0])
                            elif after != want:
                                msg = 'after erasing [%d,%d) the references are at %s; those outside the erased text, moved left by %d, are %s' % (R[0], R[1], after, ln, want)
                        if msg and bad is None:
                            bad = 'references at %s, EraseIn([%d,%d), expand=%s): %s' % (refs, s_, f_, str(ex).lower(), msg)
    except OutOfFragment as e:
        if str(e).startswith('call to ') or ' form at ' in str(e):
            rule.broken('RefsManager::EraseIn outside the evaluable fragment: %s' % e)
            return
        bad = bad or 'RefsManager::EraseIn faults: %s' % e
    if bad:
        rule.violation('EraseIn', '%s:%d' % (er.file, er.line), bad)
    else:
        rule.ok('EraseIn', '%d (layout, range, expand) cases over a text of %d code points' % (cases, L), '%s:%d' % (er.file, er.line))


def resolution_idempotent_rule(db, r15):
    """(C10 r11; needs the CCL and cclLang units) Thesaurus::UpdateState and OnTermChange interpreted (with LexicalTerm::UpdateFrom and ManagedText::UpdateFrom from their source) on
    thesauri whose terms mention each other, loops included. Supplied: the order the term graph gives, and the resolver as the function it is
    - the raw text with every mention replaced by what the context answers for it, i.e. the mentioned term's Str(). Required: resolving is a
    function of the raw texts - running the same update again changes nothing. A term on a loop of references (the user typed the own
    alias) must not be resolved from its own previous resolution: that nests one more copy on every update, without bound."""
    import re
    T = 'ccl::semantic::Thesaurus'
    fns = {nm: db.fn(T + '::' + nm, required=False) for nm in ('UpdateState', 'OnTermChange')}
    if any(v is None for v in fns.values()):
        r15.broken('anchor vanished: Thesaurus::UpdateState / OnTermChange')
        return

    def loops_of(raws):
        ment = {u: {int(m) for m in re.findall(r'@\{X(\d+)\}', t) if int(m) in raws} for u, t in raws.items()}
        reach = {u: set(v) for u, v in ment.items()}
        ch = True
        while ch:
            ch = False
            for u in reach:
                new = set(reach[u])
                for v in list(reach[u]):
                    new |= reach[v]
                if new != reach[u]:
                    reach[u] = new
                    ch = True
        comps, seen = [], set()
        for u in sorted(raws):
            if u in seen or u not in reach[u]:
                continue
            comp = {v for v in raws if v in reach[u] and u in reach[v]} | {u}
            seen |= comp
            comps.append(sorted(comp))
        return comps

    def build(raws):
        return {u: Obj(__cls__='ccl::semantic::TextConcept', uid=u, alias=('X%d' % u).encode(),
                       term=Obj(__cls__=L + 'LexicalTerm', text=Obj(__cls__=L + 'ManagedText', rawText=bytearray(t.encode()), cache=bytearray()), manualForms={}, cachedForms={}),
                       definition=Obj(__cls__=L + 'ManagedText', rawText=bytearray(), cache=bytearray())) for u, t in raws.items()}

    def run(name, raws, order, times):
        storage = build(raws)

        def str_of(u):
            t = storage[u]['term']['text']
            return bytes(t['cache']) if len(t['cache']) else bytes(t['rawText'])

        def on_call(it, fn, n, env):
            cs = n.get('cs') or ''
            last = cs.split('::')[-1]
            if last in ('TermGraph', 'DefGraph') and cs.startswith(T):
                return Obj(__kind__='graph', which=last)
            if last in ('TopologicalOrder', 'Sort') and 'CGraph' in cs:
                return list(order)
            if last == 'GetAllLoopsItems' and 'CGraph' in cs:
                return [set(c) for c in loops_of(raws)]
            if last == 'ExpandOutputs' and 'CGraph' in cs:
                o = it.eval(fn, fn.stmts[n['obj']], env) if 'obj' in n else None
                return set(order) if isinstance(o, Obj) and o.get('which') == 'TermGraph' else set()
            if last == 'Context' and cs.startswith(T):
                return Obj(__kind__='context')
            if n['k'] in ('CXXConstructExpr', 'CXXTemporaryObjectExpr') and (n.get('cls') or '') == L + 'RefsManager':
                return Obj(__kind__='refsmanager')
            if cs == L + 'RefsManager::Resolve' and n.get('args'):
                raw = bytes(it.eval(fn, fn.stmts[n['args'][0]], env)).decode()
                out = re.sub(r'@\{X(\d+)\}', lambda m: str_of(int(m.group(1))).decode() if int(m.group(1)) in storage else '?', raw)
                return bytearray(out.encode())
            if cs == L + 'TextEnvironment::Instance':
                return Obj(skipResolving=False)
            if cs == '__assert_fail':
                return None
            return NOT_HANDLED
        this = Obj(__cls__=T, storage=storage, context=Obj(__kind__='context'))
        snaps = []
        for _ in range(times):
            it_ = Interp(db, on_call=on_call, max_steps=400000)
            it_.call(fns[name], [] if name == 'UpdateState' else [order[0]], this)
            snaps.append({u: str_of(u).decode() for u in storage})
        return snaps
    cases = [
        ('a term that mentions itself', {1: 'big @{X1} thing'}, [1]),
        ('two terms that mention each other', {1: 'owner of @{X2}', 2: 'thing of @{X1}'}, [1, 2]),
        ('the same loop visited in the other order', {1: 'owner of @{X2}', 2: 'thing of @{X1}'}, [2, 1]),
        ('a chain without a loop', {1: 'man', 2: 'father of @{X1}', 3: 'friend of @{X2}'}, [1, 2, 3]),
        ('a loop with a tail', {1: 'a @{X1}', 2: 'b @{X1}'}, [1, 2]),
    ]
    for name in ('UpdateState', 'OnTermChange'):
        bad = None
        try:
            for what, raws, order in cases:
                s1, s2, s3 = run(name, raws, order, 3)
                if (s2 != s1 or s3 != s2) and bad is None:
                    u = next(u_ for u_ in s1 if s2[u_] != s1[u_] or s3[u_] != s2[u_])
                    bad = '%s: the term of X%d (raw text "%s") reads "%s" after one update, "%s" after the second and "%s" after the third: every update resolves the term from its own previous resolution' % (
                        what, u, raws[u], s1[u], s2[u], s3[u])
                if any(sorted(order) == c_ for c_ in loops_of(raws)) and bad is None:      # every order of the members of one loop is a legal one
                    other = run(name, raws, list(reversed(order)), 1)[0]
                    if other != s1:
                        u = next(u_ for u_ in s1 if other[u_] != s1[u_])
                        bad = '%s: visiting the terms in the order %s gives X%d = "%s", in the order %s it gives "%s": the resolved text of a loop depends on the history that produced the order (an edited object and the same object after a load differ)' % (
                            what, order, u, s1[u], list(reversed(order)), other[u])
                if what == 'a chain without a loop' and s1[3] != 'friend of father of man' and bad is None:
                    bad = 'a chain without a loop resolves to "%s", expected "friend of father of man"' % s1[3]
        except OutOfFragment as e:
            r15.broken('Thesaurus::%s outside the evaluable fragment: %s' % (name, e))
            continue
        f_ = fns[name]
        if bad:
            r15.violation(name, '%s:%d' % (f_.file, f_.line), bad)
        else:
            r15.ok(name, '%d thesauri, loops included: a second and a third update change nothing, and the members of a loop can be visited in either order' % len(cases), '%s:%d' % (f_.file, f_.line))


def _morphology_total(db, rep):
    """r16: the Morphology constructor from a list of tag texts, interpreted (with TrimWhitespace; Str2Grammem supplied as the table r2 decides):
    the set built is exactly the set of the known grammemes in the list, wherever the unknown ones stand. A reference that carries a tag the
    tables do not know (OpenCorpora has many) must keep its other grammemes - otherwise it resolves in another form, is written back
    shortened, or stops being a reference at all."""
    import itertools
    r16 = rep.rule('r16', 'MORPHOLOGY-TOTAL: a list of tag texts yields exactly its known grammemes, wherever unknown tags stand in it', 1)
    cands = [g for g in db.by_name.get(L + 'Morphology::Morphology', []) if g.body >= 0 and g.rec.get('params') and 'vector' in g.rec['params'][0]['type']]
    if len(cands) != 1:
        r16.broken('anchor vanished: Morphology(const std::vector<std::string_view>&)')
        return
    f = cands[0]
    gram = {e['name']: e['val'] for e in db.enum(L + 'Grammem')['enumerators']}
    known = {'sing': gram.get('sing'), 'plur': gram.get('plur'), 'nomn': gram.get('nomn'), 'gent': gram.get('gent')}
    if 'invalid' not in gram or any(v is None for v in known.values()):
        r16.broken('Grammem enumerators not recognised')
        return

    def on_call(it, fn, n, env):
        cs = n.get('cs') or ''
        if cs.endswith('::Str2Grammem') and n.get('args'):
            t = bytes(it.eval(fn, fn.stmts[n['args'][0]], env)).decode('utf-8', 'replace')
            return known.get(t, gram['invalid'])
        return NOT_HANDLED
    words = ['sing', 'nomn', 'plur', 'anim', '', ' gent ']
    bad, cases = None, 0
    try:
        for k in (1, 2, 3):
            for combo in itertools.product(words, repeat=k):
                cases += 1
                this = Obj(__cls__=L + 'Morphology', tags=set())
                Interp(db, on_call=on_call, max_steps=200000).construct(f, this, [[w.encode() for w in combo]])
                want = {known[w.strip()] for w in combo if w.strip() in known}
                if set(this['tags']) != want and bad is None:
                    inv = {v: k_ for k_, v in known.items()}
                    bad = 'the tags %s give the grammemes %s; the known ones among them are %s' % (list(combo), sorted(inv.get(x, x) for x in this['tags']), sorted(inv[x] for x in want))
    except OutOfFragment as e:
        r16.broken('Morphology constructor outside the evaluable fragment: %s' % e)
        return
    if bad:
        r16.violation('Morphology(list)', '%s:%d' % (f.file, f.line), bad + ': a reference such as @{X2|inan,plur,gent} loses its form (or stops being a reference), is resolved in the wrong form and written back shortened')
    else:
        r16.ok('Morphology(list)', '%d tag lists with unknown, empty and padded tags in every position' % cases, '%s:%d' % (f.file, f.line))
