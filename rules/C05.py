"""C05 — printing then re-parsing an expression preserves its tree in both syntaxes.

Decided on models extracted from the source (no C++ is run): GEN (generator visitor methods + Token::Str/ToString/ConvertID,
partially evaluated per tree shape), DFA_math / DFA_ascii (direct-coded lexers), LR+ACT (parser).
 r1 SPELLING     every token with a fixed spelling: Token::Str(id, syntax), trimmed, is lexed by the DFA of that syntax as exactly
                 one token of that id (TABLE-AGREE between the spelling tables and the two lexers).
 r2 ROUND-TRIP   for every tree of the family F, in MATH and in ASCII:  parse_model(lex_model(print_model(T))) = T  (ids, payloads,
                 children; local names through the transliteration table in ASCII).  F = trees of the construct corpus plus, for every
                 ordered pair of operators, the two groupings (x o1 y) o2 z and x o1 (y o2 z), operators under every prefix/functional
                 parent and inside every binder - the quantifier of the property ("every operator as parent of every operator as
                 left/right child").
 r3 TRANSLIT     ConvertID maps each Greek letter to the documented Latin letter, result lexes as one ASCII local identifier;
                 MATH output leaves names untouched.
 r4 EQUALITY     SyntaxTree::Node::operator== compares id, payload and children and does not look at positions.
 r5 PAYLOAD      both lexers attach the same payload kind to the same token ids (ParseData table), index payloads re-print as lexed.
Not decided: idempotence for names that collide under transliteration (excluded by the statement); trees outside F.
"""
import json
import os

from engine.evalmini import Interp, OutOfFragment, Obj, NOT_HANDLED
from engine.facts import AnalysisBroken
from engine.models.lr import LR
from engine.models.act import AstModel, Tree
from engine.models.gen import GenModel
from engine.models.flexdfa import FlexDFA
from engine.models.corpus import corpus, sentence, SET_BIN, LOGIC_BIN, PREDICATES

UNITS = ['RSlang', 'RSlang2']
VERIF = os.path.dirname(os.path.dirname(os.path.abspath(__file__)))

# documented transliteration of Greek local names in ASCII output (language reference; the property calls it "the fixed table")
TRANSLIT = dict(zip('αβγδεζηθικλμνξοπρςστυφχψω', 'abgdezhviklmnxoprsstqfcjw'))


class Models:
    def __init__(self, db):
        self.db = db
        self.lr = LR(db)
        self.ast = AstModel(db, self.lr)
        self.gen = GenModel(db)
        self.dfa = {
            'MATH': FlexDFA(db, 'ccl::rslang::detail::rslex', 'ccl::rslang::detail::rslex::MathLexerImpl'),
            'ASCII': FlexDFA(db, 'ccl::rslang::detail::asciilex', 'ccl::rslang::detail::asciilex::AsciiLexerImpl'),
        }
        self.payload_kind = {}
        self._payload_tables()

    def _payload_tables(self):
        tabs = {}
        for f in self.db.functions:
            if f.sname == 'ccl::rslang::detail::LexerBase::ParseData' and not f.rec.get('dependent'):
                sw = [n for n in f.walk() if n['k'] == 'SwitchStmt']
                if len(sw) != 1:
                    raise AnalysisBroken('LexerBase::ParseData: switch not found')
                body = f.stmts[sw[0]['body']]
                tab = {}
                cur = []
                for cid in body['c']:
                    st = f.stmts[cid]
                    labels = []
                    while st['k'] in ('CaseStmt', 'DefaultStmt'):
                        labels.append(st.get('enumerator', 'default').split('::')[-1] if st['k'] == 'CaseStmt' else 'default')
                        st = f.stmts[st['sub']]
                    if labels:
                        cur = cur + labels if not _has_return(f, f.stmts[body['c'][body['c'].index(cid) - 1]]) and cur and False else labels
                    if st['k'] == 'ReturnStmt' or any(x['k'] == 'ReturnStmt' for x in f.walk(st)):
                        callees = [c.get('cs', '').split('::')[-1] for c in f.calls(st)]
                        kind = 'tuple' if 'ToTuple' in callees else 'int' if 'ToInt' in callees else 'text' if 'Text' in callees else 'none'
                        prefix = None
                        if kind == 'tuple':
                            tc = [c for c in f.calls(st) if c.get('cs', '').endswith('ToTuple')][0]
                            prefix = f.strip(f.stmts[tc['args'][0]]).get('cv')
                        for l in cur:
                            tab[l] = (kind, prefix)
                        cur = []
                    else:
                        pass
                tabs[f.mn] = tab
        # labels that fall through to the next return: recompute with fallthrough
        tabs2 = {}
        for f in self.db.functions:
            if f.sname == 'ccl::rslang::detail::LexerBase::ParseData' and not f.rec.get('dependent'):
                tabs2[f.mn] = _switch_table(f)
        vals = list(tabs2.values())
        if len(vals) < 2:
            raise AnalysisBroken('expected ParseData instantiations for both lexers, found %d' % len(vals))
        self.payload_tables = tabs2
        self.payload_kind = vals[0]

    def payload(self, tok, lexeme):
        kind, prefix = self.payload_kind.get(tok, self.payload_kind.get('default', ('none', None)))
        if kind == 'none':
            return None
        if kind == 'text':
            return bytes(lexeme)
        if kind == 'int':
            try:
                return int(lexeme.decode())
            except ValueError:
                return ('bad-int', bytes(lexeme))
        if kind == 'tuple':
            f = self.db.fn('ccl::rslang::TokenData::FromIndexSequence')
            it = Interp(self.db, on_call=_fis_hook)
            v = it.call(f, [bytes(lexeme[prefix:])])
            return v
        return None

    def reparse(self, text, syntax):
        toks = self.dfa[syntax].tokenize(text)
        if toks and toks[-1][0] in ('JAM', 'INTERRUPT'):
            return None, 'lexer stops at %r' % (toks[-1][1],)
        seq = [(t, self.payload(t, lx), 1) for t, lx in toks]
        try:
            tree, info = self.ast.build(seq)
        except KeyError as e:
            return None, 'unknown token %s' % e
        return tree, info


def _has_return(f, st):
    return any(x['k'] == 'ReturnStmt' for x in f.walk(st))


def _switch_table(f):
    sw = [n for n in f.walk() if n['k'] == 'SwitchStmt'][0]
    body = f.stmts[sw['body']]
    tab = {}
    pending = []
    for cid in body['c']:
        st = f.stmts[cid]
        while st['k'] in ('CaseStmt', 'DefaultStmt'):
            pending.append(st.get('enumerator', '').split('::')[-1] if st['k'] == 'CaseStmt' else 'default')
            st = f.stmts[st['sub']]
        if _has_return(f, st):
            callees = [c.get('cs', '').split('::')[-1] for c in f.calls(st)]
            kind = 'tuple' if 'ToTuple' in callees else 'int' if 'ToInt' in callees else 'text' if 'Text' in callees else 'none'
            prefix = None
            if kind == 'tuple':
                tc = [c for c in f.calls(st) if c.get('cs', '').endswith('ToTuple')][0]
                prefix = f.strip(f.stmts[tc['args'][0]]).get('cv')
            for l in pending:
                tab[l] = (kind, prefix)
            pending = []
    return tab


def _fis_hook(it, fn, n, env):
    cs = n.get('cs') or ''
    S = fn.stmts
    if cs in ('isdigit', 'std::isdigit') and n.get('args'):
        v = it.eval(fn, S[n['args'][0]], env)
        return 1 if 48 <= v <= 57 else 0
    if n['k'] in ('CXXConstructExpr', 'CXXTemporaryObjectExpr') and (n.get('cls') or '') == 'ccl::rslang::TokenData':
        args = [it.eval(fn, S[a], env) for a in n.get('args', [])]
        return list(args[0]) if args and isinstance(args[0], list) else (args[0] if args else None)
    return NOT_HANDLED


def _expected(t, syntax):
    """shape with payloads; local names transliterated for ASCII"""
    d = t.data
    if t.id == 'ID_LOCAL' and syntax == 'ASCII' and isinstance(d, (bytes, bytearray)):
        d = ''.join(TRANSLIT.get(ch, ch) for ch in d.decode('utf-8')).encode()
    if isinstance(d, (bytes, bytearray)):
        d = bytes(d)
    return (t.id, d if not isinstance(d, list) else tuple(d)) + tuple(_expected(c, syntax) for c in t.children)


def _actual(t):
    d = t.data
    if isinstance(d, (bytes, bytearray)):
        d = bytes(d)
    return (t.id, d if not isinstance(d, list) else tuple(d)) + tuple(_actual(c) for c in t.children)


def _show(x):
    if not isinstance(x, tuple):
        return str(x)
    head = x[0]
    if x[1] is not None and len(x) == 2:
        d = x[1].decode('utf-8', 'replace') if isinstance(x[1], bytes) else x[1]
        return '%s' % (d,)
    kids = ' '.join(_show(c) for c in x[2:])
    return '[%s %s]' % (head, kids)


def family():
    """sentences (token level, with explicit parentheses) whose parser-model trees form the family F"""
    out = []
    for s, _ in corpus():
        out.append(('corpus', s))
    x, y, z = 'G1', 'G2', 'G3'
    for o1 in SET_BIN:
        for o2 in SET_BIN:
            out.append(('pair', '( %s %s %s ) %s %s' % (x, o1, y, o2, z)))
            out.append(('pair', '%s %s ( %s %s %s )' % (x, o1, y, o2, z)))
            out.append(('pair', '%s %s %s %s %s' % (x, o1, y, o2, z)))
    p, q, r = 'a IN G1', 'b IN G2', 'c IN G3'
    for o1 in LOGIC_BIN:
        for o2 in LOGIC_BIN:
            out.append(('pair', '( %s %s %s ) %s %s' % (p, o1, q, o2, r)))
            out.append(('pair', '%s %s ( %s %s %s )' % (p, o1, q, o2, r)))
            out.append(('pair', '%s %s %s %s %s' % (p, o1, q, o2, r)))
    for o in LOGIC_BIN:
        out.append(('prefix', 'NOT ( %s %s %s )' % (p, o, q)))
        out.append(('prefix', 'NOT %s %s %s' % (p, o, q)))
        out.append(('prefix', '%s %s NOT %s' % (p, o, q)))
        for qn in ('FORALL', 'EXISTS'):
            out.append(('binder', '%s a IN G1 ( %s %s %s )' % (qn, p, o, q)))
            out.append(('binder', '%s a IN G1 %s %s %s' % (qn, p, o, q)))
            out.append(('binder', '%s %s %s a IN G1 %s' % (p, o, qn, q)))
            out.append(('binder', '%s a IN G1 NOT %s' % (qn, p)))
            out.append(('binder', 'NOT %s a IN G1 %s' % (qn, p)))
    for o in SET_BIN:
        for fn_ in ('BOOLEAN', 'CARD', 'BOOL', 'DEBOOL', 'REDUCE', 'Pr1', 'pr2'):
            out.append(('functional', '%s ( %s %s %s )' % (fn_, x, o, y)))
            out.append(('functional', '%s ( %s ) %s %s' % (fn_, x, o, y)))
            out.append(('functional', '%s %s %s ( %s )' % (x, o, fn_, y)))
        out.append(('functional', 'BOOLEAN BOOLEAN ( %s %s %s )' % (x, o, y)))
        out.append(('functional', '{ %s %s %s , %s }' % (x, o, y, z)))
        out.append(('functional', '( %s %s %s , %s )' % (x, o, y, z)))
        out.append(('functional', 'F1 [ %s %s %s , %s ]' % (x, o, y, z)))
        out.append(('functional', 'Fi1 [ %s %s %s ] ( %s %s %s )' % (x, o, y, y, o, z)))
        out.append(('binder', 'DECLARATIVE { a IN %s %s %s | a IN %s }' % (x, o, y, z)))
        out.append(('binder', 'FORALL a IN %s %s %s a IN %s' % (x, o, y, z)))
        out.append(('binder', 'RECURSIVE { a ASSIGN %s %s %s | a %s %s }' % (x, o, y, o, z)))
        out.append(('binder', 'IMPERATIVE { a %s %s | a ITERATE %s %s %s ; b ASSIGN a %s %s }' % (o, x, x, o, y, o, z)))
        out.append(('binder', '[ a IN %s %s %s ] a %s %s' % (x, o, y, o, z)))
        for pr in PREDICATES:
            out.append(('predicate', '%s %s %s %s %s %s %s' % (x, o, y, pr, y, o, z)))
    for pr in PREDICATES:
        out.append(('predicate', 'NOT %s %s %s' % (x, pr, y)))
    out += [
        ('names', 'FORALL al IN G1 al IN G2'), ('names', 'DECLARATIVE { xi IN G1 | xi IN G2 }'), ('names', '[ al IN G1 , xi IN G2 ] al EQUAL xi'),
        ('names', 'F1 :== [ al IN G1 ] al UNION G2'), ('names', 'P1 :== [ al IN G1 ] al IN G2'), ('names', 'G3 :== DECLARATIVE { al IN G1 | al IN G2 }'),
        ('decl', 'S1 ::= BOOLEAN ( G1 DECART BOOLEAN ( G2 ) )'), ('decl', 'G3 :== I1 PLUS I2'), ('decl', 'G3 :== FORALL a IN G1 a IN G2'),
        ('nested', 'RECURSIVE { a ASSIGN G1 | CARD ( a ) LESSER I2 AND a NOTEQUAL E | a UNION Pr1 ( G2 ) }'),
        ('nested', 'IMPERATIVE { ( a , b ) | a ITERATE G1 ; b ASSIGN { a } ; b SUBSET G2 ; ( a , b ) IN G3 }'),
        ('nested', 'DECLARATIVE { a IN BOOLEAN ( G1 ) | FORALL b IN a EXISTS c IN a ( b NOTEQUAL c IMPLICATION b IN G2 ) }'),
        ('nested', 'debool_placeholder'),
    ]
    return [(k, s) for k, s in out if 'placeholder' not in s]


def check(db, rep):
    rep.explanation = ('Model-level round trip: generator methods are partially evaluated into text per tree shape, the text is lexed by the DFA read from the '
                       'generated lexer and parsed by the LALR automaton with the summarised actions; the resulting tree must equal the tree printed. '
                       'The family covers every operator as parent of every operator as left/right child, every prefix/functional parent and every binder, in both syntaxes.')
    M = Models(db)
    tokid = M.ast.tokid
    syntax_enum = M.gen.syntax
    str_fn = db.fn('ccl::rslang::Token::Str')

    # ---------------------------------------------------------------- r1
    r1 = rep.rule('r1', 'SPELLING: Token::Str(id, syntax), trimmed, lexes in that syntax as exactly one token of that id', 100)
    for syn in ('MATH', 'ASCII'):
        dfa = M.dfa[syn]
        # every terminal of the grammar (independent of the lexers) except the parametrised ones
        from rules.C06 import ALIAS
        rev = {v: k for k, v in ALIAS.items()}
        terminals = [rev.get(n, n) for n in M.lr.tname[3:M.lr.ntokens]]
        fixed = sorted(set(terminals) - {'ID_LOCAL', 'ID_GLOBAL', 'ID_FUNCTION', 'ID_PREDICATE', 'ID_RADICAL', 'LIT_INTEGER', 'BIGPR', 'SMALLPR', 'FILTER'})
        unknown = [t for t in fixed if t not in tokid]
        if unknown:
            r1.broken('grammar terminals %s have no TokenID of that name' % unknown)
            return
        rep.note('fixed_spelling_tokens_' + syn, len(fixed))
        for name in fixed:
            try:
                sp = Interp(db).call(str_fn, [tokid[name], syntax_enum[syn]])
            except OutOfFragment as e:
                r1.broken('Token::Str outside the fragment: %s' % e)
                return
            text = sp.strip()
            toks = dfa.tokenize(text)
            inst = '%s:%s' % (syn, name)
            if len(toks) == 1 and toks[0][0] == name:
                r1.ok(inst, repr(text.decode('utf-8', 'replace')), nontrivial=True)
            else:
                r1.violation(inst, 'ccl/rslang/src/RSToken.cpp', 'the %s spelling %r of %s is lexed as %s: printed text does not re-parse' % (
                    syn, text.decode('utf-8', 'replace'), name, [(t, l.decode('utf-8', 'replace')) for t, l in toks]))
        # parametrised tokens: prefix spelled by Str + index list
        for name, sample in (('BIGPR', [1, 2]), ('SMALLPR', [3]), ('FILTER', [1, 2, 3])):
            t = Tree(name, [], 0, 0, sample)
            try:
                text = M.gen.interp().call(db.fn('ccl::rslang::Token::ToString'), [syntax_enum[syn]], Obj(id=tokid[name], data=Obj(__kind__='tokendata', value=sample)))
            except OutOfFragment as e:
                r1.broken('Token::ToString outside the fragment: %s' % e)
                return
            toks = dfa.tokenize(text)
            inst = '%s:%s-indices' % (syn, name)
            if len(toks) == 1 and toks[0][0] == name and M.payload(name, toks[0][1]) == sample:
                r1.ok(inst, text.decode())
            else:
                r1.violation(inst, 'ccl/rslang/src/RSToken.cpp', '%s with indices %s prints %r which lexes as %s' % (name, sample, text, toks))

    # ---------------------------------------------------------------- r2
    r2 = rep.rule('r2', 'ROUND-TRIP: parse_model(lex_model(print_model(T))) = T for every tree of the operator/constructor family, in MATH and ASCII', 600)
    fam = [(k, s, sentence(s)) for k, s in family()]
    from engine.models.treegrammar import TreeGrammar, PAYLOAD
    tg = TreeGrammar(db)
    if rep.tier == 'thorough':
        # every witness sentence of the tree grammar (one per production x operand root kind): all constructs in all operand positions
        for text, toks in tg.sentences():
            fam.append(('grammar', text, toks))
    else:
        # quick tier: every operand kind under the constructs that print their own brackets (named operations, Boolean, filter, call)
        seen_t = set()
        for (parent, idx, child), text in sorted(tg.witness.items()):
            if parent in ('BIGPR', 'SMALLPR', 'CARD', 'BOOL', 'DEBOOL', 'REDUCE', 'BOOLEAN', 'FILTER', 'NT_FUNC_CALL') and idx >= 0 and text not in seen_t:
                seen_t.add(text)
                fam.append(('grammar', text, [(tg.term[t], PAYLOAD.get(tg.term[t]), 1) for t in text.split()]))
    trees = {}
    kinds = {}
    for kind, s, toks_ in fam:
        try:
            t, info = M.ast.build(toks_)
        except OutOfFragment as e:
            r2.broken('parser model left the fragment on `%s`: %s' % (s, e))
            return
        if t is None:
            if kind == 'grammar':
                continue       # witnesses include sentences an action rejects (declarations that are not variables, misplaced assignments)
            r2.broken('family sentence `%s` is not accepted by the parser model (%s)' % (s, info))
            continue
        key = _actual(t)
        if key not in trees:
            trees[key] = (t, s)
            kinds[kind] = kinds.get(kind, 0) + 1
    rep.note('family_sentences', len(fam))
    rep.note('family_distinct_trees', len(trees))
    rep.note('family_by_kind', kinds)
    for key, (t, s) in trees.items():
        for syn in ('MATH', 'ASCII'):
            inst = '%s:%s' % (syn, _show(key))
            try:
                text = M.gen.print(t, syn)
            except OutOfFragment as e:
                r2.violation(inst, 'ccl/rslang/src/GeneratorImplAST.cpp', 'generating %s text for the tree of `%s` faults: %s' % (syn, s, e))
                continue
            back, info = M.reparse(text, syn)
            if back is None:
                r2.violation(inst, 'ccl/rslang/src/GeneratorImplAST.cpp', 'tree of `%s` prints in %s as %r which does not parse: %s' % (s, syn, text.decode('utf-8', 'replace'), info))
                continue
            want = _expected(t, syn)
            got = _actual(back)
            if got != want:
                r2.violation(inst, 'ccl/rslang/src/GeneratorImplAST.cpp', 'tree %s prints in %s as %r which parses back as %s' % (_show(want), syn, text.decode('utf-8', 'replace'), _show(got)))
            else:
                r2.ok(inst, text.decode('utf-8', 'replace')[:80])

    # ---------------------------------------------------------------- r3
    r3 = rep.rule('r3', 'TRANSLIT: ConvertID maps each Greek letter to its documented Latin letter (ASCII) and is the identity in MATH; the result is one ASCII local identifier', 25)
    conv = db.fn('ccl::rslang::ConvertID', required=False) or next((f for f in db.functions if f.name.endswith('::ConvertID')), None)
    if conv is None:
        r3.broken('anchor vanished: ConvertID')
    else:
        for g, latin in TRANSLIT.items():
            name = (g + '1').encode()
            try:
                it = M.gen.interp()
                out_ascii = it.call(conv, [name, syntax_enum['ASCII']])
                out_math = M.gen.interp().call(conv, [name, syntax_enum['MATH']])
            except OutOfFragment as e:
                r3.broken('ConvertID outside the fragment: %s' % e)
                break
            toks = M.dfa['ASCII'].tokenize(out_ascii)
            ok = out_ascii == (latin + '1').encode() and out_math == name and len(toks) == 1 and toks[0][0] == 'ID_LOCAL'
            if ok:
                r3.ok('greek:' + g, '%s -> %s' % (g, latin))
            else:
                r3.violation('greek:' + g, '%s:%d' % (conv.file, conv.line), 'local name %s1 is printed in ASCII as %r (documented: %s1) and in MATH as %r; ASCII result lexes as %s' % (
                    g, out_ascii.decode('utf-8', 'replace'), latin, out_math.decode('utf-8', 'replace'), [x[0] for x in toks]))

    # ---------------------------------------------------------------- r8
    r8 = rep.rule('r8', 'IDENTIFIER-CLOSURE: every identifier the MATH lexer accepts is printed in ASCII (Token::ToString interpreted) as a text the ASCII lexer reads as one identifier of the same kind - also when it contains Greek letters outside a local name, or when its transliteration spells an ASCII keyword', 2)
    tostr = db.fn('ccl::rslang::Token::ToString', required=False)
    if tostr is None:
        r8.broken('anchor vanished: Token::ToString')
    else:
        tokid = {e['name']: e['val'] for e in db.enum('ccl::rslang::TokenID')['enumerators']}
        inv = {v: k for k, v in TRANSLIT.items()}
        cands = []
        # (a) identifiers of every non-local kind with a Greek letter inside
        for first in 'XCSDATFPR':
            for body in ('α', 'αβ1', '1α', 'δ2'):
                cands.append(first + body)
        # (b) local names whose transliteration is a word the ASCII lexer gives another meaning: taken from the ASCII spelling table
        words = set()
        for tid in tokid:
            try:
                sp = M.gen.interp().call(db.fn('ccl::rslang::Token::Str'), [tokid[tid], syntax_enum['ASCII']])
            except Exception:
                continue
            sp = bytes(sp).decode('ascii', 'replace').strip() if isinstance(sp, (bytes, bytearray)) else ''
            if sp and sp[0].isalpha() and all(ch.isalnum() for ch in sp):
                words.add(sp)
        import itertools as _it
        for w in sorted(words) + ['pr1', 'pr12', 'Pr1', 'Pr12', 'Fi1', 'Fi12']:
            # every spelling of the word in which at least one letter is the Greek letter that is transliterated to it (an identifier of any
            # kind may contain Greek letters: Pρ1 is a global name of the MATH syntax and Pr1 a keyword of the ASCII one)
            slots = [i for i, ch in enumerate(w) if ch in inv]
            if not slots or len(slots) > 6:
                continue
            for r_ in range(1, len(slots) + 1):
                for pick in _it.combinations(slots, r_):
                    cands.append(''.join(inv[ch] if i in pick else ch for i, ch in enumerate(w)))
        bad_glob, bad_loc, n_glob, n_loc = None, None, 0, 0
        try:
            for text in cands:
                data = text.encode('utf-8')
                toks = M.dfa['MATH'].tokenize(data)
                if len(toks) != 1 or not toks[0][0].startswith('ID_'):
                    continue                                   # not an identifier of the MATH syntax: outside the statement
                kind = toks[0][0]
                this = Obj(id=tokid[kind], pos=Obj(start=0, finish=len(text)), data=Obj(__kind__='tokendata', value=data))
                out = bytes(M.gen.interp().call(tostr, [syntax_enum['ASCII']], this))
                back = M.dfa['ASCII'].tokenize(out)
                okk = len(back) == 1 and back[0][0] == kind
                if kind == 'ID_LOCAL':
                    n_loc += 1
                    if not okk and bad_loc is None:
                        bad_loc = 'the local name %s is printed in ASCII as `%s`, which the ASCII lexer reads as %s' % (text, out.decode('utf-8', 'replace'), [x[0] for x in back])
                else:
                    n_glob += 1
                    if not okk and bad_glob is None:
                        bad_glob = 'the MATH lexer accepts %s as %s; in ASCII it is printed as `%s`, which the ASCII lexer reads as %s' % (text, kind, out.decode('utf-8', 'replace'), [x[0] for x in back])
        except OutOfFragment as e:
            r8.broken('Token::ToString outside the evaluable fragment: %s' % e)
            bad_glob = bad_loc = None
            n_glob = n_loc = 0
        if n_glob or bad_glob:
            if bad_glob:
                r8.violation('greek-in-global', '%s:%d' % (tostr.file, tostr.line), bad_glob)
            else:
                r8.ok('greek-in-global', '%d identifiers with Greek letters outside local names print to one ASCII identifier of the same kind' % n_glob, '%s:%d' % (tostr.file, tostr.line))
        else:
            r8.ok('greek-in-global', 'the MATH lexer accepts no Greek letter outside local names', '%s:%d' % (tostr.file, tostr.line), nontrivial=False)
        if bad_loc:
            r8.violation('keyword-transliteration', '%s:%d' % (tostr.file, tostr.line), bad_loc)
        else:
            r8.ok('keyword-transliteration', '%d local names whose transliteration spells an ASCII keyword still print to one ASCII local identifier' % n_loc, '%s:%d' % (tostr.file, tostr.line))

    # ---------------------------------------------------------------- r4
    r4 = rep.rule('r4', 'EQUALITY: SyntaxTree::Node::operator== compares id, payload and all children, never positions', 1)
    eq = db.fn('ccl::rslang::SyntaxTree::Node::operator==')
    members = set()
    for n in eq.walk():
        if n['k'] == 'MemberExpr' and n.get('mk') == 'field':
            members.add(n.get('member'))
    need = {'children', 'token', 'id', 'data'}
    if need <= members and 'pos' not in members:
        # children compared element-wise over the full size
        loops = [n for n in eq.walk() if n['k'] == 'ForStmt']
        cmp_children = any(c.get('cs', '').endswith('operator!=') or c.get('cs', '').endswith('operator==') for lp in loops for c in eq.calls(lp) if 'Node' in (c.get('cs') or ''))
        if loops and cmp_children:
            r4.ok('Node::operator==', 'reads %s' % sorted(members), '%s:%d' % (eq.file, eq.line))
        else:
            r4.violation('Node::operator==', '%s:%d' % (eq.file, eq.line), 'children are not compared element by element')
    else:
        r4.violation('Node::operator==', '%s:%d' % (eq.file, eq.line), 'tree equality reads %s; it must compare id, data and children and ignore pos' % sorted(members))

    # ---------------------------------------------------------------- r5
    r5 = rep.rule('r5', 'PAYLOAD: both lexer instantiations attach the same payload kind per token id; identifiers carry their text, integers their value, projections/filters their indices', 2)
    tabs = list(M.payload_tables.values())
    if any(t != tabs[0] for t in tabs[1:]):
        r5.violation('ParseData-agree', 'ccl/rslang/include/ccl/rslang/LexerBase.hpp', 'payload tables of the lexer instantiations differ')
    else:
        r5.ok('ParseData-agree', '%d instantiations, %d labelled ids' % (len(tabs), len(tabs[0])))
    want = {'ID_LOCAL': 'text', 'ID_GLOBAL': 'text', 'ID_FUNCTION': 'text', 'ID_PREDICATE': 'text', 'ID_RADICAL': 'text', 'LIT_INTEGER': 'int', 'BIGPR': 'tuple', 'SMALLPR': 'tuple', 'FILTER': 'tuple'}
    bad = {k: tabs[0].get(k, tabs[0].get('default')) for k, v in want.items() if tabs[0].get(k, ('none',))[0] != v}
    if bad:
        r5.violation('ParseData-kinds', 'ccl/rslang/include/ccl/rslang/LexerBase.hpp', 'payload kinds %s differ from what the generator prints from (text/int/index tuple)' % bad)
    else:
        r5.ok('ParseData-kinds', 'identifiers text, integers int, Pr/pr/Fi index tuples')

    # ---------------------------------------------------------------- r6
    r7 = rep.rule('r7', 'LITERALS-REPRESENTABLE (shared with C06 r9): every literal and index a tree can hold is the number that was written, so the printed text re-parses to the same tree; a number the token data cannot hold is refused by the lexer instead of being wrapped into one that prints differently', 2)
    from rules import C06
    C06.token_data_rule(db, r7)
    r6 = rep.rule('r6', 'CONVERT: ConvertTo(text, target) parses the text in the *other* syntax and prints the tree in the target syntax; text that does not parse is returned unchanged', 1)
    cv = db.fn('ccl::rslang::ConvertTo', required=False)
    if cv is None:
        r6.broken('anchor vanished: ccl::rslang::ConvertTo')
        return
    SYN = {e['name']: e['val'] for e in db.enum('ccl::rslang::Syntax')['enumerators']}
    inv = {v: k for k, v in SYN.items()}
    bad = None
    try:
        for target in ('MATH', 'ASCII'):
            for parses in (True, False):
                seen = {}

                def on_call(it, fn, n, env, parses=parses, seen=seen):
                    cs = n.get('cs') or ''
                    if cs.endswith('Parser::Parse'):
                        args = [it.eval(fn, fn.stmts[a], env) for a in n.get('args', [])]
                        seen['hint'] = inv.get(args[1], args[1]) if len(args) > 1 else 'UNDEF'
                        return parses
                    if cs.endswith('Generator::FromTree'):
                        args = [it.eval(fn, fn.stmts[a], env) for a in n.get('args', [])]
                        seen['out'] = inv.get(args[1], args[1]) if len(args) > 1 else '?'
                        return b'<printed>'
                    if cs.endswith('Parser::AST'):
                        return Obj(__kind__='ast')
                    if n['k'] in ('CXXConstructExpr', 'CXXTemporaryObjectExpr') and (n.get('cls') or '').endswith('rslang::Parser'):
                        return Obj(__kind__='parser')
                    return NOT_HANDLED
                res = Interp(db, on_call=on_call).call(cv, [b'text', SYN[target]])
                other = 'ASCII' if target == 'MATH' else 'MATH'
                if seen.get('hint') != other:
                    bad = bad or 'converting to %s parses the input with syntax hint %s; the input is in the other syntax (%s) - auto-detection reads `a*b` or `X1\\\\X2` as ASCII' % (target, seen.get('hint'), other)
                elif parses and (seen.get('out') != target or res != b'<printed>'):
                    bad = bad or 'converting to %s prints the tree in %s' % (target, seen.get('out'))
                elif not parses and res != b'text':
                    bad = bad or 'text that does not parse is not returned unchanged'
    except OutOfFragment as e:
        r6.broken('ConvertTo outside the evaluable fragment: %s' % e)
        return
    # the evaluation above starts every call from fresh locals: it is the whole behaviour only when the function keeps nothing between calls
    kept = [s for s in db.statics if (s.get('owner') or '') == 'ccl::rslang::ConvertTo' and not s.get('const')]
    if kept:
        r6.violation('ConvertTo:stateless', '%s:%d' % (kept[0]['file'], kept[0]['line']), 'ConvertTo keeps `%s %s` between calls: the converted text then depends on earlier conversions (a text converted to one syntax, or remembered under another target, is handed back for a different request) and is no longer the print of the tree parsed from this input' % (kept[0]['type'][:50], kept[0]['name']))
    else:
        r6.ok('ConvertTo:stateless', 'no mutable object with static storage is owned by ConvertTo: the result is a function of (text, target)', '%s:%d' % (cv.file, cv.line))
    if bad:
        r6.violation('ConvertTo', '%s:%d' % (cv.file, cv.line), bad)
    else:
        r6.ok('ConvertTo:source-syntax', 'the input is parsed in the syntax opposite to the target', '%s:%d' % (cv.file, cv.line))
        r6.ok('ConvertTo:target-syntax', 'the tree is printed in the target syntax; unparsable text is returned as is', '%s:%d' % (cv.file, cv.line))
