"""C16 — compact data encoding round-trips; decoding malformed tables is safe.

 r1 SHAPE      writer and reader agree on the shape of the encoding: Packer::CreateCompactFrom and Unpacker::UnpackFor dispatch the three
               structures to mirror routines; the empty-set placeholder is written (AddEmpty) and skipped (SkipEmpty) for the *same* type
               with the same per-case cell count (one per basic and per collection level, none for tuples), CreateHeader uses the same
               partition; tuples are walked over the same index range on both sides; a set writes its cardinality cell and one row per
               element and the reader consumes exactly that.
 r2 BOUNDS     every input.at(x).at(y) of the unpacker is executed only after UnpackFor's bounds test for the current cursor (who-may-call
               + dominance), Unpack rejects trailing rows, element reads inside UnpackSet are bounded by the row count.
Not decided: round-trip equality as values; arithmetic on hostile counts beyond the structural guards.
"""
from engine.cfgq import call_sites, paths_avoiding, guard_atoms, dominating_guards
from engine.shape import Keyer, short
from engine.facts import AnalysisBroken
from engine.evalmini import Interp, Obj, OutOfFragment, NOT_HANDLED

UNITS = ['RSlang2']
NS = 'ccl::object::(anonymous namespace)::'
P = NS + 'Packer'
U = NS + 'Unpacker'


def _switch_cases(f, body_root):
    """{enumerator name: [statement kinds/calls]} for the single switch under body_root"""
    sw = [n for n in f.walk(body_root) if n['k'] == 'SwitchStmt']
    if len(sw) != 1:
        return None
    body = f.stmts[sw[0]['body']]
    out = {}
    pending = []
    for cid in body['c']:
        st = f.stmts[cid]
        while st['k'] in ('CaseStmt', 'DefaultStmt'):
            pending.append(st.get('enumerator', 'default').split('::')[-1] if st['k'] == 'CaseStmt' else 'default')
            st = f.stmts[st['sub']]
        if st['k'] == 'BreakStmt':
            for l in pending:
                out.setdefault(l, [])
            pending = []
            continue
        acts = []
        for n in f.walk(st):
            if n['k'] in ('CXXMemberCallExpr', 'CallExpr') and n.get('cs'):
                acts.append(n['cs'].split('::')[-1])
            if n['k'] == 'UnaryOperator' and n.get('op') in ('++', '--'):
                acts.append(n['op'] + (f.strip(f.children(n)[0]).get('member') or f.strip(f.children(n)[0]).get('name') or ''))
        for l in pending:
            out.setdefault(l, [])
            out[l] += acts
        if any(x['k'] in ('ReturnStmt', 'BreakStmt') for x in f.walk(st)):
            pending = []
    return out


def check(db, rep, rule_prefix='', explain=True):
    if explain:
        rep.explanation = ('Writer/reader shape agreement of the compact encoding (mirror dispatch, same type and same cell partition for the empty placeholder, '
                           'same tuple index range, cardinality cell + rows) and the bounds discipline of the unpacker, from the typed AST/CFG.')
    fn = lambda n: db.fn(n)
    r1 = rep.rule(rule_prefix + 'r1', 'SHAPE: packer and unpacker agree on dispatch, empty placeholder (same type, same cells), tuple range and set layout', 6)

    # dispatch agreement
    cc = fn(P + '::CreateCompactFrom')
    uf = fn(U + '::UnpackFor')
    wc = _switch_cases(cc, cc.stmts[cc.body])
    rc = _switch_cases(uf, uf.stmts[uf.body])
    want_w = {'basic': 'AddElementData', 'collection': 'AddBoolData', 'tuple': 'AddTupleData'}
    want_r = {'basic': 'UnpackBasic', 'collection': 'UnpackBool', 'tuple': 'UnpackTuple'}
    bad = []
    if wc is None or rc is None:
        r1.broken('dispatch switch not found')
    else:
        for k in ('basic', 'collection', 'tuple'):
            if want_w[k] not in wc.get(k, []):
                bad.append('packer handles %s by %s' % (k, wc.get(k)))
            if want_r[k] not in rc.get(k, []):
                bad.append('unpacker handles %s by %s' % (k, rc.get(k)))
        if bad:
            r1.violation('dispatch', '%s:%d' % (cc.file, cc.line), '; '.join(bad))
        else:
            r1.ok('dispatch', 'basic/collection/tuple -> element/bool/tuple on both sides', '%s:%d' % (cc.file, cc.line))

    # empty placeholder: same argument, same partition
    ab = fn(P + '::AddBoolData')
    ub = fn(U + '::UnpackBool')
    ae = fn(P + '::AddEmpty')
    se = fn(U + '::SkipEmpty')
    Ka, Ku = Keyer(ab), Keyer(ub)
    a_call = [n for n in ab.calls() if n.get('cs') == P + '::AddEmpty']
    s_call = [n for n in ub.calls() if n.get('cs') == U + '::SkipEmpty']
    tparam_a = [p['name'] for p in ab.rec['params'] if 'Typification' in p['type']]
    tparam_u = [p['name'] for p in ub.rec['params'] if 'Typification' in p['type']]
    if len(a_call) == 1 and len(s_call) == 1 and tparam_a and tparam_u:
        ka = Ka.key(ab.stmts[a_call[0]['args'][0]])
        ku = Ku.key(ub.stmts[s_call[0]['args'][0]])
        if ka == ('var', tparam_a[0]) and ku == ('var', tparam_u[0]):
            r1.ok('empty-argument', 'AddEmpty(type) / SkipEmpty(type) both receive the set type itself', ub.loc(s_call[0]))
        else:
            r1.violation('empty-argument', ub.loc(s_call[0]), 'the empty-set placeholder is written for `%s` but skipped for `%s`: the reader consumes a different number of cells than the writer produced' % (
                ab.stmts[a_call[0]['args'][0]].get('txt', ''), ub.stmts[s_call[0]['args'][0]].get('txt', '')))
    else:
        r1.violation('empty-argument', '%s:%d' % (ub.file, ub.line), 'empty sets are not written with AddEmpty and skipped with SkipEmpty exactly once each')
    # cells written / skipped / described for a family of type shapes (symbolic types, abstract interpretation of the three routines)
    fam = _type_family()
    rep.note('type_shapes_evaluated', len(fam))
    try:
        bad = None
        for t in fam:
            w = _cells(db, 'AddEmpty', ae, t) if t['s'] == 'collection' else None
            k = _cells(db, 'SkipEmpty', se, t) if t['s'] == 'collection' else None
            h = _cells(db, 'CreateHeader', db.fn('ccl::object::SDCompact::CreateHeader'), t)
            want = _count(t)
            if bad is None and t['s'] == 'collection' and (w != want or k != want):
                bad = ('for the empty set of type %s the packer writes %s cell(s) and the unpacker skips %s (one per basic and per set level = %d)' % (_show(t), w, k, want), t)
            if bad is None and h != want:
                bad = ('CreateHeader describes %s column(s) for type %s, the encoding has %d' % (h, _show(t), want), t)
        if bad:
            r1.violation('cells', '%s:%d' % (se.file, se.line), bad[0] + ': values following that placeholder are decoded from the wrong column')
        else:
            r1.ok('cells', 'AddEmpty, SkipEmpty and CreateHeader agree on the number of cells for %d type shapes (depth <= 3, tuples of arity 2-3)' % len(fam), '%s:%d' % (se.file, se.line))
    except OutOfFragment as e:
        r1.broken('cell count routines outside the summarised fragment: %s' % e)

    # tuples: same index range
    at = fn(P + '::AddTupleData')
    ut = fn(U + '::UnpackTuple')
    ok_w = _tuple_range(at, 'writer')
    ok_r = _tuple_range(ut, 'reader')
    if ok_w[0] and ok_r[0]:
        r1.ok('tuple-range', 'components PR_START .. PR_START+Arity-1 on both sides', '%s:%d' % (at.file, at.line))
    else:
        r1.violation('tuple-range', '%s:%d' % (ut.file, ut.line), 'tuple components are not walked over PR_START..PR_START+Arity-1 on both sides: %s / %s' % (ok_w[1], ok_r[1]))

    # set layout
    aset = fn(P + '::AddSet')
    uset = fn(U + '::UnpackSet')
    Ks = Keyer(aset)
    card = [n for n in aset.calls() if (n.get('cs') or '').endswith('::Cardinality')]
    first_emplace = sorted([n for n in aset.calls() if (n.get('cs') or '').endswith('emplace_back')], key=lambda n: (n['line'], n['col']))
    popb = [n for n in aset.calls() if (n.get('cs') or '').endswith('pop_back')]
    loop = [n for n in aset.walk() if n['k'] == 'CXXForRangeStmt']
    ok = card and first_emplace and popb and len(loop) == 1 and any(x['id'] == card[0]['id'] for x in aset.walk(first_emplace[0])) \
        and any(c.get('cs') == P + '::CreateCompactFrom' for c in aset.calls(aset.stmts[loop[0]['body']]))
    base_arg = [c for c in aset.calls() if c.get('cs') == P + '::CreateCompactFrom']
    if ok and base_arg:
        r1.ok('set-layout:writer', 'cardinality cell, then one row per element with the element type', '%s:%d' % (aset.file, aset.line))
    else:
        r1.violation('set-layout:writer', '%s:%d' % (aset.file, aset.line), 'AddSet does not write the cardinality cell followed by one row per element')
    # reader: count read at base_y; pos_y = base_y + 1 per element; element type is B().Base()
    Ku2 = Keyer(uset)
    assigns = [n for n in uset.walk() if n['k'] == 'BinaryOperator' and n.get('op') == '=' and uset.strip(uset.children(n)[0]).get('member') == 'pos_y']
    good = assigns and all(Ku2.key(uset.children(n)[1]) == ('Bop', '+', False, ('var', 'base_y'), ('int', 1)) for n in assigns)
    reads = [n for n in uset.calls() if n.get('cs') == U + '::ReadElementInto']
    base_ok = reads and all(any(x['k'] == 'DeclRefExpr' and x.get('name') == 'baseType' for x in uset.walk(uset.stmts[n['args'][1]])) for n in reads)
    if good and base_ok:
        r1.ok('set-layout:reader', 'count at base_y, elements start at base_y + 1 with the element type', '%s:%d' % (uset.file, uset.line))
    else:
        r1.violation('set-layout:reader', '%s:%d' % (uset.file, uset.line), 'UnpackSet does not read elements from column base_y + 1 with the element type of the set')

    # ------------------------------------------------------------------ r2
    r2 = rep.rule(rule_prefix + 'r2', 'BOUNDS: unchecked table reads happen only under UnpackFor\'s bounds test; trailing rows are rejected', 5)
    # who may call the reading routines
    readers = {U + '::UnpackBasic': {U + '::UnpackFor'}, U + '::UnpackBool': {U + '::UnpackFor'}, U + '::UnpackTuple': {U + '::UnpackFor'}, U + '::UnpackSet': {U + '::UnpackBool'}}
    for callee, allowed in readers.items():
        callers = set()
        for f in db.functions:
            for n in f.calls():
                if n.get('cs') == callee:
                    callers.add(f.name)
        inst = 'who-may-call:' + callee.split('::')[-1]
        if callers <= allowed and callers:
            r2.ok(inst, 'only from ' + ', '.join(c.split('::')[-1] for c in callers))
        else:
            r2.violation(inst, 'ccl/rslang/src/SDataCompact.cpp', '%s reads the table without its own bounds test and is called from %s' % (callee.split('::')[-1], sorted(c.split('::')[-1] for c in callers - allowed) or 'nowhere'))
    # UnpackFor: dispatch dominated by the bounds test
    disp = call_sites(uf, lambda n: n.get('cs') in (U + '::UnpackBasic', U + '::UnpackBool', U + '::UnpackTuple'))
    ok = bool(disp)
    Kf = Keyer(uf)
    for p, n in disp:
        atoms = set()
        work = list(dominating_guards(uf, p))
        while work:
            c, pol = work.pop()
            c2 = uf.strip(c)
            if c2['k'] == 'BinaryOperator' and c2.get('op') == '||' and pol is False:
                work += [(x, False) for x in uf.children(c2)]
                continue
            kk = Kf.key(c2)
            if pol is False and isinstance(kk, tuple) and kk[0] == 'Bop' and kk[1] == '<=':
                atoms.add((repr(kk[3]), repr(kk[4])))
        rows = any("'input'" in a and 'at' not in a and "'pos_x'" in b for a, b in atoms)
        cols = any("'at'" in a and "'pos_x'" in a and "'pos_y'" in b for a, b in atoms)
        if not (rows and cols):
            ok = False
    if ok:
        r2.ok('UnpackFor:bounds', 'row and column checked against size before any read', '%s:%d' % (uf.file, uf.line))
    else:
        r2.violation('UnpackFor:bounds', '%s:%d' % (uf.file, uf.line), 'a decoding routine is reachable without the test size(input) <= pos_x || size(input.at(pos_x)) <= pos_y')
    # every double-indexed read happens with the cursor UnpackFor has just checked: no write to pos_x/pos_y may precede it in its function
    for name in ('UnpackBasic', 'UnpackBool', 'UnpackSet'):
        g = fn(U + '::' + name)
        reads = [n for n in g.calls() if (n.get('cs') or '').endswith('::at') and 'obj' in n and (g.stmts[n['obj']].get('cs') or g.strip(g.stmts[n['obj']]).get('cs') or '').endswith('::at')]
        writes = []
        for n in g.walk():
            tgt = None
            if n['k'] == 'UnaryOperator' and n.get('op') in ('++', '--'):
                tgt = g.strip(g.children(n)[0])
            elif n['k'] in ('BinaryOperator', 'CompoundAssignOperator') and (n.get('op') == '=' or n['k'] == 'CompoundAssignOperator'):
                tgt = g.strip(g.children(n)[0])
            if tgt is not None and tgt.get('member') in ('pos_x', 'pos_y'):
                writes.append(n)
        inst = 'fresh-cursor:' + name
        badr = None
        for r_ in reads:
            rp = g.position_of(r_)
            for w in writes:
                wp = g.position_of(w)
                if wp is not None and rp is not None and rp in g.reach(wp) and rp != wp:
                    badr = (r_, w)
        if badr:
            r2.violation(inst, g.loc(badr[0]), '`%s` reads the table after the cursor was moved by `%s` without a new bounds test: a ragged or short row throws std::out_of_range' % (badr[0].get('txt', '')[:50], badr[1].get('txt', '')[:30]))
        else:
            r2.ok(inst, '%d table read(s), all at the cursor checked by UnpackFor' % len(reads), '%s:%d' % (g.file, g.line))
    # Unpack: trailing rows
    un = fn(U + '::Unpack')
    rets = [(p, r) for p, r in un.return_sites() if un.return_literal(r) is None]
    ok = False
    for p, r in rets:
        conds = [(c.get('txt', ''), pol) for c, pol in dominating_guards(un, p)]
        if any('pos_x' in c and 'size' in c and pol is False for c, pol in conds):
            ok = True
    if ok:
        r2.ok('Unpack:trailing-rows', 'a result is returned only when the cursor is on the last row', '%s:%d' % (un.file, un.line))
    else:
        r2.violation('Unpack:trailing-rows', '%s:%d' % (un.file, un.line), 'Unpack can return a value although rows of the table were not consumed')
    # UnpackSet loops bounded by the number of rows
    loops = [n for n in uset.walk() if n['k'] == 'ForStmt']
    okl = loops and all('pos_x < size(input)' in uset.stmts[n['cond']].get('txt', '').replace('std::', '') for n in loops if 'cond' in n)
    if okl:
        r2.ok('UnpackSet:row-bound', '%d element loops bounded by pos_x < size(input)' % len(loops), '%s:%d' % (uset.file, uset.line))
    else:
        r2.violation('UnpackSet:row-bound', '%s:%d' % (uset.file, uset.line), 'an element loop of UnpackSet is not bounded by the number of rows')
    _roundtrip(db, rep, rule_prefix)


def _tuple_range(f, side):
    K = Keyer(f)
    loops = [n for n in f.walk() if n['k'] == 'ForStmt']
    if len(loops) != 1:
        return False, 'no single loop'
    lp = loops[0]
    comps = [n for n in f.calls() if (n.get('cs') or '').endswith('::Component')]
    if not comps:
        return False, 'no Component() access'
    init = f.stmts[lp['init']]['decls'][0] if 'init' in lp and f.stmts[lp['init']]['k'] == 'DeclStmt' else None
    if init is None:
        return False, 'loop variable not found'
    lv = init['name']
    start = K.key(f.stmts[init['init']])
    cond = K.key(f.stmts[lp['cond']])
    idxs = {short(K.key(f.stmts[c['args'][0]]), 200) for c in comps}
    pr = ('.', 'PR_START', None)

    def is_pr(k):
        return isinstance(k, tuple) and ((k[0] == 'var' and k[1] == 'PR_START') or (k[0] == '.' and k[1] == 'PR_START')) or (isinstance(k, tuple) and k and k[0] == 'int' and k[1] == 1)
    # form A: index from PR_START while index < PR_START + Arity, Component(index)
    # form B: i from 0 while i < arity, Component(PR_START + i)
    def has_arity(k):
        return 'Arity' in repr(k) or 'arity' in repr(k)
    if is_pr(start) and cond[0] == 'Bop' and cond[1] == '<' and has_arity(cond[4]) and 'PR_START' in repr(cond[4]) + '1' and all(K.key(f.stmts[c['args'][0]]) == ('var', lv) for c in comps):
        return True, 'PR_START..PR_START+Arity'
    if start == ('int', 0) and cond[0] == 'Bop' and cond[1] == '<' and has_arity(cond[4]) and 'PR_START' not in repr(cond[4]):
        ok = all((lambda k: isinstance(k, tuple) and k[0] == 'Bop' and k[1] == '+' and ('var', lv) in k and any(is_pr(x) for x in k[3:]))(K.key(f.stmts[c['args'][0]])) for c in comps)
        if ok:
            return True, '0..Arity with Component(PR_START+i)'
    return False, '%s loop from %s while %s indexing %s' % (side, short(start, 40), short(cond, 80), sorted(idxs))


# ---------------------------------------------------------------------------------------------- symbolic types
def _T(s, base=None, comps=None):
    return Obj(__kind__='typ', s=s, base=base, comps=comps or [])


def _type_family():
    b = _T('basic')
    d1 = [_T('collection', base=b), _T('tuple', comps=[b, b])]
    d0 = [b]
    lvl = d0 + d1
    d2 = [_T('collection', base=t) for t in d1] + [_T('tuple', comps=[x, y]) for x in lvl for y in lvl if not (x is b and y is b)] + [_T('tuple', comps=[b, b, _T('collection', base=b)])]
    lvl2 = lvl + d2
    d3 = [_T('collection', base=t) for t in d2]
    return lvl2 + d3


def _count(t):
    if t['s'] == 'basic':
        return 1
    if t['s'] == 'collection':
        return 1 + _count(t['base'])
    return sum(_count(c) for c in t['comps'])


def _show(t):
    if t['s'] == 'basic':
        return 'X'
    if t['s'] == 'collection':
        return 'B(%s)' % _show(t['base'])
    return '(' + '*'.join(_show(c) for c in t['comps']) + ')'


def _cells(db, name, f, t):
    st = {e['name']: e['val'] for e in db.enum('ccl::rslang::StructureType')['enumerators']}

    def on_call(it, fn, n, env):
        cs = n.get('cs') or ''
        S = fn.stmts
        last = cs.split('::')[-1]
        if cs.startswith('ccl::rslang::Typification::') or cs.startswith('ccl::rslang::Structured::'):
            o = it.eval(fn, S[n['obj']], env) if 'obj' in n else None
            if isinstance(o, tuple) and len(o) == 2 and o[0] == 'ptr':
                o = o[1]
            if isinstance(o, Obj) and o.get('__kind__') == 'typ':
                if last == 'Structure':
                    return st[o['s']]
                if last in ('IsCollection', 'IsTuple', 'IsElement'):
                    return o['s'] == {'IsCollection': 'collection', 'IsTuple': 'tuple', 'IsElement': 'basic'}[last]
                if last == 'B':
                    return Obj(__kind__='echelon-bool', typ=o)
                if last == 'T':
                    return Obj(__kind__='echelon-tuple', typ=o)
                if last == 'E':
                    return Obj(baseID=b'X1')
                if last == 'ConstVisit':
                    vis = it.eval(fn, S[n['args'][0]], env)

                    def walk(x):
                        it.call_lambda(vis, [x])
                        if x['s'] == 'collection':
                            walk(x['base'])
                        elif x['s'] == 'tuple':
                            for c in x['comps']:
                                walk(c)
                    walk(o)
                    return None
        if cs.startswith('ccl::rslang::EchelonBool::') and 'obj' in n:
            o = it.eval(fn, S[n['obj']], env)
            if last == 'Base':
                return o['typ']['base']
        if cs.startswith('ccl::rslang::EchelonTuple::') and 'obj' in n:
            o = it.eval(fn, S[n['obj']], env)
            if last == 'Arity':
                return len(o['typ']['comps'])
            if last == 'Component':
                i = it.eval(fn, S[n['args'][0]], env)
                if not (1 <= i <= len(o['typ']['comps'])):
                    raise OutOfFragment('tuple component %d of %d' % (i, len(o['typ']['comps'])))
                return o['typ']['comps'][i - 1]
            if last in ('begin', 'end'):
                return ('it', o['typ']['comps'], 0 if last == 'begin' else len(o['typ']['comps']))
        return NOT_HANDLED
    it = Interp(db, on_call=on_call, max_steps=100000)
    if name == 'AddEmpty':
        this = Obj(compact=[[]])
        it.call(f, [t], this)
        return len(this['compact'][-1])
    if name == 'SkipEmpty':
        this = Obj(pos_x=0, pos_y=0, input=[[]])
        it.call(f, [t], this)
        return this['pos_y']
    res = it.call(f, [t])
    return len(res) if isinstance(res, list) else None


def _roundtrip(db, rep, rule_prefix=''):
    """r3: Unpack(Pack(v, T), T) = v, with the packer and the unpacker both evaluated from their AST, on a family of typifications (sets of sets, tuples
    whose components are multi-element sets followed by further components, integers including negative ones, empty sets at every level)."""
    import itertools
    from rules import C03
    r3 = rep.rule(rule_prefix + 'r3', 'ROUND-TRIP: unpacking what the packer wrote for a value of type T gives the value back, for every value of a bounded family', 1)
    Tm, type_hook = C03.type_hooks(db)
    pack = db.fn(P + '::Pack', required=False)
    unpack = db.fn(U + '::Unpack', required=False)
    if pack is None or unpack is None:
        r3.broken('anchor vanished: Packer::Pack / Unpacker::Unpack')
        return
    ST = {e['name']: e['val'] for e in db.enum('ccl::rslang::StructureType')['enumerators']}
    O_ = 'ccl::object::'

    def V(v):
        return Obj(__kind__='sd', v=v)

    def kind(v):
        return 'basic' if isinstance(v, int) else 'tuple' if isinstance(v, tuple) else 'collection'

    def on_call(it, fn, n, env):
        cs = n.get('cs') or ''
        last = cs.split('::')[-1]
        S = fn.stmts

        def obj():
            o = it.eval(fn, S[n['obj']], env) if 'obj' in n else None
            if isinstance(o, tuple) and len(o) == 2 and o[0] == 'ptr':
                o = o[1]
            return o
        if cs.startswith(O_):
            if cs == O_ + 'Factory::Val':
                return V(it.eval(fn, S[n['args'][0]], env))
            if cs == O_ + 'Factory::EmptySet':
                return V(frozenset())
            if cs == O_ + 'Factory::Tuple':
                comps = it.eval(fn, S[n['args'][0]], env)
                return V(tuple(c['v'] for c in comps))
            o = obj()
            if isinstance(o, Obj) and o.get('__kind__') in ('sd', 'sdset', 'sdmod'):
                v = o['v'] if o['__kind__'] != 'sdmod' else None
                if last == 'Structure':
                    return ST[kind(v)]
                if last in ('E', 'T', 'B'):
                    if last == 'B' and kind(v) == 'collection':
                        if o.get('__set__') is None or o['__set__']['v'] != v:
                            o['__set__'] = Obj(__kind__='sdset', v=v, elems=[V(x) for x in sorted(v, key=repr)])
                        return o['__set__']          # one set object per value: begin() and end() of the same set must agree
                    return o
                if last == 'ModifyB':
                    return Obj(__kind__='sdmod', owner=o)
                if last == 'Value':
                    return v
                if last == 'Arity':
                    return len(v)
                if last == 'Component':
                    i = it.eval(fn, S[n['args'][0]], env)
                    if not (1 <= i <= len(v)):
                        raise OutOfFragment('data component %s of a %d-tuple' % (i, len(v)))
                    return V(v[i - 1])
                if last == 'IsEmpty':
                    return len(v) == 0
                if last == 'Cardinality':
                    return len(v)
                if last == 'AddElement':
                    e = it.eval(fn, S[n['args'][0]], env)['v']
                    owner = o['owner']
                    new = e not in owner['v']
                    owner['v'] = frozenset(set(owner['v']) | {e})
                    return new
        if n['k'] in ('CXXConstructExpr', 'CXXTemporaryObjectExpr') and (n.get('cls') or '').endswith('StructuredData') and len(n.get('args', [])) == 1:
            a = it.eval(fn, S[n['args'][0]], env)
            if isinstance(a, Obj) and a.get('__kind__') == 'sd':
                return V(a['v'])
            return a
        if cs.endswith('Typification::ConstVisit') and 'obj' in n:
            o = it.eval(fn, S[n['obj']], env)
            vis = it.eval(fn, S[n['args'][0]], env)

            def walk(t):
                it.call_lambda(vis, [Tm(t)])
                if t[0] == 'b':
                    walk(t[1])
                elif t[0] == 't':
                    for c in t[1]:
                        walk(c)
            walk(o['v'])
            return None
        if n['k'] == 'CXXOperatorCallExpr' and n.get('op') in ('*', '->') and 'PolyFCIterator' in (n.get('callee') or '') and n.get('args'):
            p_ = it.eval(fn, S[n['args'][0]], env)
            if isinstance(p_, tuple) and len(p_) == 3 and p_[0] == 'it':
                if not (0 <= p_[2] < len(p_[1])):
                    raise OutOfFragment('dereference of the end iterator of a set at %s' % fn.loc(n))
                return p_[1][p_[2]]
        if cs in ('std::begin', 'std::end') and n.get('args'):
            o = it.eval(fn, S[n['args'][0]], env)
            if isinstance(o, Obj) and o.get('__kind__') == 'sdset':
                return ('it', o['elems'], 0 if cs == 'std::begin' else len(o['elems']))
        if cs == '__assert_fail':
            return None
        if cs.startswith(('std::vector::',)) and last in ('emplace_back', 'push_back') and 'obj' in n and len(n.get('args', [])) == 1:
            o = it.eval(fn, S[n['obj']], env)
            v = it.eval(fn, S[n['args'][0]], env)
            if isinstance(o, list):
                o.append(list(v) if isinstance(v, list) else v)      # a vector element is a copy
                return v
        if cs.startswith('std::vector::') and last == 'pop_back' and 'obj' in n:
            o = it.eval(fn, S[n['obj']], env)
            if isinstance(o, list) and o:
                o.pop()
                return None
        return type_hook(it, fn, n, env)
    X, Z = ('e', 'X1'), ('e', 'Z')
    B = lambda t: ('b', t)
    Pt = lambda *ts: ('t', tuple(ts))
    fs = frozenset
    sets_x = [fs(), fs({1}), fs({1, 2}), fs({2, 5, 7})]
    family = [
        (X, [1, 7]), (Z, [0, 4, -3]),
        (B(X), sets_x), (B(Z), [fs(), fs({-3, 0, 4}), fs({-1})]),
        (B(B(X)), [fs(), fs({fs()}), fs({fs({1}), fs({1, 2})}), fs({fs(), fs({3})})]),
        (Pt(X, X), [(1, 2)]), (Pt(B(X), X), [(s, 9) for s in sets_x]),
        (Pt(B(X), X, X), [(s, 7, 8) for s in sets_x]),
        (Pt(B(X), B(X), B(X)), [(a, b, c) for a in sets_x[:3] for b in sets_x[:3] for c in sets_x[:3]]),
        (Pt(X, B(X), X, X), [(4, s, 5, 6) for s in sets_x]),
        (B(Pt(X, X)), [fs(), fs({(1, 2)}), fs({(1, 2), (1, 3), (2, 2)})]),
        (B(Pt(B(X), X, X)), [fs(), fs({(fs({1, 2}), 7, 8)}), fs({(fs(), 1, 1), (fs({1, 2}), 3, 4), (fs({5}), 3, 4)})]),
        (B(Pt(X, B(X))), [fs({(1, fs()), (2, fs({1, 2}))})]),
        (Pt(Pt(X, B(X)), B(Pt(X, X))), [((1, fs({2, 3})), fs({(1, 1), (2, 2)})), ((1, fs()), fs())]),
    ]
    bad, cases = None, 0

    def show(v):
        if isinstance(v, frozenset):
            return '{' + ', '.join(sorted(show(x) for x in v)) + '}'
        if isinstance(v, tuple):
            return '(' + ', '.join(show(x) for x in v) + ')'
        return str(v)
    # The decoder knows one reserved count ("unknown number of rows"). When that constant lies inside the range of real cardinalities the
    # round trip must also hold for a set of exactly that size; the constant is far too large to build such a set, so the whole family is
    # evaluated a second and third time with the constant scaled down to 2 and 3 (the code may only use it as a constant).
    marker_qn = O_ + 'SDCompact::unknownCount'
    mk = db.fn(marker_qn + '::<init>', required=False)
    inf = db.fn(O_ + 'StructuredData::SET_INFINITY::<init>', required=False)
    scales = [None]
    if mk is not None and inf is not None:
        mv = Interp(db).eval(mk, mk.stmts[mk.body], {})
        iv = Interp(db).eval(inf, inf.stmts[inf.body], {})
        if isinstance(mv, int) and isinstance(iv, int) and 0 <= mv <= iv:
            scales += [2, 3]
        rep.note('r3_reserved_count', {'value': mv, 'inside_cardinality_range': 0 <= mv <= iv if isinstance(mv, int) and isinstance(iv, int) else None})

    def mkint(scale):
        it_ = Interp(db, on_call=on_call, max_steps=200000)
        if scale is not None:
            it_.const_override = {marker_qn: scale}
        return it_
    try:
      for scale in scales:
        for t, values in family:
            for v in values:
                cases += 1
                pk = Obj(compact=[[]])
                table = mkint(scale).call(pack, [V(v), Tm(t)], pk)
                table = [list(r) for r in table]
                up = Obj(input=table, pos_x=0, pos_y=0)
                try:
                    back = mkint(scale).call(unpack, [Tm(t)], up)
                except OutOfFragment as e:
                    if str(e).startswith(('call to', 'expression kind', 'statement kind', 'unbound', 'field')):
                        raise
                    back = ('fault', str(e))
                got = back['v'] if isinstance(back, Obj) and 'v' in back else back
                if got != v and bad is None:
                    bad = 'value %s of type %s packs to %s and unpacks to %s%s' % (show(v), C03._show_t(t), table, 'nothing' if got is None else ('a fault: %s' % got[1] if isinstance(got, tuple) and got and got[0] == 'fault' else show(got)),
                                                                                 '' if scale is None else ' when the reserved count SDCompact::unknownCount is scaled to %d: a set with exactly unknownCount elements is read as "all remaining rows"' % scale)
    except OutOfFragment as e:
        r3.broken('packer/unpacker outside the evaluable fragment: %s' % e)
        return
    if bad:
        r3.violation('Pack/Unpack', '%s:%d' % (unpack.file, unpack.line), bad)
    else:
        r3.ok('Pack/Unpack', 'round trip holds on %d values of %d typifications' % (cases, len(family)), '%s:%d' % (unpack.file, unpack.line))
    # ---- CheckCompatible: the gate in front of the packer (rsValuesFacet::SetStructureData tests it before a value is stored or packed)
    cc = db.fn(O_ + 'CheckCompatible', required=False)
    r4 = rep.rule(rule_prefix + 'r4', 'COMPATIBLE: CheckCompatible(value, T) holds exactly when the value has the structure of T at every level and in every element (the packer dereferences the typification in step with the value)', 1)
    if cc is None:
        r4.broken('anchor vanished: ccl::object::CheckCompatible')
        return

    def compat(v, t):
        if t[0] == 'e':
            return isinstance(v, int)
        if t[0] == 'b':
            return isinstance(v, frozenset) and all(compat(x, t[1]) for x in v)
        return isinstance(v, tuple) and len(v) == len(t[1]) and all(compat(x, c) for x, c in zip(v, t[1]))
    probes = [(t, v) for t, vs in family for v in vs]
    probes += [
        (B(B(X)), fs({fs({1}), fs({(1, 2), (3, 4)})})),           # the second element is a set of pairs: packing it walks a basic type as a tuple
        (B(B(X)), fs({fs({(1, 2)}), fs({3})})),
        (B(X), fs({1, (2, 3)})), (B(X), fs({(2, 3), 4, 5})), (B(Pt(X, X)), fs({(1, 2), 3})), (B(Pt(X, X)), fs({(1, 2), (1, 2, 3)})),
        (Pt(X, X), (1, 2, 3)), (Pt(X, B(X)), (1, fs({2, (3, 4)}))), (X, fs()), (B(X), 3), (Pt(X, X), fs({1})),
        (B(Pt(B(X), X)), fs({(fs({1}), 2), (fs({(1, 1)}), 3)})),
    ]
    bad4, n4 = None, 0
    try:
        for t, v in probes:
            n4 += 1
            got = mkint(None).call(cc, [V(v), Tm(t)])
            want = compat(v, t)
            if bool(got) != want and bad4 is None:
                bad4 = 'CheckCompatible(%s, %s) is %s: the value %s the structure of the typification%s' % (
                    show(v), C03._show_t(t), bool(got), 'has' if want else 'does not have', '' if want else ' (only the first element of a set is inspected, so the packer then dereferences the wrong alternative)')
    except OutOfFragment as e:
        r4.broken('CheckCompatible outside the evaluable fragment: %s' % e)
        return
    if bad4:
        r4.violation('CheckCompatible', '%s:%d' % (cc.file, cc.line), bad4)
    else:
        r4.ok('CheckCompatible', 'agrees with structural compatibility on %d (typification, value) pairs, including heterogeneous sets' % n4, '%s:%d' % (cc.file, cc.line))
