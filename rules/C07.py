"""C07 — incremental schema re-analysis equals analysis from scratch after any edits.

The decidable necessary condition is the cache-refresh discipline of the two cache-bearing classes (Schema: parse info +
dependency graph; Thesaurus: resolved texts + term/definition graphs) — the "sync before acknowledge" shape.
 r1 REFRESH      every member function that writes a watched part of the storage reaches, on every path from the write to a
                 success exit, the refreshes that write requires (kind of write -> required refresh families, table below).
 r2 DEFERRED     the deferred loaders (Schema::Load / Thesaurus::Load / RSCore::Load) leave the object dirty; every caller chain
                 reaches UpdateState before returning to code outside the loader set.
 r3 ORDER        re-analysis walks dependency order and cannot stop early: TriggerParse = ParseCst(target) then all of
                 Sort(ExpandOutputs({target})); UpdateState = ResetInfo then all of TopologicalOrder(); Graph()/TermGraph()/DefGraph()
                 rebuild completely when broken; OnTermChange refreshes the term closure and the definitions of the whole closure.
 r4 INFO         ParseCst resets the record before filling it, fills it from the same auditor run; only the listed functions write `info`.
Not decided: that ExtractUGlobals finds exactly the dependencies; equality of results (needs both runs).
"""
from engine.cfgq import call_sites, paths_avoiding, success_exits, enumerate_paths, describe_pos
from engine.modset import ModSets
from engine.shape import Keyer
from engine.facts import AnalysisBroken

UNITS = ['CCL', 'CGraph', 'cclLang']
S = 'ccl::semantic::'
SCHEMA = S + 'Schema'
THES = S + 'Thesaurus'


def _graph_call(f, n, graphs, names):
    if n['k'] != 'CXXMemberCallExpr' or 'obj' not in n:
        return False
    if (n.get('cs') or '').split('::')[-1] not in names:
        return False
    r = f.root_of(f.stmts[n['obj']])
    return r[0] in ('this', 'this-field') and r[-1][:1] and r[-1][0] in graphs


def _classify_schema(f, ev):
    fld, how, n, path = ev
    if fld != 'storage':
        return None
    last = path[-1]
    if how == 'assign' and last in ('alias',):
        return 'alias'
    if how == 'assign' and last == 'definition':
        return 'definition'
    if how == 'assign' and last == 'type':
        return 'type'
    if how == 'assign' and last == 'convention':
        return None
    if how.startswith('call') and how.endswith(':Translate'):
        return 'definition'
    if how in ('std:emplace', 'std:insert', 'std:erase', 'std:insert_or_assign', 'std:try_emplace', 'map[]', 'std:clear') or (how == 'assign' and last in ('op[]', 'storage')):
        return 'membership'
    if how in ('assign', 'opassign') and len(path) == 1:
        return 'membership'
    return None


def _classify_thes(f, ev):
    fld, how, n, path = ev
    if fld != 'storage':
        return None
    last = path[-1]
    name = how.split(':')[-1] if how.startswith('call') else ''
    if how == 'assign' and last == 'alias':
        return 'alias'
    if name in ('SetText',) or (name in ('TranslateRefs', 'TranslateRaw') and 'term' in path):
        return 'term-text'
    if name == 'SetForm':
        return 'term-form'
    if name in ('InitFrom', 'SetRaw') or (name in ('TranslateRefs', 'TranslateRaw') and 'definition' in path):
        return 'definition'
    if name in ('Translate',):
        return 'term-text+definition'
    if how in ('std:emplace', 'std:insert', 'std:erase', 'map[]', 'std:clear', 'std:insert_or_assign') or (how == 'assign' and last in ('op[]', 'storage')):
        return 'membership'
    if how in ('assign', 'opassign') and len(path) == 1:
        return 'membership'
    return None


# kind of write -> list of (family label, predicate factory)
def _families_schema(db, f):
    full_parse = lambda n: n.get('cs') in (SCHEMA + '::UpdateState', SCHEMA + '::TranslateAll')
    any_parse = lambda n: n.get('cs') in (SCHEMA + '::UpdateState', SCHEMA + '::TranslateAll', SCHEMA + '::TriggerParse', SCHEMA + '::Translate')
    full_graph = lambda n: _graph_call(f, n, ('graph',), ('Invalidate',))
    any_graph = lambda n: _graph_call(f, n, ('graph',), ('Invalidate', 'UpdateFor', 'EraseItem'))
    reset_info = lambda n: n.get('cs') in (SCHEMA + '::ResetInfo', SCHEMA + '::UpdateState', SCHEMA + '::TranslateAll')
    return {
        'alias': [('whole-graph rebuild (graph.Invalidate)', full_graph), ('full re-analysis (UpdateState/TranslateAll)', full_parse)],
        'definition': [('graph refresh for the constituent (UpdateFor/Invalidate)', any_graph), ('re-analysis of the constituent and its dependants (TriggerParse/UpdateState)', any_parse)],
        'type': [('full re-analysis (UpdateState)', full_parse)],
        'membership': [('whole-graph rebuild or item removal (graph.Invalidate/EraseItem)', lambda n: _graph_call(f, n, ('graph',), ('Invalidate', 'EraseItem'))), ('full re-analysis (UpdateState)', full_parse)],
        'membership-deferred': [('whole-graph rebuild (graph.Invalidate)', full_graph), ('parse info reset (ResetInfo)', reset_info)],
    }


def _families_thes(db, f):
    upd = lambda n: n.get('cs') in (THES + '::UpdateState', THES + '::TranslateAll')
    term_refresh = lambda n: n.get('cs') in (THES + '::UpdateState', THES + '::TranslateAll', THES + '::OnTermChange', THES + '::Translate', THES + '::TranslateTerm')
    tg_full = lambda n: _graph_call(f, n, ('termGraph',), ('Invalidate', 'EraseItem'))
    dg_full = lambda n: _graph_call(f, n, ('defGraph',), ('Invalidate', 'EraseItem'))
    tg_any = lambda n: _graph_call(f, n, ('termGraph',), ('Invalidate', 'UpdateFor', 'EraseItem'))
    dg_any = lambda n: _graph_call(f, n, ('defGraph',), ('Invalidate', 'UpdateFor', 'EraseItem'))
    return {
        'alias': [('term graph rebuild', tg_full), ('definition graph rebuild', dg_full), ('full re-resolution (UpdateState/TranslateAll)', upd)],
        'term-text': [('term graph refresh', tg_any), ('re-resolution of dependants (OnTermChange/UpdateState)', term_refresh)],
        'term-form': [('re-resolution of dependants (OnTermChange/UpdateState)', term_refresh)],
        'definition': [('definition graph refresh', dg_any)],
        'term-text+definition': [('term graph refresh', tg_any), ('definition graph refresh', dg_any), ('re-resolution of dependants (OnTermChange/UpdateState)', term_refresh)],
        'membership': [('term graph rebuild/item removal', tg_full), ('definition graph rebuild/item removal', dg_full), ('full re-resolution (UpdateState)', upd)],
        'membership-deferred': [('term graph rebuild', tg_full), ('definition graph rebuild', dg_full)],
    }


DEFERRED = {SCHEMA + '::Load', THES + '::Load'}
SPECIAL_MEMBERS_OK = 'copy/move members rebuild or invalidate the graph themselves'


def _sorted_by_weak_order(db, rule):
    """r3 sort-comparators: std::sort / std::stable_sort need a strict weak ordering (incomparability must be transitive). Reachability in the
    dependency graph is only a partial order: a and c can both be unrelated to b and still be related to each other, so a sort by
    `IsReachableFrom` may leave a dependant in front of what it depends on (and is undefined behaviour). A dependency order comes from
    TopologicalSort; a comparator that asks the graph is reported."""
    GR = ('IsReachableFrom', 'ConnectionExists', 'ExpandOutputs', 'ExpandInputs', 'InputsFor', 'OutputsFor')
    n = 0
    for f in db.functions:
        if f.rec.get('dependent'):
            continue
        for c in f.calls():
            cs = c.get('cs') or ''
            if cs not in ('std::sort', 'std::stable_sort', 'std::ranges::sort', 'std::ranges::stable_sort', 'std::partial_sort', 'std::nth_element'):
                continue
            n += 1
            inst = 'sort:%s' % '::'.join(f.name.split('::')[-2:])
            asks = [x for a in c.get('args', [])[2:] for x in f.walk(f.stmts[a]) if (x.get('cs') or '').startswith('ccl::graph::') and (x.get('cs') or '').split('::')[-1] in GR]
            if asks:
                rule.violation(inst, f.loc(c), '%s orders entities with a comparator that asks the graph (`%s`): reachability is a partial order, not the strict weak ordering std::sort requires - constituents that do not depend on each other are "equivalent" to both ends of a dependency, so a dependant can end up re-analysed before what it depends on' % (f.name.split('::')[-1], (asks[0].get('txt') or asks[0].get('cs'))[:60]))
            else:
                rule.ok(inst, 'sorted by a total order on the values (%s)' % ('default <' if len(c.get('args', [])) <= 2 else 'comparator without graph queries'), f.loc(c), nontrivial=False)
    rule.ok('sort-comparators', '%d sorting call(s) in the analysed units, none ordered by graph reachability' % n, '')


def deferred_rule(db, r2):
    """C07 r2 (shared with C12 r13): a caller of a deferred loader reaches UpdateState on every path to a successful return"""
    loaders = {SCHEMA + '::Load', THES + '::Load', S + 'RSCore::Load', S + 'RSForm::Load', S + 'RSModel::Load'}
    upd = {SCHEMA + '::UpdateState', THES + '::UpdateState', S + 'RSCore::UpdateState', S + 'RSForm::UpdateState', S + 'RSModel::UpdateState', S + 'RSModel::FinalizeLoadingCore'}
    for f in db.functions:
        if f.rec.get('dependent') or not f.has_cfg():
            continue
        sites = call_sites(f, lambda n: n.get('cs') in loaders)
        if not sites:
            continue
        inst = 'caller:' + '::'.join(f.name.split('::')[-2:])
        if f.name in loaders:
            r2.ok(inst, 'forwarding loader (stays dirty by contract)', '%s:%d' % (f.file, f.line), nontrivial=False)
            continue
        us = [p for p, _ in call_sites(f, lambda n: n.get('cs') in upd)]
        exits = success_exits(f, failure_literals=())
        bad = paths_avoiding(f, [p for p, _ in sites], us, exits)
        if bad:
            r2.violation(inst, f.loc(sites[0][1]), '%s loads records with the deferred loader and can return without UpdateState: parse results and resolved texts are missing or stale' % f.name.split('::')[-1])
        else:
            r2.ok(inst, 'UpdateState reached on every path after loading', '%s:%d' % (f.file, f.line))


def check(db, rep):
    rep.explanation = ('Cache-refresh discipline of Schema and Thesaurus: each kind of storage write must be followed, on every path to a success exit, by the refresh families it requires; '
                       'deferred loaders are a typestate (dirty until UpdateState); re-analysis walks dependency order without early exits.')
    M = ModSets(db)
    r1 = rep.rule('r1', 'REFRESH: every write of a watched storage part is followed on every path to a success exit by the refreshes that kind of write requires', 20)
    refresh_rule(db, rep, r1, M, ((SCHEMA, _classify_schema, _families_schema), (THES, _classify_thes, _families_thes)))
    _rest(db, rep, M)
    r7 = rep.rule('r7', 'RESET-COMPLETE / FORMS-FOLLOW-TEXT: ParsingInfo::Reset (interpreted) leaves every field of the record as a new record has it; LexicalTerm drops its cached word forms on every path of every method that re-resolves or replaces its text', 2)
    reset_complete_rule(db, r7)
    forms_follow_text_rule(db, r7)
    r6 = rep.rule('r6', 'AUDIT-ON-RESET-STATE: the incremental re-analysis audits constituents in the state the from-scratch analysis audits them in - the parse records of the edited constituent and all its dependants are cleared before any of them is audited', 2)
    stale_audit_rule(db, r6)
    # the incremental graph maintenance the schema relies on (shared with C14 r6 / r1): a per-constituent update must drop the old edges
    r5 = rep.rule('r5', 'GRAPH-UPDATE (shared with C14): UpdateFor replaces the inputs of the item by updater(item) on every path with a sound graph; SetItemInputs drops the old inputs on every path', 2)
    from rules import C14
    C14.updater_rule(db, r5)
    C14.replace_rule(db, r5)


def refresh_rule(db, rep, r1, M, classes):
    for cls, classify, fams in classes:
        short = cls.split('::')[-1]
        n_mut = 0
        for f in db.methods_of(cls):
            if not f.has_cfg() or f.rec.get('const'):
                continue
            evs = []
            for ev in M.direct_events(f):
                kind = classify(f, ev)
                if kind is not None:
                    evs.append((kind, ev))
            if not evs:
                continue
            n_mut += 1
            if f.rec.get('ctor') or f.name.split('::')[-1] == 'operator=':
                _special_member(r1, f, short)
                continue
            fam_table = fams(db, f)
            exits = success_exits(f)
            same_tree_stale = []
            for kind, ev in evs:
                k2 = kind
                if f.name in DEFERRED and kind == 'membership':
                    k2 = 'membership-deferred'
                n = ev[2]
                p = f.position_of(n)
                inst = '%s::%s:%s' % (short, f.name.split('::')[-1], kind)
                missing = []
                for label, pred in fam_table[k2]:
                    sites = [q for q, _ in call_sites(f, pred)]
                    bad = paths_avoiding(f, [p], sites, exits)
                    # also accept a refresh that dominates the write when the refresh is an invalidation (lazy rebuild happens later)
                    if bad and 'rebuild' in label:
                        if sites and not paths_avoiding(f, [f.graph()[1]], sites, [(p, '')]):
                            bad = []
                    if bad:
                        # frozen exception: identical syntax tree -> nothing to refresh
                        paths = enumerate_paths(f, p, [bad[0][1]], avoid=sites, limit=50)
                        if paths and all(_same_tree_exception(f, path) for path in paths):
                            # nothing else depends on the layout of the text, but the constituent's own record does: the stored tree carries
                            # token positions, and a schema built from the same content reports the positions of the stored text
                            own = [q for q, _ in call_sites(f, lambda n_: n_.get('cs') in (SCHEMA + '::ParseCst', SCHEMA + '::TriggerParse', SCHEMA + '::UpdateState', SCHEMA + '::TranslateAll', SCHEMA + '::Translate'))]
                            if paths_avoiding(f, [p], own, exits):
                                same_tree_stale.append((n, kind))
                            continue
                        missing.append(label)
                if missing:
                    r1.violation(inst, f.loc(n), 'after `%s` (%s change) a success exit is reachable without %s: the cached analysis goes stale' % (n.get('txt', '')[:60], kind, ' and without '.join(missing)))
                else:
                    r1.ok(inst, 'followed by ' + ', '.join(l for l, _ in fam_table[k2]), f.loc(n))
            if same_tree_stale:
                n, kind = same_tree_stale[0]
                r1.violation('%s::%s:same-tree-positions' % (short, f.name.split('::')[-1]), f.loc(n),
                             'after `%s` the path taken when the new text has the same syntax tree stores the text but never re-parses the constituent itself: the reported tree keeps the token positions of the '
                             'previous text ("X1   ∪   X1" -> "X1∪X1": positions 14-16 in a 10-character text), a schema built from the same content reports 8-10' % n.get('txt', '')[:60])
            elif f.name.endswith('Schema::SetDefinitionFor'):
                r1.ok('%s::%s:same-tree-positions' % (short, f.name.split('::')[-1]), 'the same-tree path re-parses the constituent itself (or there is no such path)', '%s:%d' % (f.file, f.line))
        rep.note('mutators_' + short, n_mut)

def _rest(db, rep, M):
    # ------------------------------------------------------------------ r2
    r2 = rep.rule('r2', 'DEFERRED: every caller of a deferred loader either is a loader itself or reaches UpdateState before returning', 3)
    deferred_rule(db, r2)

    # ------------------------------------------------------------------ r3
    r3 = rep.rule('r3', 'ORDER: re-analysis routines walk the whole dependency order without early exit; lazy graphs rebuild completely; OnTermChange refreshes terms and definitions of the whole closure', 7)
    _loop_all(db, r3, SCHEMA + '::TriggerParse', G + '::Sort', SCHEMA + '::ParseCst', first_call=SCHEMA + '::ParseCst', closure=G + '::ExpandOutputs')
    _loop_all(db, r3, SCHEMA + '::UpdateState', G + '::TopologicalOrder', SCHEMA + '::ParseCst', first_call=SCHEMA + '::ResetInfo')
    _loop_all(db, r3, THES + '::UpdateState', G + '::TopologicalOrder', None)
    for name, gfield in ((SCHEMA + '::Graph', 'graph'), (THES + '::TermGraph', 'termGraph'), (THES + '::DefGraph', 'defGraph')):
        f = db.fn(name)
        inst = '::'.join(name.split('::')[-2:])
        clear = call_sites(f, lambda n: _graph_call(f, n, (gfield,), ('Clear',)))
        valid = call_sites(f, lambda n: _graph_call(f, n, (gfield,), ('SetValid',)))
        upd_ = call_sites(f, lambda n: _graph_call(f, n, (gfield,), ('UpdateFor',)))
        loops = [n for n in f.walk() if n['k'] == 'CXXForRangeStmt']
        ok = clear and valid and upd_ and len(loops) == 1 and any(a['id'] == loops[0]['id'] for a in f.ancestors(upd_[0][1]))
        if ok:
            # the loop ranges over the whole storage
            rng = f.stmts[loops[0]['range']]
            roots = {x.get('member') for x in f.walk(rng) if x['k'] == 'MemberExpr'} | {x['k'] for x in f.walk(rng)}
            whole = 'storage' in roots or 'CXXThisExpr' in roots
            # SetValid must precede UpdateFor (UpdateFor is a no-op while invalid)
            order_ok = not paths_avoiding(f, [f.graph()[1]], [valid[0][0]], [(upd_[0][0], '')])
            if whole and order_ok:
                r3.ok(inst, 'broken graph is cleared, validated, then refilled from every stored constituent', '%s:%d' % (f.file, f.line))
            else:
                r3.violation(inst, '%s:%d' % (f.file, f.line), 'lazy rebuild %s' % ('does not iterate the whole storage' if not whole else 'calls UpdateFor while the graph is still marked invalid (UpdateFor is then a no-op)'))
        else:
            r3.violation(inst, '%s:%d' % (f.file, f.line), 'lazy rebuild of %s is not Clear + SetValid + UpdateFor for every constituent' % gfield)
    _on_term_change(db, r3)
    _sorted_by_weak_order(db, r3)

    # ------------------------------------------------------------------ r4
    r4 = rep.rule('r4', 'INFO: ParseCst resets the record before filling it and fills it from the same auditor run; only listed functions write `info`', 3)
    pc = db.fn(SCHEMA + '::ParseCst')
    chk = call_sites(pc, lambda n: n.get('cs') == S + 'SchemaAuditor::CheckConstituenta')
    rst = call_sites(pc, lambda n: n.get('cs') == S + 'ParsingInfo::Reset')
    sav = call_sites(pc, lambda n: n.get('cs') == SCHEMA + '::SaveInfoTo')
    if len(chk) == 1 and rst and sav:
        ok1 = not paths_avoiding(pc, [pc.graph()[1]], [rst[0][0]], [(sav[0][0], '')])
        ok2 = not paths_avoiding(pc, [pc.graph()[1]], [chk[0][0]], [(sav[0][0], '')])
        K = Keyer(pc)
        args = [K.key(pc.stmts[a]) for a in chk[0][1]['args']]
        fields = [a[1] if isinstance(a, tuple) and a[0] == '.' else None for a in args]
        if ok1 and ok2 and fields == ['alias', 'definition', 'type']:
            r4.ok('ParseCst', 'CheckConstituenta(alias, definition, type) -> Reset -> SaveInfoTo', '%s:%d' % (pc.file, pc.line))
        else:
            r4.violation('ParseCst', '%s:%d' % (pc.file, pc.line), 'ParseCst must check (alias, definition, type) of the constituent, reset its record and then save the results of that run; found arguments %s' % fields)
    else:
        r4.violation('ParseCst', '%s:%d' % (pc.file, pc.line), 'ParseCst no longer has the shape check -> reset -> save')
    sv = db.fn(SCHEMA + '::SaveInfoTo')
    written = sorted({x.get('member') for n in sv.walk() if n['k'] in ('BinaryOperator', 'CXXOperatorCallExpr') and n.get('op') == '=' for x in [sv.strip((sv.children(n) if n['k'] == 'BinaryOperator' else [sv.stmts[a] for a in n['args']])[0])] if x and x['k'] == 'MemberExpr'})
    need = ['arguments', 'ast', 'exprType', 'valueClass']
    if all(w in written for w in need):
        r4.ok('SaveInfoTo', 'stores %s' % ', '.join(need), '%s:%d' % (sv.file, sv.line))
    else:
        r4.violation('SaveInfoTo', '%s:%d' % (sv.file, sv.line), 'analysis results %s are not stored in the parse record' % [w for w in need if w not in written])
    allowed = {'ParseCst', 'SaveInfoTo', 'ResetInfo', 'Emplace', 'Insert', 'InsertCopy', 'Load', 'Erase', 'Schema', 'operator='}
    writers = set()
    for f in db.methods_of(SCHEMA):
        evs = [ev for ev in M.direct_events(f) if ev[0] == 'info']
        if evs and not all(ev[1] == 'call:Reset' for ev in evs):      # clearing a record is always allowed: it only forces a re-analysis
            writers.add(f.name.split('::')[-1])
    extra = writers - allowed
    if extra:
        r4.violation('info-writers', SCHEMA, 'parse records are also written by %s' % sorted(extra))
    else:
        r4.ok('info-writers', 'writers: %s' % sorted(writers))


G = 'ccl::graph::CGraph'


def _same_tree_exception(f, path):
    """SetDefinitionFor: the only refresh-free path is the one where the new text has the identical syntax tree (realChange false),
    and realChange is computed from FindExpr(new text) against the constituent's own uid."""
    if not f.name.endswith('Schema::SetDefinitionFor'):
        return False
    for c, pol in path:
        c2 = f.strip(c)
        if c2['k'] == 'DeclRefExpr' and c2.get('name') == 'realChange' and pol is False:
            al = [d for s in f.rec['stmts'] if s['k'] == 'DeclStmt' for d in s.get('decls', []) if d['name'] == 'realChange']
            if al and 'init' in al[0]:
                init = f.stmts[al[0]['init']]
                names = {x.get('name') for x in f.walk(init) if x['k'] == 'DeclRefExpr'} | {x.get('member') for x in f.walk(init) if x['k'] == 'MemberExpr'}
                cp = [d for s in f.rec['stmts'] if s['k'] == 'DeclStmt' for d in s.get('decls', []) if d['name'] == 'copyID']
                from_find = cp and 'init' in cp[0] and any(c.get('cs') == SCHEMA + '::FindExpr' for c in f.calls(f.stmts[cp[0]['init']]))
                if 'copyID' in names and 'uid' in names and from_find:
                    return True
    return False


def _special_member(r1, f, short):
    inst = '%s::%s(special)' % (short, f.name.split('::')[-1])
    txt = ' '.join(n.get('txt', '') for n in f.calls())
    ok = any((n.get('cs') or '').split('::')[-1] in ('Invalidate', 'Clear', 'UpdateState') for n in f.calls()) or f.rec.get('defaulted')
    # constructors that build a fresh object have nothing cached yet
    if ok or f.rec.get('ctor'):
        r1.ok(inst, SPECIAL_MEMBERS_OK, '%s:%d' % (f.file, f.line), nontrivial=False)
    else:
        r1.violation(inst, '%s:%d' % (f.file, f.line), 'assignment replaces the storage without invalidating the dependency graph')


def _loop_all(db, r3, fname, order_callee, body_callee, first_call=None, closure=None):
    f = db.fn(fname)
    inst = '::'.join(fname.split('::')[-2:])
    loops = [n for n in f.walk() if n['k'] == 'CXXForRangeStmt']
    K = Keyer(f)
    good = []
    for lp in loops:
        rk = f.stmts[lp['range']]
        rng_calls = {c.get('cs') for c in f.calls(rk)}
        # the range may be a local initialised from the order call
        for x in f.walk(rk):
            if x['k'] == 'DeclRefExpr' and x.get('dk') == 'local':
                for s in f.rec['stmts']:
                    if s['k'] == 'DeclStmt':
                        for d in s.get('decls', []):
                            if d.get('did') == x.get('did') and 'init' in d:
                                rng_calls |= {c.get('cs') for c in f.calls(f.stmts[d['init']])}
        if order_callee in rng_calls:
            good.append(lp)
    if not good:
        r3.violation(inst, '%s:%d' % (f.file, f.line), '%s does not iterate %s: re-analysis is not in dependency order' % (inst, order_callee.split('::')[-1]))
        return
    # no exit before the (first) ordered loop: every path from entry to an exit passes the loop range evaluation
    lpos = f.position_of(f.stmts[good[0]['range']])
    exits = [((bid, len(f.blocks[bid]['el'])), k) for bid, k, node in f.exit_kinds()]
    if paths_avoiding(f, [f.graph()[1]], [lpos], exits):
        r3.violation(inst, '%s:%d' % (f.file, f.line), '%s can return before walking %s: dependants are left with stale analysis' % (inst, order_callee.split('::')[-1]))
        return
    if body_callee:
        inner = [n for n in f.calls(f.stmts[good[0]['body']]) if n.get('cs') == body_callee]
        if not inner:
            r3.violation(inst, f.loc(good[0]), 'the ordered loop does not call %s' % body_callee.split('::')[-1])
            return
        # the loop may skip only the target itself
        conds = [c for c in f.walk(f.stmts[good[0]['body']]) if c['k'] == 'IfStmt']
        for c in conds:
            kk = K.key(f.stmts[c['cond']])
            params = {p['name'] for p in f.rec['params']}
            lv = f.stmts[good[0]['loopvar']]['decls'][0]['name']
            if not (isinstance(kk, tuple) and kk[0] == 'Bop' and kk[1] == '!=' and {kk[3], kk[4]} == {('var', lv), ('var', list(params)[0])} if len(params) == 1 else False):
                r3.violation(inst, f.loc(c), 'a dependant can be skipped by the condition `%s`' % f.stmts[c['cond']].get('txt', '')[:60])
                return
    if first_call:
        fp = [p for p, _ in call_sites(f, lambda n: n.get('cs') == first_call and not any(a['id'] == good[0]['id'] for a in f.ancestors(n)))]
        if not fp or paths_avoiding(f, [f.graph()[1]], fp, [(lpos, '')]):
            r3.violation(inst, '%s:%d' % (f.file, f.line), '%s is not called before the ordered walk' % first_call.split('::')[-1])
            return
    if closure:
        cl = [n for n in f.calls() if n.get('cs') == closure]
        params = [p['name'] for p in f.rec['params']]
        ok = cl and any(x['k'] == 'DeclRefExpr' and x.get('name') in params for x in f.walk(cl[0]))
        if not ok:
            r3.violation(inst, '%s:%d' % (f.file, f.line), 'dependants are not taken from %s seeded with the target' % closure.split('::')[-1])
            return
    r3.ok(inst, 'walks %s completely%s' % (order_callee.split('::')[-1], ', after ' + first_call.split('::')[-1] if first_call else ''), '%s:%d' % (f.file, f.line))


def _on_term_change(db, r3):
    f = db.fn(THES + '::OnTermChange')
    K = Keyer(f, resolve_refs=False)
    eo = [n for n in f.calls() if n.get('cs') == G + '::ExpandOutputs']
    target = f.rec['params'][0]['name']
    inst = 'Thesaurus::OnTermChange'
    if len(eo) != 2:
        r3.violation(inst, '%s:%d' % (f.file, f.line), 'expected the term closure and the definition closure (two ExpandOutputs calls), found %d' % len(eo))
        return
    first, second = sorted(eo, key=lambda n: (n['line'], n['col']))
    g1 = [c.get('cs') for c in f.calls(first)]
    g2 = [c.get('cs') for c in f.calls(second)]
    a1 = {x.get('name') for x in f.walk(f.stmts[first['args'][0]]) if x['k'] == 'DeclRefExpr'}
    a2 = {x.get('name') for x in f.walk(f.stmts[second['args'][0]]) if x['k'] == 'DeclRefExpr'}
    # which local holds the first closure?
    holder = None
    for s in f.rec['stmts']:
        if s['k'] == 'DeclStmt':
            for d in s.get('decls', []):
                if 'init' in d and any(x['id'] == first['id'] for x in f.walk(f.stmts[d['init']])):
                    holder = d['name']
    problems = []
    if THES + '::TermGraph' not in g1 or target not in a1:
        problems.append('term closure is not TermGraph().ExpandOutputs({target})')
    if THES + '::DefGraph' not in g2:
        problems.append('definition closure is not taken from DefGraph()')
    if holder is None or holder not in a2:
        problems.append('definitions are refreshed for ExpandOutputs(%s) instead of the whole term closure: definitions that mention an indirectly affected term stay stale' % sorted(a2))
    # the loops that refresh (a loop that only drops cached resolutions before the refresh is not counted)
    loops = [n for n in f.walk() if n['k'] == 'CXXForRangeStmt' and any((c.get('cs') or '').endswith('::UpdateFrom') for c in f.calls(f.stmts[n['body']]))]
    upd = [n for n in f.calls() if (n.get('cs') or '').endswith('::UpdateFrom')]
    if len(loops) != 2 or len(upd) != 2:
        # the term loop may live in a helper that resolves loops of references as a unit: then the terms are decided by evaluation
        # (Thesaurus::OnTermChange interpreted: a chain t1 <- t2 <- t3 is refreshed through to t3, loops are idempotent) and only the
        # definition loop is required here
        class _Probe:
            def __init__(self):
                self.bad = []
            def ok(self, *a, **k):
                pass
            def violation(self, inst, where, msg):
                self.bad.append((inst, msg))
            def broken(self, msg):
                self.bad.append(('broken', msg))
        probe = _Probe()
        from rules import C17
        C17.resolution_idempotent_rule(db, probe)
        def_loops = [n for n in loops if any((c.get('cs') or '').endswith('::UpdateFrom') and 'definition' in (c.get('txt') or '') for c in f.calls(f.stmts[n['body']]))]
        if probe.bad:
            problems.append('expected one refresh loop over terms and one over definitions (and the evaluated refresh does not hold: %s)' % probe.bad[0][1][:120])
        elif len(def_loops) != 1:
            problems.append('expected one refresh loop over the definitions of the whole closure')
    else:
        sorted_first = any(c.get('cs') == G + '::Sort' for c in f.calls())
        if not sorted_first:
            problems.append('terms are not refreshed in dependency order (Sort)')
    if problems:
        r3.violation(inst, '%s:%d' % (f.file, f.line), '; '.join(problems))
    else:
        r3.ok(inst, 'terms of the closure in dependency order, then definitions of the whole closure', '%s:%d' % (f.file, f.line))


def stale_audit_rule(db, rule):
    """AUDIT-ON-RESET-STATE (shared with C11, C13): the from-scratch analysis (UpdateState) clears every parse record before it audits
    constituents in dependency order; the auditor resolves the type of a mentioned global from those records. The incremental path must audit
    in the same kind of state: every call of Schema::ParseCst has to be dominated, in its caller, by a bulk reset of the records (ResetInfo, or
    a loop that resets the record of every member of the dependants' closure of the edited constituent). Otherwise a definition is checked
    against the outdated type of a dependant - or of itself - and a dependency loop created by the edit stays VERIFIED."""
    from engine.cfgq import paths_avoiding
    pc = db.fn(SCHEMA + '::ParseCst', required=False)
    if pc is None:
        rule.broken('anchor vanished: Schema::ParseCst')
        return
    callers = [f for f in db.methods_of(SCHEMA) if f.body >= 0 and any(n.get('cs') == SCHEMA + '::ParseCst' for n in f.calls())]
    if not callers:
        rule.broken('Schema::ParseCst has no caller')
        return
    for f in callers:
        inst = f.name.split('::')[-1]
        parse_calls = [n for n in f.calls() if n.get('cs') == SCHEMA + '::ParseCst']
        # the layout-only refresh: a re-audit of the edited constituent alone on the path where the new text has the same syntax tree. Nothing the
        # audit reads has changed except, possibly, the constituent's own record, so that record has to be cleared first (then the audit runs in
        # the state the from-scratch analysis audits this constituent in: every record it reads is current, its own is empty).
        from engine.cfgq import dominating_guards
        for n in list(parse_calls):
            pos = f.position_of(n)
            if pos is None or not _same_tree_exception(f, dominating_guards(f, pos)):
                continue
            arg = (f.stmts[n['args'][0]].get('txt') or '?') if n.get('args') else '?'
            own_reset = [f.position_of(c) for c in f.calls() if (c.get('cs') or '').endswith('ParsingInfo::Reset') and 'obj' in c
                         and arg in (f.stmts[c['obj']].get('txt') or '') and _same_tree_exception(f, dominating_guards(f, f.position_of(c)) if f.position_of(c) is not None else [])]
            own_reset = [q for q in own_reset if q is not None]
            if own_reset and not paths_avoiding(f, [f.graph()[1]], own_reset, [(pos, '')]):
                rule.ok(inst + ':same-tree', 'the layout-only re-audit of `%s` is preceded by the reset of its own record' % arg, f.loc(n))
                parse_calls.remove(n)
        if not parse_calls:
            continue
        parse_pos = [f.position_of(n) for n in parse_calls]
        resets = []
        for n in f.calls():
            if n.get('cs') == SCHEMA + '::ResetInfo':
                resets.append((f.position_of(n), 'ResetInfo()'))
        for lp in [x for x in f.walk() if x['k'] == 'CXXForRangeStmt']:
            body_calls = list(f.calls(f.stmts[lp['body']]))
            if any((c.get('cs') or '').endswith('ParsingInfo::Reset') for c in body_calls) and not any(c.get('cs') == SCHEMA + '::ParseCst' for c in body_calls):
                rng = f.strip(f.stmts[lp['range']])
                closure = False
                if rng is not None and rng['k'] == 'DeclRefExpr':
                    for s0 in f.rec['stmts']:
                        if s0['k'] == 'DeclStmt':
                            for d in s0.get('decls', []):
                                if d.get('did') == rng.get('did') and 'init' in d and any((c.get('cs') or '').endswith('::ExpandOutputs') for c in f.calls(f.stmts[d['init']])):
                                    closure = True
                if rng is not None and (closure or (rng['k'] == 'MemberExpr' and rng.get('member') == 'info')):
                    # the loop is left on every path to the audit: its exit position dominates
                    resets.append((f.position_of(f.stmts[lp['range']]), 'a loop resetting the records of the closure of the edited constituent'))
        resets = [(p, w) for p, w in resets if p is not None]
        entry = f.graph()[1]
        ok_by = None
        for p, w in resets:
            if not paths_avoiding(f, [entry], [p], [(q, '') for q in parse_pos if q is not None]):
                ok_by = w
                break
        if ok_by:
            rule.ok(inst, 'every ParseCst call is preceded by %s' % ok_by, '%s:%d' % (f.file, f.line))
        else:
            rule.violation(inst, '%s:%d' % (f.file, f.line), '%s audits a constituent while the parse records of its dependants (and its own) still hold the results of the previous definition: `D1 := X1`, `D2 := D1`, then D1 := D2∪D2 is checked against the old type of D2 and both stay VERIFIED (a fresh analysis marks both INCORRECT); D1 := ℬ(D1) is accepted against its own old type' % inst)


def reset_complete_rule(db, rule):
    """(shared with C03) ParsingInfo::Reset interpreted on a record whose every field holds something: afterwards each field equals the field
    of a default-constructed record. The re-analysis resets a record and then writes only what the new check produced (SaveInfoTo writes the
    argument list only when there is one), so a field the reset forgets survives from the previous definition."""
    from engine.evalmini import Interp, Obj, OutOfFragment
    cls = S + 'ParsingInfo'
    f = db.fn(cls + '::Reset', required=False)
    rec = db.records.get(cls)
    if f is None or rec is None or not rec.get('fields'):
        rule.broken('anchor vanished: ParsingInfo::Reset')
        return
    try:
        fresh = Interp(db).default_construct(cls)
        o = Obj(__cls__=cls)
        for i, fld in enumerate(rec['fields']):
            o[fld['name']] = Obj(sentinel=i) if ('optional' in fld['type'] or 'Ptr' in fld['type'] or 'ptr' in fld['type']) else 7 + i
        Interp(db).call(f, [], o)
    except OutOfFragment as e:
        rule.broken('ParsingInfo::Reset outside the evaluable fragment: %s' % e)
        return
    left = [fld['name'] for fld in rec['fields'] if o.get(fld['name']) != fresh.get(fld['name'])]
    if left:
        rule.violation('ParsingInfo::Reset', '%s:%d' % (f.file, f.line), 'Reset leaves %s as it was: a function that becomes invalid (or a term that used to be a function) keeps the argument list / type / tree of its previous definition, '
                       'which a schema built from the same content does not report' % ', '.join(left))
    else:
        rule.ok('ParsingInfo::Reset', 'all %d fields equal those of a new record' % len(rec['fields']), '%s:%d' % (f.file, f.line))


def forms_follow_text_rule(db, rule):
    """LexicalTerm caches inflected forms of its resolved text. Every method that re-resolves or replaces the text (calls a writer of
    ManagedText on the member `text`) clears the cache on every path to its exit - unconditionally: a comparison of the text before and
    after through a reference into the text object compares the new text with itself."""
    from engine.cfgq import success_exits
    LT = 'ccl::lang::LexicalTerm'
    ms = [f for f in db.methods_of(LT) if f.has_cfg()]
    if not ms:
        rule.broken('anchor vanished: LexicalTerm (is the cclLang unit loaded?)')
        return
    WRITERS = ('UpdateFrom', 'InitFrom', 'SetRaw', 'TranslateRefs', 'TranslateRaw')
    n_sites = 0

    def direct_clears(g):
        out = [g.position_of(c) for c in g.calls() if c['k'] == 'CXXMemberCallExpr' and (c.get('cs') or '').split('::')[-1] == 'clear' and 'obj' in c and (g.strip(g.stmts[c['obj']]) or {}).get('member') == 'cachedForms']
        return [p for p in out if p is not None]
    # helpers of the class that clear the cache on every path (ClearForms)
    clearing = {g.name for g in ms if direct_clears(g) and not paths_avoiding(g, [g.graph()[1]], direct_clears(g), success_exits(g, failure_literals=()))}
    for f in sorted(ms, key=lambda x: x.name):
        if f.rec.get('ctor') or f.name.split('::')[-1].startswith('operator'):
            continue
        writes = [c for c in f.calls() if c['k'] == 'CXXMemberCallExpr' and (c.get('cs') or '').startswith('ccl::lang::ManagedText::') and (c.get('cs') or '').split('::')[-1] in WRITERS
                  and 'obj' in c and (f.strip(f.stmts[c['obj']]) or {}).get('member') == 'text']
        if not writes:
            continue
        clears = direct_clears(f) + [p for p in (f.position_of(c) for c in f.calls() if c['k'] == 'CXXMemberCallExpr' and any(t.name in clearing and t is not f for t in db.callees(f, c))) if p is not None]
        exits = success_exits(f, failure_literals=())
        for c in writes:
            n_sites += 1
            inst = 'LexicalTerm::%s' % f.name.split('::')[-1]
            pos = f.position_of(c)
            ok = bool(clears) and pos is not None and (not paths_avoiding(f, [pos], clears, exits) or not paths_avoiding(f, [f.graph()[1]], clears, [(pos, '')]))
            if ok:
                rule.ok(inst, 'the cached forms are cleared on every path', f.loc(c))
            else:
                rule.violation(inst, f.loc(c), '`%s` changes the resolved text and a path reaches the exit without clearing cachedForms: the inflected forms of the previous text are served (a term that mentions a term whose text changed keeps the old word)' % (c.get('txt') or '')[:60])
    if not n_sites:
        rule.broken('LexicalTerm has no method that writes its text: the rule has lost its sites')
