"""C10 — saving and loading a schema or model through JSON is lossless and stable.

 r1 KEYS       for every type with both to_json and from_json (and the Extract*/Load* helper pairs): every key the reader looks up is
               a key the writer produces (same path), every persistent key written is read back (derived keys listed with reason),
               and the member stored under a key is the member the key is loaded into.
 r2 ENUMS      each NLOHMANN_JSON_SERIALIZE_ENUM table is injective in both directions and covers every enumerator of its enum
               (sentinels excepted): an uncovered enumerator is written as the first entry and a duplicated string reads back wrong.
 r3 PROTOCOL   model loading order: core records, FinalizeLoadingCore, then data; data unpacked against the typification of the loaded core.
 r4 KEYED      a writer that iterates a keyed container must emit the key when the reader cannot recompute it.
Not decided: equality of the embedded analysis results after reload (value level).
"""
from engine.cfgq import call_sites, paths_avoiding
from engine.facts import AnalysisBroken

UNITS = ['CCL', 'RSlang2', 'cclLang']

# keys that are written but deliberately not read back: (type, key path) -> reason
DERIVED = {
    ('RSModel', 'type'): 'document discriminator', ('RSForm', 'type'): 'document discriminator', ('OSSchema', 'type'): 'document discriminator',
    ('ConceptRecord', 'type'): 'record discriminator',
    ('OSSchema', 'layout'): 'redundant copy of the per-item "position" keys, which LoadPicts reads',
    ('RSCore', 'parse'): 'analysis output, recomputed by UpdateState after loading',
    ('RSCore', 'parse.status'): 'analysis output', ('RSCore', 'parse.valueClass'): 'analysis output', ('RSCore', 'parse.typification'): 'analysis output',
    ('RSCore', 'parse.syntaxTree'): 'analysis output', ('RSCore', 'parse.args'): 'analysis output',
}

HELPER_PAIRS = [('ExtractData', 'LoadData', 'RSModel.data'), ('ExtractPicts', 'LoadPicts', 'OSSchema.items')]


def _lit(f, n):
    n = f.strip(n)
    while n is not None and n['k'] in ('CXXConstructExpr', 'CXXTemporaryObjectExpr') and len(n.get('args', [])) >= 1:
        n = f.strip(f.stmts[n['args'][0]])
    if n is not None and n['k'] == 'StringLiteral':
        return bytes.fromhex(n.get('hex', '')).decode('utf-8', 'replace')
    return None


def _members(f, n, param):
    """member names read from parameter `param` inside expression n"""
    out = []
    for x in f.walk(n):
        if x['k'] == 'MemberExpr' and x.get('c'):
            b = f.strip(f.stmts[x['c'][0]])
            if b is not None and b['k'] == 'DeclRefExpr' and b.get('name') == param:
                out.append(x.get('member') + ('()' if x.get('mk') == 'method' else ''))
    return out


def writer_keys(f, param):
    """{key path: [member names of param in the value]}"""
    keys = {}

    def pair(n):
        """InitListExpr with two json_ref elements, first a string literal -> (key, value node)"""
        if n['k'] != 'InitListExpr':
            return None
        kids = f.children(n)
        if len(kids) != 2:
            return None
        k = _lit(f, kids[0])
        if k is None:
            return None
        return k, kids[1]

    def visit(n, prefix):
        p = pair(n)
        if p is not None:
            k, v = p
            path = prefix + k
            keys.setdefault(path, [])
            keys[path] += _members(f, v, param)
            for c in f.children(v):
                visit_all(c, path + '.')
            return
        for c in f.children(n):
            visit(c, prefix)

    def visit_all(n, prefix):
        visit(n, prefix)

    # subscript writes: object["k"]["k2"] = value / += value
    def subscript_path(n):
        n = f.strip(n)
        if n is not None and n['k'] == 'CXXOperatorCallExpr' and n.get('op') == '[]' and len(n.get('args', [])) == 2:
            k = _lit(f, f.stmts[n['args'][1]])
            base = subscript_path(f.stmts[n['args'][0]])
            if k is not None:
                return (base + '.' if base else '') + k
        return ''
    body = f.stmts[f.body]
    for n in f.walk(body):
        if n['k'] == 'CXXOperatorCallExpr' and n.get('op') in ('=', '+=') and len(n.get('args', [])) == 2:
            lhs = f.stmts[n['args'][0]]
            sp = subscript_path(lhs)
            if sp:
                keys.setdefault(sp, [])
                keys[sp] += _members(f, f.stmts[n['args'][1]], param)
                visit(f.stmts[n['args'][1]], sp + '.')
            else:
                visit(f.stmts[n['args'][1]], '')
        elif n['k'] == 'DeclStmt':
            for d in n.get('decls', []):
                if 'init' in d and d['init'] in f.stmts and ('json' in d['type'].lower()):
                    visit(f.stmts[d['init']], '')
    return keys


def reader_keys(f, param):
    """{key path: [destination member names of param]} from at("k") chains, LoadOptionalKey and contains"""
    keys = {}

    def at_path(n):
        n = f.strip(n)
        if n is None:
            return None
        if n['k'] == 'CXXMemberCallExpr' and (n.get('cs') or '').endswith('::at') and 'obj' in n and n.get('args'):
            k = _lit(f, f.stmts[n['args'][0]])
            if k is None:
                return None
            base = at_path(f.stmts[n['obj']])
            return (base + '.' if base else '') + k
        if n['k'] == 'CXXOperatorCallExpr' and n.get('op') in ('->', '*') and n.get('args'):
            # iterator over a sub-array:  for (auto it = begin(forms); ...) it->at("k")
            it = f.strip(f.stmts[n['args'][0]])
            if it is not None and it['k'] == 'DeclRefExpr':
                for s0 in f.rec['stmts']:
                    if s0['k'] == 'DeclStmt':
                        for d in s0.get('decls', []):
                            if d.get('did') == it.get('did') and 'init' in d:
                                init = f.stmts[d['init']]
                                for c in f.calls(init):
                                    if (c.get('cs') or '').split('::')[-1] in ('begin', 'cbegin') and c.get('args'):
                                        return at_path(f.stmts[c['args'][0]]) or ''
            return ''
        if n['k'] == 'DeclRefExpr':
            # local alias of a sub-object:  const auto& forms = object.at("forms")
            al = f.ref_aliases().get(n.get('did'))
            if al is not None and al[0] == 'ref':
                return at_path(al[1])
            return ''
        if n['k'] == 'UnaryOperator' and n.get('op') == '*':
            return ''
        return ''
    for n in f.calls():
        cs = n.get('cs') or ''
        if n['k'] == 'CXXMemberCallExpr' and cs.endswith('::at') and n.get('args'):
            p = at_path(n)
            if p:
                dest = []
                par = f.stmts.get(f.parent.get(n['id']))
                # find the enclosing get_to(dest) / get<T>() assignment
                for a in f.ancestors(n):
                    if a['k'] == 'CXXMemberCallExpr' and (a.get('cs') or '').endswith('::get_to') and a.get('args'):
                        dest = _members(f, f.stmts[a['args'][0]], param)
                        break
                    if a['k'] in ('BinaryOperator', 'CXXOperatorCallExpr') and a.get('op') == '=':
                        kids = f.children(a) if a['k'] == 'BinaryOperator' else [f.stmts[x] for x in a['args']]
                        dest = _members(f, kids[0], param)
                        break
                    if a['k'] in ('CompoundStmt', 'DeclStmt', 'IfStmt', 'ForStmt'):
                        break
                keys.setdefault(p, [])
                keys[p] += dest
        elif n['k'] == 'CallExpr' and cs.endswith('LoadOptionalKey') and len(n.get('args', [])) == 3:
            base = at_path(f.stmts[n['args'][0]])
            k = _lit(f, f.stmts[n['args'][1]])
            if k is not None:
                p = (base + '.' if base else '') + k
                keys.setdefault(p, [])
                keys[p] += _members(f, f.stmts[n['args'][2]], param)
        elif n['k'] == 'CXXMemberCallExpr' and cs.endswith('::contains') and n.get('args') and 'obj' in n:
            k = _lit(f, f.stmts[n['args'][0]])
            base = at_path(f.stmts[n['obj']])
            if k is not None:
                keys.setdefault((base + '.' if base else '') + k, [])
    return keys


def check(db, rep):
    rep.explanation = ('Writer/reader agreement of every to_json/from_json pair extracted from the typed AST (string-literal keys in initializer lists, '
                       'subscripts, at()/LoadOptionalKey/contains), enum string tables evaluated over the whole enum, load protocol order, keyed containers.')
    tj = {}
    for f in db.functions:
        if f.name.split('::')[-1] in ('to_json', 'from_json') and f.file.endswith('JSON.cpp') and len(f.rec['params']) == 2:
            t = f.rec['params'][1]['type'].replace('const ', '').replace('&', '').strip().split('::')[-1]
            tj.setdefault(t, {})[f.name.split('::')[-1]] = f
    pairs = {t: d for t, d in tj.items() if 'to_json' in d and 'from_json' in d}
    rep.note('json_pairs', sorted(pairs))
    rep.note('write_only_types', sorted(t for t, d in tj.items() if 'from_json' not in d))

    r1 = rep.rule('r1', 'KEYS: reader keys are written, persistent written keys are read, and a key is loaded into the member it was written from', 19)
    table = []
    for t, d in sorted(pairs.items()):
        w, r = d['to_json'], d['from_json']
        wk = writer_keys(w, w.rec['params'][1]['name'])
        rk = reader_keys(r, r.rec['params'][1]['name'])
        table.append((t, w, r, wk, rk))
    helpers = {f.name.split('::')[-1]: f for f in db.functions if f.file.endswith('JSON.cpp') and f.name.split('::')[-1] in sum(([a, b] for a, b, _ in HELPER_PAIRS), [])}
    for a, b, label in HELPER_PAIRS:
        if a in helpers and b in helpers:
            w, r = helpers[a], helpers[b]
            wk = writer_keys(w, w.rec['params'][-1]['name'])
            rk = reader_keys(r, r.rec['params'][-1]['name'])
            table.append((label, w, r, wk, rk))
        else:
            r1.broken('helper pair %s/%s not found' % (a, b))
    total_keys = 0
    for t, w, r, wk, rk in table:
        total_keys += len(wk)
        problems = []
        for k in rk:
            if k not in wk:
                problems.append('key "%s" is looked up by the reader but never written (writer keys: %s)' % (k, sorted(wk)))
        for k in wk:
            if k not in rk and (t.split('.')[0], k) not in DERIVED and (t, k) not in DERIVED:
                # a nested key is fine if its parent object is read as a whole
                parent = k.rsplit('.', 1)[0] if '.' in k else None
                if parent is not None and parent in rk:
                    continue
                problems.append('key "%s" is written but never read back' % k)
        for k in rk:
            wm, rm = wk.get(k, []), rk[k]
            if len(wm) == 1 and len(rm) == 1 and not wm[0].endswith('()') and wm[0] != rm[0]:
                problems.append('key "%s" is written from member `%s` but loaded into member `%s`' % (k, wm[0], rm[0]))
        inst = 'pair:' + t
        if problems:
            r1.violation(inst, '%s:%d' % (r.file, r.line), '; '.join(problems[:3]))
        else:
            r1.ok(inst, '%d keys written, %d read' % (len(wk), len(rk)), '%s:%d' % (w.file, w.line))
    rep.note('keys_compared', total_keys)
    for (t, k), why in DERIVED.items():
        hit = [x for x in table if x[0] == t]
        if hit and k not in hit[0][3]:
            r1.broken('derived-key exception (%s, %s) no longer matches a written key' % (t, k))

    # ---------------------------------------------------------------- r2
    r2 = rep.rule('r2', 'ENUMS: every serialised enum table is injective both ways and covers all enumerators', 8)
    maps = {}
    for f in db.functions:
        if f.name.endswith('::m::<init>') and 'EnumJSON' in f.file:
            pairs_ = []
            for n in f.walk():
                if n['k'] == 'CXXConstructExpr' and (n.get('cs') or '').startswith('std::pair'):
                    kids = f.children(n)
                    e = [x for x in f.walk(kids[0]) if x['k'] == 'DeclRefExpr' and x.get('dk') == 'enumerator']
                    s = _lit(f, kids[1]) if len(kids) > 1 else None
                    if e and s is not None:
                        pairs_.append((e[0]['qn'], e[0]['val'], s))
            if pairs_:
                enum = pairs_[0][0].rsplit('::', 1)[0]
                maps.setdefault(enum, []).append((f, pairs_))
    for enum, lst in sorted(maps.items()):
        f, pairs_ = lst[0]
        inst = 'enum:' + enum.split('::')[-1] if enum.split('::')[-1] not in ('Mode', 'Type') else 'enum:' + '::'.join(enum.split('::')[-2:])
        problems = []
        for other_f, other in lst[1:]:
            if other != pairs_:
                problems.append('to_json and from_json tables differ')
        vals = [v for _, v, _ in pairs_]
        strs = [s for _, _, s in pairs_]
        if len(set(vals)) != len(vals):
            dup = sorted({q.split('::')[-1] for q, v, _ in pairs_ if vals.count(v) > 1})
            problems.append('enumerator(s) %s listed twice: only the first string is ever written' % dup)
        if len(set(strs)) != len(strs):
            dup = sorted({s for s in strs if strs.count(s) > 1})
            problems.append('string(s) %s map to two enumerators: reading returns the first one' % dup)
        try:
            decl = db.enum(enum)
            missing = [e['name'] for e in decl['enumerators'] if e['val'] not in vals and not e['name'].endswith('_')]
            if missing:
                problems.append('enumerator(s) %s have no entry: they are written as "%s" and read back as %s' % (missing, strs[0], pairs_[0][0].split('::')[-1]))
        except AnalysisBroken:
            problems.append('enum declaration not found')
        if problems:
            r2.violation(inst, '%s:%d' % (f.file, f.line), '; '.join(problems))
        else:
            r2.ok(inst, '%d entries, bijective, complete' % len(pairs_), '%s:%d' % (f.file, f.line))

    # ---------------------------------------------------------------- r3
    r3 = rep.rule('r3', 'PROTOCOL: from_json(RSModel) loads the core, finalises it, then loads data; data is unpacked against the loaded typification', 2)
    fm = pairs.get('RSModel', {}).get('from_json')
    if fm is None:
        r3.broken('from_json(RSModel) not found')
    else:
        core = [p for p, n in call_sites(fm, lambda n: (n.get('cs') or '').endswith('::get_to') and any(x.get('cs', '').endswith('LoadCore') for x in fm.calls(n)))]
        fin = [p for p, n in call_sites(fm, lambda n: (n.get('cs') or '').endswith('RSModel::FinalizeLoadingCore'))]
        dat = [p for p, n in call_sites(fm, lambda n: (n.get('cs') or '').endswith('LoadData'))]
        entry = fm.graph()[1]
        ok = core and fin and dat and not paths_avoiding(fm, [entry], core, [(fin[0], '')]) and not paths_avoiding(fm, [entry], fin, [(dat[0], '')])
        if ok:
            r3.ok('from_json(RSModel)', 'core -> FinalizeLoadingCore -> LoadData', '%s:%d' % (fm.file, fm.line))
        else:
            r3.violation('from_json(RSModel)', '%s:%d' % (fm.file, fm.line), 'model loading does not run core records -> FinalizeLoadingCore -> LoadData in that order (FinalizeLoadingCore resets every value slot)')
    ld = helpers.get('LoadData')
    if ld is not None:
        unp = [n for n in ld.calls() if (n.get('cs') or '').endswith('SDCompact::Unpack')]
        ok = unp and any(x['k'] == 'DeclRefExpr' and x.get('name') == 'typification' for x in ld.walk(unp[0]))
        pk = helpers.get('ExtractData')
        frm = [n for n in pk.calls() if (n.get('cs') or '').endswith('SDCompact::FromSData')] if pk else []
        if ok and frm:
            r3.ok('data-typification', 'packed and unpacked against GetParse(uid).Typification()', ld.loc(unp[0]))
        else:
            r3.violation('data-typification', '%s:%d' % (ld.file, ld.line), 'values are not packed/unpacked against the typification of their constituent')

    # ---------------------------------------------------------------- r4
    r4 = rep.rule('r4', 'KEYED: a keyed container is written with its keys unless the reader can recompute them', 1)
    ti = pairs.get('TextInterpretation')
    if ti is None:
        r4.broken('TextInterpretation pair not found')
    else:
        w, r = ti['to_json'], ti['from_json']
        uses_first = any(x['k'] == 'MemberExpr' and x.get('member') == 'first' for x in w.walk())
        # ... or through a structured binding `[key, value]` of the iterated map whose first name is used in the body
        for lp_ in [x for x in w.walk() if x['k'] == 'CXXForRangeStmt']:
            d_ = w.stmts[lp_['loopvar']]['decls'][0]
            bs_ = d_.get('bindings', [])
            if len(bs_) == 2 and any(x['k'] == 'DeclRefExpr' and x.get('did') == bs_[0].get('did') for x in w.walk(w.stmts[lp_['body']])):
                uses_first = True
        pushback = any((n.get('cs') or '').endswith('PushBack') for n in r.calls())
        if not uses_first and pushback:
            r4.violation('TextInterpretation', '%s:%d' % (w.file, w.line), 'interpretant ids (map keys) are not written; the reader renumbers them with PushBack (1,2,3,...) while the stored base-set data keeps the old ids')
        else:
            r4.ok('TextInterpretation', 'keys preserved', '%s:%d' % (w.file, w.line))

    # structured values are stored in the compact encoding: writer/reader agreement of that encoding is part of losslessness (shared with C16)
    from rules import C16
    C16.check(db, rep, rule_prefix='c16-', explain=False)
    _independent_reads(db, rep)


def _independent_reads(db, rep):
    """r7: a key is read whether or not *another* key is present: no at("k") read is dominated by a contains("j") test with j != k
    (a record with a missing optional key must still have its other keys restored), and a repeated/duplicate element is never dropped by the
    reader of a sequence: element readers append unconditionally."""
    from engine.cfgq import dominating_guards, normalise_cond
    r7 = rep.rule('r7', 'INDEPENDENT-READS: whether a key is read never depends on the presence of a different key; sequence readers append every element', 20)

    def lit_of(f, call):
        if call.get('args'):
            return _lit(f, f.stmts[call['args'][0]])
        return None
    n_reads = 0
    for f in db.functions:
        if not f.has_cfg() or not f.file or not f.file.endswith('JSON.cpp'):
            continue
        short = f.name.split('::')[-1]
        ptype = f.rec['params'][-1]['type'].replace('const ', '').replace('&', '').strip().split('::')[-1] if f.rec['params'] else ''
        seen = {}
        for c in sorted(f.calls(), key=lambda x: (x.get('line', 0), x.get('col', 0))):
            if not ((c.get('cs') or '').endswith('basic_json::at') and 'obj' in c):
                continue
            k = lit_of(f, c)
            if k is None:
                continue
            n_reads += 1
            inst = '%s(%s):%s' % (short, ptype, k)
            seen[inst] = seen.get(inst, 0) + 1
            if seen[inst] > 1:
                inst += '#%d' % seen[inst]
            pos = f.position_of(c)
            other = None
            from engine.shape import Keyer
            K = Keyer(f)
            okey = K.key(f.stmts[c['obj']])
            work = list(dominating_guards(f, pos)) if pos is not None else []
            while work:
                g, pol = work.pop()
                g = f.strip(g)
                if g is not None and g['k'] == 'BinaryOperator' and g.get('op') in ('&&', '||'):
                    work += [(x, pol) for x in f.children(g)]
                    continue
                g2, pol2 = normalise_cond(f, g, pol)
                if g2 is not None and g2['k'] == 'CXXMemberCallExpr' and (g2.get('cs') or '').endswith('basic_json::contains'):
                    j = lit_of(f, g2)
                    # only a test on the *same* JSON object counts: contains("forms") around reads of the elements of "forms" is the parent being present
                    if j is not None and j != k and 'obj' in g2 and K.key(f.stmts[g2['obj']]) == okey:
                        other = j
            # an unguarded read inside an element loop happens for every element: no path through the loop body may skip it
            loops = [a for a in f.ancestors(c) if a['k'] in ('ForStmt', 'CXXForRangeStmt', 'WhileStmt')]
            skipped = False
            if not other and loops and pos is not None:
                lp = loops[0]
                body = f.stmts[lp['body']]
                inside = {x['id'] for x in f.walk(body)}
                guards_in = [g for g, pol in dominating_guards(f, pos) if g['id'] in inside or any(a['id'] in inside for a in f.ancestors(g))]
                if not guards_in:
                    from engine.cfgq import cond_edges
                    first = None
                    for bid_, c_, t_, fl_ in cond_edges(f):
                        if 'cond' in lp and c_ is not None and c_['id'] == lp['cond'] and t_ is not None:
                            first = (t_, 0)
                    cont = f.position_of(f.stmts[lp['inc']]) if 'inc' in lp else None
                    if first is not None and cont is not None:
                        from engine.cfgq import paths_avoiding
                        skipped = bool(paths_avoiding(f, [first], [pos], [(cont, '')]))
            if skipped:
                r7.violation(inst, f.loc(c), 'the read of "%s" is skipped for some elements of the stored array (a path through the loop body reaches the next element without it): those records lose "%s" on loading' % (k, k))
                continue
            if other:
                r7.violation(inst, f.loc(c), 'whether "%s" is read depends on the presence of the key "%s": a record without "%s" loses "%s" on loading' % (k, other, other, k))
            else:
                r7.ok(inst, 'read independently of other keys', f.loc(c), nontrivial=False)
    # sequence readers: PushBack / push_back / emplace_back / insert of a decoded element is not guarded by a lookup of the element among those already read
    for f in db.functions:
        if not f.has_cfg() or not f.file or not f.file.endswith('JSON.cpp') or f.name.split('::')[-1] != 'from_json':
            continue
        ptype = f.rec['params'][-1]['type'].replace('const ', '').replace('&', '').strip().split('::')[-1]
        loops = [n for n in f.walk() if n['k'] in ('ForStmt', 'CXXForRangeStmt')]
        for lp in loops:
            adds = [c for c in f.calls(f.stmts[lp['body']]) if (c.get('cs') or '').split('::')[-1] in ('PushBack', 'push_back', 'emplace_back', 'Insert', 'insert', 'emplace', 'InsertCopy', 'Emplace') and 'obj' in c]
            for c in adds:
                pos = f.position_of(c)
                inside = [(g, pol) for g, pol in (dominating_guards(f, pos) if pos is not None else []) if any(y is g or any(z is g for z in f.walk(y)) for y in f.walk(f.stmts[lp['body']]))]
                inst = 'from_json(%s):append' % ptype
                # a branch on the form of the element is fine when the other branch stores the element too (by another setter)
                if inside:
                    STORE = ('PushBack', 'push_back', 'emplace_back', 'Insert', 'insert', 'emplace', 'InsertCopy', 'Emplace', 'SetInterpretantFor', 'insert_or_assign', 'try_emplace')
                    ifs = [a_ for a_ in f.ancestors(c) if a_['k'] == 'IfStmt' and any(y is a_ for y in f.walk(f.stmts[lp['body']]))]
                    if ifs and all('else' in i_ and any((x.get('cs') or '').split('::')[-1] in STORE for x in f.calls(f.stmts[i_['else']])) and any((x.get('cs') or '').split('::')[-1] in STORE for x in f.calls(f.stmts[i_['then']])) for i_ in ifs):
                        inside = []
                if inside:
                    r7.violation(inst, f.loc(c), 'an element of the stored sequence is appended only if `%s`: equal or already-known elements are dropped, so positions (ids) of the following elements shift' % inside[0][0].get('txt', '')[:60])
                else:
                    r7.ok(inst, 'every element of the stored sequence is appended', f.loc(c))
    # ---------------------------------------------------------------- r8
    r8 = rep.rule('r8', 'STABLE-ORDER: a JSON array is never filled by iterating a hash container (whose iteration order depends on the insertion history, so the document would change on every load / save)', 1)
    n_w, hits = 0, []
    for f in db.functions:
        if not f.has_cfg() or not f.file or not f.file.endswith('JSON.cpp') or f.name.split('::')[-1] != 'to_json':
            continue
        n_w += 1
        for lp in [x for x in f.walk() if x['k'] == 'CXXForRangeStmt']:
            rt = ' '.join(str(x.get('t', '')) for x in f.walk(f.stmts[lp['range']]))
            if 'unordered_map' not in rt and 'unordered_set' not in rt:
                continue
            appends = [c for c in f.calls(f.stmts[lp['body']]) if 'nlohmann' in (c.get('callee') or '') and ((c.get('cs') or '').split('::')[-1] in ('push_back', 'emplace_back') or c.get('op') == '+=')]
            if appends:
                hits.append((f, lp, appends[0]))
    if not n_w:
        r8.broken('no to_json writer found in JSON.cpp')
    for f, lp, ap in hits:
        ptype = f.rec['params'][-1]['type'].replace('const ', '').replace('&', '').strip().split('::')[-1]
        r8.violation('to_json(%s)' % ptype, f.loc(ap), '`%s` appends to a JSON array inside a loop over `%s`, a hash container: the order of the array depends on the insertion history, the loader re-inserts in document order, so the array comes out in a different order after every load' % ((ap.get('txt') or '')[:50], (f.stmts[lp['range']].get('txt') or '')[:40]))
    if n_w and not hits:
        r8.ok('writers', '%d to_json writers: no JSON array is filled from a hash container' % n_w)
    # ---------------------------------------------------------------- r12
    r12 = rep.rule('r12', 'LOAD-STORES: the loaders of model values (rsValuesFacet::LoadData) hand what the document holds to the internal setter on every path: whether a stored value is kept never depends on what else has been loaded so far '
                          '(values are loaded in uid order, base-set interpretations among them), and loading one value never invalidates another', 6)
    from engine.cfgq import success_exits as _sx
    VF = 'ccl::semantic::rsValuesFacet'
    loaders = [f for f in db.functions if f.name == VF + '::LoadData' and f.has_cfg()]
    if not loaders:
        r12.broken('anchor vanished: rsValuesFacet::LoadData')
    for f in loaders:
        ptype = f.rec['params'][-1]['type'].replace('const ', '').replace('&', '').strip().split('::')[-1]
        stores = [f.position_of(c) for c in f.calls() if c['k'] == 'CXXMemberCallExpr' and (c.get('cs') or '').startswith(VF + '::Set') and (c.get('cs') or '').endswith('Internal')]
        stores += [f.position_of(c) for c in f.calls() if (c.get('cs') or '').split('::')[-1] in ('SetRSInterpretationFor', 'SetTextInterpretationFor', 'SetStatementFor')]
        stores = [p_ for p_ in stores if p_ is not None]
        if not stores or paths_avoiding(f, [f.graph()[1]], stores, _sx(f, failure_literals=())):
            r12.violation('LoadData(%s)' % ptype, '%s:%d' % (f.file, f.line), 'a path through the loader stores nothing: the value in the document is dropped depending on the state at that moment of the load '
                          '(a structure whose uid is smaller than that of its base set is checked against an interpretation that is still empty), so the loaded model and the document written from it differ')
        else:
            r12.ok('LoadData(%s)' % ptype, 'stores on every path', '%s:%d' % (f.file, f.line))
        # ... and stores only: values arrive in uid order, so an invalidation of dependants issued while loading erases what was loaded before it
        from engine.cfgq import transitive_calls
        INVALIDATE = ('ccl::semantic::RSModel::ResetDependants', VF + '::ResetFor', VF + '::PruneStructure', VF + '::ResetAll', VF + '::ResetAllExceptCore', 'ccl::semantic::rsCalculationFacet::ResetFor')
        w = transitive_calls(db, f, lambda n: (n.get('cs') or '') in INVALIDATE, depth=4, restrict=lambda t: t.name.startswith('ccl::semantic::rs') or t.name.startswith('ccl::semantic::RSModel'))
        if w is not None:
            r12.violation('LoadData(%s):stores-only' % ptype, w[-1][0].loc(w[-1][1]), 'loading one value reaches `%s` (through %s): the values of its dependants that were loaded earlier (smaller uid) are erased or pruned against interpretations that are not loaded yet, so the loaded model differs from the saved one' % (
                w[-1][1].get('cs'), ' -> '.join(x[0].name.split('::')[-1] for x in w)))
        else:
            r12.ok('LoadData(%s):stores-only' % ptype, 'no invalidation of other values is reachable from the loader', '%s:%d' % (f.file, f.line))
    # ---------------------------------------------------------------- r11
    r11 = rep.rule('r11', 'RESOLUTION-IDEMPOTENT (hosted here, a clause of C17 too): loading re-resolves every term (Thesaurus::UpdateState, OnTermChange interpreted); doing it again changes no resolved text, '
                          'also when term references form a loop - otherwise every load / save cycle writes a different document', 2)
    from rules import C17
    C17.resolution_idempotent_rule(db, r11)
    from rules import C07 as _C07
    if db.fn(_C07.THES + '::OnTermChange', required=False) is not None:
        _C07._on_term_change(db, r11)          # an edit refreshes the definitions of the whole term closure, as a load does (shared with C07 r3)
    rep.note('key_reads', n_reads)
