"""C19 — operation schema stays sound and never shows outdated synthesis as current.

 r1 CO-UPDATE   InsertInternal registers the identifier, the pictogram, its grid cell and its source handle (and the operation handle
                when given); Erase removes the pictogram from the graph, grid, sources, operations, identifier registry and storage.
 r2 GUARDS      InsertOperation refuses equal or missing operands before anything changes and records exactly the two operands as
                parents before inserting; Erase refuses unknown pictograms and pictograms with children before anything changes.
 r3 OUTDATED    the propagation chain exists and is the only writer: a changed core hash (Handle::UpdateHashes is the only writer of
                coreHash besides loading) calls OnCoreChange unless notifications are suspended; OnCoreChange marks every child
                operation that has a source as outdated; only OnCoreChange / SaveOperationResult / Reset (and loading) write `outdated`;
                StatusOf reports done only for an operation that is neither broken nor outdated and has a non-empty source.
 r4 EXECUTE     Execute = IsOperable, PrepareParents, CheckOperation, RunOperation in this order, each a refusing guard; PrepareParents
                refuses on a broken parent and re-executes outdated parents first; a successful SaveOperationResult clears broken and
                outdated and updates every child.
Not decided: equality of the result with a fresh synthesis; aggregation of user additions; acyclicity for documents loaded through LoadParent
(the loader rejects only direct 2-cycles — reported as a limit, not claimed).
"""
from engine.cfgq import call_sites, paths_avoiding, dominating_guards, success_exits
from engine.modset import ModSets
from engine.shape import Keyer
from engine.facts import AnalysisBroken

UNITS = ['CCL']
O = 'ccl::oss::'
OSS = O + 'OSSchema'
OPF = O + 'ossOperationsFacet'
SRC = O + 'ossSourceFacet'


def _g(f, p):
    return [(c.get('txt', ''), pol) for c, pol in dominating_guards(f, p)]


def check(db, rep):
    rep.explanation = ('Co-update of the pictogram tables, refusing guards before mutation, the outdated-propagation chain as who-may-write + call-graph + guard rules, '
                       'and the order of the execution pipeline.')
    M = ModSets(db)
    # ------------------------------------------------------------------ r1
    r1 = rep.rule('r1', 'CO-UPDATE: InsertInternal fills all pictogram tables; Erase clears all of them, each eraser that tests the storage running before the storage entry goes', 3)
    ii = db.fn(OSS + '::InsertInternal')
    need = {
        'identifier': lambda n: (n.get('cs') or '').endswith('EntityGenerator::AddUID'),
        'storage': lambda n: (n.get('cs') or '').split('::')[-1] in ('emplace', 'insert', 'try_emplace') and 'storage' in ii.stmts[n['obj']].get('txt', '') if 'obj' in n else False,
        'grid cell': lambda n: (n.get('cs') or '').endswith('ossGridFacet::SetPosFor'),
        'source handle': lambda n: (n.get('cs') or '').split('::')[-1] in ('emplace', 'insert', 'try_emplace') and 'sources' in ii.stmts[n['obj']].get('txt', '') if 'obj' in n else False,
    }
    exits = success_exits(ii)
    missing = []
    for label, pred in need.items():
        sites = [p for p, n in call_sites(ii, pred)]
        if not sites or paths_avoiding(ii, [ii.graph()[1]], sites, exits):
            missing.append(label)
    ops_w = [n for n in ii.walk() if n['k'] in ('CXXOperatorCallExpr',) and n.get('op') == '=' and 'operations' in ii.stmts[n['args'][0]].get('txt', '')]
    if not ops_w or not any('opHandle' in c and pol for c, pol in _g(ii, ii.position_of(ops_w[0]))):
        missing.append('operation handle (when given)')
    if missing:
        r1.violation('InsertInternal', '%s:%d' % (ii.file, ii.line), 'a pictogram can be inserted without its %s' % ', '.join(missing))
    else:
        r1.ok('InsertInternal', 'identifier, storage, grid cell, source handle (+ operation handle when given)', '%s:%d' % (ii.file, ii.line))
    er = db.fn(OSS + '::Erase')
    need_e = {
        'graph': lambda n: n.get('cs') == O + 'ossGraphFacet::Erase', 'grid': lambda n: n.get('cs') == O + 'ossGridFacet::Erase',
        'sources': lambda n: n.get('cs') == SRC + '::Erase', 'operations': lambda n: n.get('cs') == OPF + '::Erase',
        'identifier': lambda n: (n.get('cs') or '').endswith('EntityGenerator::FreeUID'),
        'storage': lambda n: (n.get('cs') or '').split('::')[-1] == 'erase' and 'obj' in n and 'storage' in er.stmts[n['obj']].get('txt', ''),
    }
    exits = success_exits(er)
    missing = []
    for label, pred in need_e.items():
        sites = [p for p, n in call_sites(er, pred)]
        if not sites or paths_avoiding(er, [er.graph()[1]], sites, exits):
            missing.append(label)
    if missing:
        r1.violation('Erase', '%s:%d' % (er.file, er.line), 'a successful erase leaves the pictogram in: %s' % ', '.join(missing))
    else:
        r1.ok('Erase', 'graph, grid, sources, operations, identifier, storage', '%s:%d' % (er.file, er.line))
    # an eraser of a table that acts only while the pictogram is still stored (its body, or a callee one call down, tests OSSchema::Contains) is a
    # no-op once the storage entry is gone: it must run before storage.erase
    def needs_stored(g, depth=0):
        if g is None or not g.has_cfg():
            return False
        for c in g.calls():
            if (c.get('cs') or '') == OSS + '::Contains' and any(a['k'] in ('IfStmt', 'ConditionalOperator') for a in g.ancestors(c)):
                return True
            if depth < 1 and (c.get('cs') or '').startswith(O) and needs_stored(db.fn(c['cs'], required=False), depth + 1):
                return True
        return False
    st_sites = [p for p, n in call_sites(er, need_e['storage'])]
    late = []
    for label in ('graph', 'grid', 'sources', 'operations'):
        for p, n in call_sites(er, need_e[label]):
            if needs_stored(db.fn(n['cs'], required=False)) and st_sites and paths_avoiding(er, st_sites, [], [(p, '')]):
                late.append((label, n))
    if late:
        r1.violation('Erase:order', er.loc(late[0][1]), 'the %s table is cleared after the storage entry is erased, but its eraser acts only while the pictogram is still stored (it tests Contains): the call does nothing and the erased pictogram stays in the %s table' % (late[0][0], late[0][0]))
    else:
        r1.ok('Erase:order', 'every eraser that needs the pictogram to be stored runs before storage.erase', '%s:%d' % (er.file, er.line))

    # ------------------------------------------------------------------ r2
    r2 = rep.rule('r2', 'GUARDS: refusals of InsertOperation / Erase precede every mutation; an operation gets exactly its two operands as parents', 3)
    io = db.fn(OSS + '::InsertOperation')
    muts = call_sites(io, lambda n: (n.get('cs') or '').split('::')[-1] in ('NewUID', 'AddItem', 'InsertInternal'))
    ok = bool(muts)
    for p, n in muts:
        g = _g(io, p)
        same = any('operand1 == operand2' in c and pol is False for c, pol in g)
        exist = any('Contains(operand1)' in c and 'Contains(operand2)' in c and pol is False for c, pol in g)
        if not (same and exist):
            ok = False
    if ok:
        r2.ok('InsertOperation:guards', 'equal / missing operands refused before any change', '%s:%d' % (io.file, io.line))
    else:
        r2.violation('InsertOperation:guards', '%s:%d' % (io.file, io.line), 'an operation can be created (or an identifier consumed) for equal or missing operands')
    ai = [n for n in io.calls() if n.get('cs') == O + 'ossGraphFacet::AddItem']
    K = Keyer(io)
    ok = False
    if len(ai) == 1:
        parents = [x.get('name') for x in io.walk(io.stmts[ai[0]['args'][1]]) if x['k'] == 'DeclRefExpr' and x.get('dk') == 'param']
        ins = call_sites(io, lambda n: n.get('cs') == OSS + '::InsertInternal')
        ok = sorted(set(parents)) == ['operand1', 'operand2'] and len(parents) == 2 and ins and ins[0][0] in io.reach(io.position_of(ai[0]))
    if ok:
        r2.ok('InsertOperation:parents', 'graph item added with {operand1, operand2} before the pictogram is inserted', io.loc(ai[0]))
    else:
        r2.violation('InsertOperation:parents', '%s:%d' % (io.file, io.line), 'the new operation is not recorded in the graph with exactly its two distinct operands as parents')
    emuts = call_sites(er, lambda n: any(pred(n) for pred in need_e.values()))
    ok = bool(emuts)
    for p, n in emuts:
        g = _g(er, p)
        if not (any('Contains(target)' in c and pol is False and c.strip().startswith('!') for c, pol in g) and any('ChildrenOf(target)' in c and pol is False for c, pol in g)):
            ok = False
    if ok:
        r2.ok('Erase:guards', 'unknown pictograms and pictograms with children refused before any change', '%s:%d' % (er.file, er.line))
    else:
        r2.violation('Erase:guards', '%s:%d' % (er.file, er.line), 'a pictogram that still has children (or does not exist) can be partially erased')

    # ------------------------------------------------------------------ r3
    r3 = rep.rule('r3', 'OUTDATED: hash change -> OnCoreChange -> every child with a source marked outdated; limited writers of coreHash / outdated; done only when neither broken nor outdated', 5)
    uh = db.fn(SRC + '::UpdateHashes')
    oc = call_sites(uh, lambda n: n.get('cs') == OSS + '::OnCoreChange')
    ok = False
    if oc:
        atoms = []
        work = list(dominating_guards(uh, oc[0][0]))
        while work:
            c, pol = work.pop()
            c2 = uh.strip(c)
            if c2['k'] == 'BinaryOperator' and c2.get('op') == '&&' and pol:
                work += [(x, True) for x in uh.children(c2)]
            else:
                atoms.append((c2.get('txt', ''), pol))
        txt = ' '.join(c for c, pol in atoms if pol)
        ok = 'coreHash' in txt and '!=' in txt and 'DndStatus' in txt
        only = all(('coreHash' in c and '!=' in c) or 'DndStatus' in c for c, pol in atoms)
        ok = ok and only
    if ok:
        r3.ok('UpdateHashes', 'OnCoreChange(pid) when the core hash changed and notifications are not suspended', '%s:%d' % (uh.file, uh.line))
    else:
        r3.violation('UpdateHashes', '%s:%d' % (uh.file, uh.line), 'a change of the formal content of a source does not (always) reach OnCoreChange')
    # who calls UpdateHashes: SyncPict (reachable from the source-change event)
    sp = db.fn(SRC + '::SyncPict')
    if any(n.get('cs') == SRC + '::UpdateHashes' for n in sp.calls()) and not any(a['k'] == 'IfStmt' for n in sp.calls() if n.get('cs') == SRC + '::UpdateHashes' for a in sp.ancestors(n)):
        r3.ok('SyncPict', 'recomputes the hashes unconditionally', '%s:%d' % (sp.file, sp.line))
    else:
        r3.violation('SyncPict', '%s:%d' % (sp.file, sp.line), 'synchronising a pictogram with its source does not recompute the hashes')
    occ = db.fn(OSS + '::OnCoreChange')
    lp = [n for n in occ.walk() if n['k'] == 'CXXForRangeStmt']
    sets = [n for n in occ.walk() if n['k'] == 'BinaryOperator' and n.get('op') == '=' and occ.strip(occ.children(n)[0]).get('member') == 'outdated' and occ.strip(occ.children(n)[1]).get('bv') is True]
    ok = len(lp) == 1 and any(c.get('cs') == O + 'ossGraphFacet::ChildrenOf' for c in occ.calls(occ.stmts[lp[0]['range']])) and len(sets) == 1
    if ok:
        g = _g(occ, occ.position_of(sets[0]))
        extra = [c for c, pol in g if 'Src()' not in c and 'ChildrenOf' not in c and c.strip() not in ('', ':') and '__' not in c and 'end' not in c]
        ok = not extra
    if ok:
        r3.ok('OnCoreChange', 'every child operation with a source becomes outdated', '%s:%d' % (occ.file, occ.line))
    else:
        r3.violation('OnCoreChange', '%s:%d' % (occ.file, occ.line), 'not every child operation with a stored result is marked outdated when a parent\'s formal content changes')
    # writers
    writers = {'coreHash': set(), 'outdated': set()}
    for f in db.functions:
        if f.rec.get('dependent'):
            continue
        for n in f.walk():
            if n['k'] in ('BinaryOperator', 'CompoundAssignOperator') and (n.get('op') == '=' or n['k'] == 'CompoundAssignOperator'):
                l = f.strip(f.children(n)[0])
                if l is not None and l['k'] == 'MemberExpr' and l.get('member') in writers and l.get('fcls', '').split('::')[-1] in ('Handle', 'OperationHandle'):
                    writers[l['member']].add('::'.join(f.name.split('::')[-2:]))
            if n['k'] == 'CXXMemberCallExpr' and (n.get('cs') or '').endswith('::get_to') and n.get('args'):
                a = f.strip(f.stmts[n['args'][0]])
                if a is not None and a['k'] == 'MemberExpr' and a.get('member') in writers:
                    writers[a['member']].add('::'.join(f.name.split('::')[-2:]))
    allowed = {'coreHash': {'Handle::UpdateHashes', 'src::from_json', 'Handle::Handle', 'Handle::DiscardSrc'}, 'outdated': {'OSSchema::OnCoreChange', 'ossOperationsFacet::SaveOperationResult', 'OperationHandle::Reset', 'oss::from_json'}}
    for fld, ws in writers.items():
        extra = ws - allowed[fld]
        if extra:
            r3.violation('writers:' + fld, O, '`%s` is also written by %s' % (fld, sorted(extra)))
        elif not ws:
            r3.broken('no writer of %s found' % fld)
        else:
            r3.ok('writers:' + fld, 'written only by %s' % sorted(ws))
    so = db.fn(OPF + '::StatusOf')
    done = [n for n in so.walk() if n['k'] == 'DeclRefExpr' and n.get('dk') == 'enumerator' and n.get('name') == 'done']
    ok = len(done) == 1
    if ok:
        co = next((a for a in so.ancestors(done[0]) if a['k'] == 'ConditionalOperator'), None)
        g = _g(so, so.position_of(done[0]))
        cond_ok = co is not None and 'outdated' in so.stmts[co['cond']].get('txt', '') and so.strip(so.stmts[co['else']])['id'] in {x['id'] for x in so.walk(so.stmts[co['else']])} and any(x['id'] == done[0]['id'] for x in so.walk(so.stmts[co['else']]))
        ok = cond_ok and any('broken' in c and pol is False for c, pol in g) and any('empty' in c and pol for c, pol in g)
    if ok:
        r3.ok('StatusOf', 'done only if not broken, not outdated and the source is non-empty', '%s:%d' % (so.file, so.line))
    else:
        r3.violation('StatusOf', '%s:%d' % (so.file, so.line), 'an operation can report `done` while it is broken or outdated or has no stored result')

    # ------------------------------------------------------------------ r4
    r4 = rep.rule('r4', 'EXECUTE: IsOperable -> PrepareParents -> CheckOperation -> RunOperation; parents prepared; success clears flags and updates children', 3)
    ex = db.fn(OPF + '::Execute')
    order = ['IsOperable', 'PrepareParents', 'CheckOperation', 'RunOperation']
    pos = []
    for name in order:
        c = call_sites(ex, lambda n, name=name: n.get('cs') == OPF + '::' + name)
        pos.append(c[0][0] if c else None)
    ok = all(pos) and all(pos[i + 1] in ex.reach(pos[i]) and pos[i] not in ex.reach(pos[i + 1]) for i in range(3))
    if ok:
        g = _g(ex, pos[3])
        ok = all(any(nm in c and pol is False for c, pol in g) for nm in order[:3])
    if ok:
        r4.ok('Execute', 'each stage runs only if all previous stages succeeded', '%s:%d' % (ex.file, ex.line))
    else:
        r4.violation('Execute', '%s:%d' % (ex.file, ex.line), 'the operation can run without operable target, prepared parents and a passed operation check (in that order)')
    pp = db.fn(OPF + '::PrepareParents')
    rec_exec = call_sites(pp, lambda n: n.get('cs') == OPF + '::Execute')
    falses = [(p, r) for p, r in pp.return_sites() if pp.return_literal(r) == 'false']
    ok = bool(rec_exec) and any('outdated' in c and pol for c, pol in _g(pp, rec_exec[0][0])) and any(any('broken' in c and pol for c, pol in _g(pp, p)) for p, r in falses)
    if ok:
        r4.ok('PrepareParents', 'broken parent refuses, outdated parent is re-executed first', '%s:%d' % (pp.file, pp.line))
    else:
        r4.violation('PrepareParents', '%s:%d' % (pp.file, pp.line), 'an operation can be executed on a broken or outdated parent result')
    sv = db.fn(OPF + '::SaveOperationResult')
    clears = {f: [n for n in sv.walk() if n['k'] == 'BinaryOperator' and n.get('op') == '=' and sv.strip(sv.children(n)[0]).get('member') == f and sv.strip(sv.children(n)[1]).get('bv') is False] for f in ('broken', 'outdated')}
    uc = call_sites(sv, lambda n: n.get('cs') == OPF + '::UpdateChild')
    lp = [n for n in sv.walk() if n['k'] == 'CXXForRangeStmt']
    ok = all(clears.values()) and uc and lp and any(c.get('cs') == O + 'ossGraphFacet::ChildrenOf' for c in sv.calls(sv.stmts[lp[0]['range']]))
    if ok:
        r4.ok('SaveOperationResult', 'success clears broken/outdated and updates every child', '%s:%d' % (sv.file, sv.line))
    else:
        r4.violation('SaveOperationResult', '%s:%d' % (sv.file, sv.line), 'a stored result does not clear the broken/outdated flags or does not update every child operation')
    _r5(db, rep)
    _r6(db, rep)


def _r5(db, rep):
    from engine.cfgq import transitive_calls
    from engine.shape import Keyer
    r5 = rep.rule('r5', 'SUSPEND-SCOPE / REINDEX: notifications are suspended only around storing an operation\'s own result (no operand synchronisation or nested execution under the guard); '
                        'erasing a node renumbers every stored index in every adjacency list', 3)
    SYNC = (O + 'ossSourceFacet::UpdateSync', OPF + '::Execute', OPF + '::PrepareParents', OPF + '::CallFor', OPF + '::RunOperation')
    sites = []
    for f in db.functions:
        if not f.has_cfg() or not f.file or '/test/' in f.file:
            continue
        for p, n in call_sites(f, lambda n: (n.get('cs') or '').endswith('::DndGuard') and 'oss' in (f.name or '')):
            sites.append((f, p, n))
    allowed = {OPF + '::SaveOperationResult'}
    for f, p, n in sites:
        inst = 'DndGuard@' + f.name.split('::')[-1]
        if f.name not in allowed:
            r5.violation(inst, f.loc(n), 'notifications are suspended in %s; only SaveOperationResult (which rewrites the operation\'s own result) may do so' % f.name.split('::')[-1])
            continue
        reach = f.reach(p)
        bads = []
        # the guard lives until the end of the block that declares it
        scope = [a for a in f.ancestors(n) if a['k'] == 'CompoundStmt'][:1]
        in_scope = {x['id'] for x in f.walk(scope[0])} if scope else None
        for c in f.calls():
            cp = f.position_of(c)
            if in_scope is not None and c['id'] not in in_scope:
                continue
            if cp is None or cp not in reach or c is n or (c.get('cs') or '').endswith('ossSourceFacet::InputData'):
                continue          # InputData stores the operation's own result: the one write the guard exists for
            for t in db.callees(f, c):
                if t.name in SYNC:
                    bads.append((c, 'operand synchronisation'))
                elif transitive_calls(db, t, lambda x: (x.get('cs') or '') in SYNC, depth=5):
                    bads.append((c, 'operand synchronisation'))
        seen_b = set()
        for c, what in bads:
            key = ((c.get('cs') or '').split('::')[-1], what)
            if key in seen_b:
                continue
            seen_b.add(key)
            r5.violation('%s:%s' % (inst, key[0]), f.loc(c), 'while notifications are suspended `%s` reaches %s: the change announcement of an operand synchronised there is lost and its other children keep reporting done' % (c.get('txt', '')[:40], what))
        if not bads:
            r5.ok(inst, 'only the own result is written under the guard', f.loc(n))
    if not sites:
        r5.broken('no DndGuard site found')
    # who else can run synchronisation under a guard held by a caller: Execute must not hold one
    er = db.fn(O + 'ossGraphFacet::Erase')
    K = Keyer(er)
    fe = [n for n in er.calls() if n.get('cs') == 'std::for_each']
    rf = [n for n in er.walk() if n['k'] == 'CXXForRangeStmt']
    outer = None
    for n in fe:
        a0 = er.stmts[n['args'][0]]
        if any(x.get('member') == 'graph' for x in er.walk(a0)):
            outer = n
    if outer is None and not any(any(x.get('member') == 'graph' for x in er.walk(er.stmts[l['range']])) for l in rf):
        r5.broken('ossGraphFacet::Erase: renumbering loop over `graph` not recognised')
    elif outer is not None:
        def whole(n, name):
            x = er.strip(n)
            return x['k'] == 'CallExpr' and x.get('cs') in ('std::' + name,) and er.strip(er.stmts[x['args'][0]]).get('member') == 'graph' or \
                (x['k'] == 'CXXMemberCallExpr' and (x.get('cs') or '').split('::')[-1] == name and er.strip(er.stmts[x['obj']]).get('member') == 'graph')
        if whole(er.stmts[outer['args'][0]], 'begin') and whole(er.stmts[outer['args'][1]], 'end'):
            r5.ok('ossGraphFacet::Erase:renumber', 'every adjacency list from begin(graph) to end(graph) is renumbered', er.loc(outer))
        else:
            r5.violation('ossGraphFacet::Erase:renumber', er.loc(outer), 'only part of the adjacency lists is renumbered after a node is erased (`%s` .. `%s`): a list stored before the erased position keeps a stale index and silently points at another pictogram' % (
                er.stmts[outer['args'][0]].get('txt', '')[:40], er.stmts[outer['args'][1]].get('txt', '')[:30]))
    else:
        r5.ok('ossGraphFacet::Erase:renumber', 'range-for over the whole graph', '%s:%d' % (er.file, er.line))
    # the same position is erased from both parallel vectors
    erases = [n for n in er.calls() if (n.get('cs') or '').split('::')[-1] == 'erase' and 'obj' in n and er.strip(er.stmts[n['obj']]).get('member') in ('graph', 'items')]
    keys = {er.strip(er.stmts[n['obj']]).get('member'): repr(K.key(er.stmts[n['args'][0]])).replace("'graph'", "'V'").replace("'items'", "'V'") for n in erases if n.get('args')}
    if set(keys) == {'graph', 'items'} and keys['graph'] == keys['items']:
        r5.ok('ossGraphFacet::Erase:parallel', 'the same position is erased from graph and items', '%s:%d' % (er.file, er.line))
    else:
        r5.violation('ossGraphFacet::Erase:parallel', '%s:%d' % (er.file, er.line), 'graph and items are parallel vectors: erasing different positions (or only one of them) shifts every later pictogram onto another node\'s edges')


def _r6(db, rep):
    """r6: (a) only the source facet dereferences the raw source pointer of a handle: everybody else obtains data through DataFor / OpenSrc, which
    re-open a closed document (reading the raw pointer treats a closed result as 'no previous result' and drops the user's additions);
    (b) ossGraphFacet::LoadParent evaluated on every graph of four nodes: it refuses exactly self-connections, duplicates and connections whose
    reverse already exists - in particular it never refuses a new connection that closes no loop."""
    import itertools
    from engine.evalmini import Interp, Obj, OutOfFragment, NOT_HANDLED
    r7 = rep.rule('r7', 'SILENT-WRITE-ANNOUNCED: a function that rewrites a pictogram\'s document with notifications suspended (the normal path hash change -> OnCoreChange -> children outdated is switched off there) marks the children outdated itself when the formal content changed', 1)
    _silent_write_announced(db, r7)
    r8 = rep.rule('r8', 'TRANSLATIONS-PRESENT: the translations of an operation exist only after it was executed; every dereference of them is dominated by a non-null test (a document can be attached to a pictogram that was never executed), and such a pictogram is not reported as done', 3)
    _translations_guard(db, r8)
    r10 = rep.rule('r10', 'HASH-REFRESHED: src::Handle::UpdateHashes recomputes the core hash on every path on which the handle has a source: the core hash is what the outdated mechanism compares, and it is not a function of the full hash '
                          '(moving a text between two fields of a constituent keeps the full hash and changes the core hash)', 1)
    _hash_refreshed(db, r10)
    r11 = rep.rule('r11', 'HASH-ANNOUNCED: the stored hashes of a source handle are the reference against which the next announced change is measured: outside the handle itself and the loader they are refreshed only by a function that read the core hash before the refresh and reaches OnCoreChange after it (a silent refresh makes the next announcement compare the new content with itself, and the operations built on the source stay done)', 2)
    _hash_announced(db, r11)
    r9 = rep.rule('r9', 'CELL-FREE: a pictogram is put only into a grid cell that was computed as free (ClosestFreePos / ChildPosFor) or whose occupancy was examined on the way: two pictograms never end up sharing a cell, none loses its cell to another', 2)
    _cell_free(db, r9)
    r6 = rep.rule('r6', 'HANDLE-ACCESS / LOAD-PARENT: the raw source pointer of a handle is read only inside ossSourceFacet; LoadParent refuses exactly the connections that are self-connections, duplicates or close a loop of any length (the parent relation of a loaded document is acyclic)', 2)
    SF = O + 'ossSourceFacet'
    offenders = []
    n_reads = 0
    for f in db.functions:
        if not f.has_cfg() or not f.file or '/test/' in f.file or not f.file.startswith('ccl/core/src/oss/'):
            continue
        for x in f.walk():
            if x['k'] == 'MemberExpr' and x.get('member') == 'src' and (x.get('fcls') or '').endswith('oss::Handle') or (x['k'] == 'MemberExpr' and x.get('member') == 'src' and 'Handle' in (x.get('qn') or '')):
                n_reads += 1
                if not (f.cls or '').endswith('ossSourceFacet') and not f.name.startswith(SF):
                    offenders.append((f, x))
    if offenders:
        f, x = offenders[0]
        r6.violation('Handle::src', f.loc(x), '%s reads the raw source pointer of a handle (`%s`): a result document that was closed is seen as absent instead of being re-opened through DataFor/OpenSrc' % (f.name.split('::')[-1], x.get('txt', '')[:40]))
    elif n_reads == 0:
        r6.broken('no access to Handle::src found (anchor vanished)')
    else:
        r6.ok('Handle::src', '%d reads, all inside ossSourceFacet' % n_reads)
    lp = db.fn(O + 'ossGraphFacet::LoadParent', required=False)
    if lp is None:
        r6.broken('anchor vanished: ossGraphFacet::LoadParent')
        return
    bad, cases = None, 0

    def closes_loop(g, child, parent):
        seen, stack = set(), [parent]
        while stack:
            x = stack.pop()
            if x == child:
                return True
            if x in seen:
                continue
            seen.add(x)
            stack += g[x]
        return False
    try:
        nodes = range(4)
        # DAGs in which node i may only have parents among lower-numbered nodes, at most two parents each
        options = [[()] + [(a,) for a in range(i)] + [(a, b) for a in range(i) for b in range(a + 1, i)] for i in nodes]
        for parents in itertools.product(*options):
            for child in nodes:
                for parent in nodes:
                    cases += 1
                    g = [list(p) for p in parents]
                    this = Obj(graph=[list(p) for p in parents], items=list(nodes))

                    def on_call(it, fn, n, env):
                        if (n.get('cs') or '').endswith('::Item2ID'):
                            return it.eval(fn, fn.stmts[n['args'][0]], env)
                        return NOT_HANDLED
                    res = Interp(db, on_call=on_call, max_steps=50000).call(lp, [child, parent], this)
                    must_refuse = child == parent or parent in g[child] or child in g[parent] or closes_loop(g, child, parent)     # the parent relation stays acyclic
                    may_refuse = must_refuse
                    why = None
                    if res and must_refuse:
                        why = 'accepted' + (' although it closes a loop' if closes_loop(g, child, parent) and not (child == parent or parent in g[child] or child in g[parent]) else '')
                    elif not res and not may_refuse:
                        why = 'refused although it is new and closes no loop'
                    elif res and this['graph'][child] != g[child] + [parent]:
                        why = 'accepted but the parents of %d become %s' % (child, this['graph'][child])
                    elif not res and this['graph'] != g:
                        why = 'refused but the graph changed'
                    if why and bad is None:
                        bad = 'parents %s, connection %d -> parent %d: %s' % ({i: list(p) for i, p in enumerate(parents) if p}, child, parent, why)
    except OutOfFragment as e:
        r6.broken('LoadParent outside the evaluable fragment: %s' % e)
        return
    if bad:
        r6.violation('LoadParent', '%s:%d' % (lp.file, lp.line), bad + ' (a loaded document then gives an operation one parent only)')
    else:
        r6.ok('LoadParent', 'refuses exactly self-connections, duplicates and loop-closing connections on %d (graph, connection) cases' % cases, '%s:%d' % (lp.file, lp.line))


def _silent_write_announced(db, r7):
    n_g = 0
    for f in sorted(db.functions, key=lambda x: x.name):
        if not f.has_cfg() or not f.name.startswith('ccl::oss::'):
            continue
        guards = [n for n in f.calls() if (n.get('cs') or '').endswith('::DndGuard')]
        if not guards:
            continue
        n_g += 1
        inst = '::'.join(f.name.split('::')[2:])
        marks = []
        for lp in [x for x in f.walk() if x['k'] == 'CXXForRangeStmt']:
            if not any((c.get('cs') or '').endswith('::ChildrenOf') for c in f.calls(f.stmts[lp['range']])):
                continue
            for n in f.walk(f.stmts[lp['body']]):
                if n['k'] in ('BinaryOperator', 'CXXOperatorCallExpr') and n.get('op') == '=':
                    kids = f.children(n) if n['k'] == 'BinaryOperator' else [f.stmts[a_] for a_ in n['args']]
                    l = f.strip(kids[0])
                    r = f.strip(kids[1])
                    if l is not None and l['k'] == 'MemberExpr' and l.get('member') == 'outdated' and r is not None and r.get('bv', r.get('cv')) in (True, 1):
                        marks.append(n)
            for c in f.calls(f.stmts[lp['body']]):
                if (c.get('cs') or '').split('::')[-1] in ('OnCoreChange', 'MarkOutdated'):
                    marks.append(c)
        direct = [c for c in f.calls() if (c.get('cs') or '').split('::')[-1] == 'OnCoreChange']
        gp = f.position_of(guards[0])
        ok = any(f.position_of(m) in f.reach(gp) for m in marks + direct if f.position_of(m) is not None and gp is not None)
        if ok:
            r7.ok(inst, 'children are marked outdated after the silent write', f.loc(guards[0]))
        else:
            r7.violation(inst, f.loc(guards[0]), 'the document of the pictogram is rewritten while notifications are suspended and no child is marked outdated afterwards: an operation built on this one keeps reporting `done` for a synthesis of the previous content (child = b1+b2, grand = child+b3; edit b1, re-execute child: grand stays done with the old constituents)')
    if not n_g:
        r7.broken('no function suspends notifications (DndGuard): the anchor of this rule vanished')


def _translations_guard(db, r8):
    from engine.cfgq import dominating_guards, normalise_cond
    n_sites = 0
    for f in sorted(db.functions, key=lambda x: x.name):
        if not f.has_cfg() or not f.name.startswith('ccl::oss::ossOperationsFacet::'):
            continue
        for n in f.walk():
            if n['k'] != 'CXXOperatorCallExpr' or n.get('op') not in ('*', '->') or not (n.get('cs') or '').startswith(('std::unique_ptr', 'ccl::meta::PropagateConst', 'ccl::meta::UniqueCPPtr')):
                continue
            tgt = f.strip(f.stmts[n['args'][0]])
            if tgt is None or tgt['k'] != 'MemberExpr' or tgt.get('member') != 'translations':
                continue
            n_sites += 1
            pos = f.position_of(n)
            ok = False
            for c, pol in (dominating_guards(f, pos) if pos is not None else []):
                c2, pol2 = normalise_cond(f, c, pol)
                for x in f.walk(c) if c is not None else []:
                    if x['k'] in ('BinaryOperator', 'CXXOperatorCallExpr') and x.get('op') in ('==', '!=') and 'translations' in (x.get('txt') or '') and 'nullptr' in (x.get('txt') or ''):
                        # polarity of this comparison inside the guard: == nullptr must be false, != nullptr must be true
                        neg = sum(1 for a_ in f.ancestors(x) if a_['k'] == 'UnaryOperator' and a_.get('op') == '!' and any(y is a_ for y in f.walk(c))) % 2 == 1
                        holds = pol != neg
                        if (x['op'] == '!=') == holds:
                            ok = True
            if not ok and pos is not None:
                # the same test in its other spellings (`!p`, `if (p)`, `p != nullptr` behind casts): normalised guard atoms on the same access path
                from engine.cfgq import guard_atoms
                root = f.root_of(tgt)
                ok = root is not None and any(a_[0] in ('nonnull', 'has_value') and a_[1] == root and a_[2] for a_ in guard_atoms(f, pos))
            inst = '%s:%s@%s' % (f.name.split('::')[-1], (n.get('txt') or '')[:30], f.loc(n).split(':')[-1])
            if ok:
                r8.ok(inst, 'dominated by a non-null test of the translations', f.loc(n), nontrivial=False)
            else:
                r8.violation(inst, f.loc(n), '`%s` dereferences the translations without a dominating non-null test (an assert is compiled out): a pictogram that was defined, never executed and then given a document by ConnectPict2Src has none, and Execute / IsTranslatable crash' % (n.get('txt') or '')[:60])
    st = db.fn('ccl::oss::ossOperationsFacet::StatusOf', required=False)
    if st is None:
        r8.broken('anchor vanished: ossOperationsFacet::StatusOf')
    else:
        reads = any(x['k'] == 'MemberExpr' and x.get('member') == 'translations' for x in st.walk())
        if reads:
            r8.ok('StatusOf', 'done is reported only for an operation that has translations', '%s:%d' % (st.file, st.line))
        else:
            r8.violation('StatusOf', '%s:%d' % (st.file, st.line), 'StatusOf reports `done` for any pictogram with a non-empty document, also one that was never executed (no translations): the attached document is shown as the current synthesis of its parents')
    if not n_sites:
        r8.broken('no dereference of ossOperationsFacet translations found')


def _cell_free(db, r9):
    """Every call of ossGridFacet::SetPosFor (the one writer that overwrites a cell unconditionally): the position is a free-cell expression -
    the result of ClosestFreePos / ChildPosFor, a local initialised with one, or a parameter of a non-public function all of whose callers pass
    one - or every path to the call that does not assign such a result to it passes a condition that asks who occupies that position."""
    from engine.cfgq import enumerate_paths
    GF = 'ccl::oss::ossGridFacet'
    FREE = (GF + '::ClosestFreePos', GF + '::ChildPosFor')
    def occupancy(f, c, did):
        if occupancy0(f, c, did):
            return True
        # `if (const auto occupant = operator()(pos); occupant.has_value() ...)`: the condition reads a local that holds the answer
        for y in f.walk(c):
            if y['k'] == 'DeclRefExpr' and y.get('dk') == 'local':
                for s0 in f.rec['stmts']:
                    if s0['k'] == 'DeclStmt':
                        for d in s0.get('decls', []):
                            if d.get('did') == y.get('did') and 'init' in d and occupancy0(f, f.stmts[d['init']], did):
                                return True
        return False
    occupancy0 = lambda f, c, did: any(x['k'] in ('CXXOperatorCallExpr', 'CXXMemberCallExpr', 'CallExpr') and ((x.get('cs') or '') == GF + '::operator()' or (x.get('cs') or '').split('::')[-1] in ('contains', 'count', 'find'))
                                      and any(y['k'] == 'DeclRefExpr' and y.get('did') == did for y in f.walk(x)) for x in f.walk(c))

    def free_expr(f, node, depth=0):
        n = f.strip(node)
        if n is None:
            return False
        if n['k'] in ('CallExpr', 'CXXMemberCallExpr') and (n.get('cs') or '') in FREE:
            return True
        if n['k'] in ('CXXConstructExpr', 'CXXTemporaryObjectExpr') and len(n.get('args', [])) == 1:
            return free_expr(f, f.stmts[n['args'][0]], depth)
        if n['k'] == 'DeclRefExpr' and n.get('dk') == 'local':
            inits = [d for s0 in f.rec['stmts'] if s0['k'] == 'DeclStmt' for d in s0.get('decls', []) if d.get('did') == n.get('did') and 'init' in d]
            writes = [c for c in f.calls() if c['k'] == 'CXXOperatorCallExpr' and c.get('op') == '=' and c.get('args') and (f.strip(f.stmts[c['args'][0]]) or {}).get('did') == n.get('did')]
            bin_writes = [b for b in f.walk() if b['k'] == 'BinaryOperator' and b.get('op') == '=' and (f.strip(f.children(b)[0]) or {}).get('did') == n.get('did')]
            return bool(inits) and all(free_expr(f, f.stmts[d['init']], depth) for d in inits) and all(free_expr(f, f.stmts[c['args'][1]], depth) for c in writes) and all(free_expr(f, f.children(b)[1], depth) for b in bin_writes)
        if n['k'] == 'DeclRefExpr' and n.get('dk') == 'param' and depth < 2 and f.rec.get('access') in ('private', 'protected', 1, 2):
            sites = [(g, c) for g in db.functions if g.body >= 0 for c in g.calls() if c.get('mn') == f.rec.get('mn') and c.get('args')]
            return bool(sites) and all(len(c['args']) > n.get('pidx', 99) and site_ok(g, c, n['pidx'], depth + 1) for g, c in sites)
        return False

    def site_ok(f, c, argi, depth=0):
        """the position passed at this call is a free cell, or its occupancy was examined on every path that does not replace it by one"""
        if free_expr(f, f.stmts[c['args'][argi]], depth):
            return True
        posn = f.strip(f.stmts[c['args'][argi]])
        if posn is None or posn['k'] != 'DeclRefExpr' or not f.has_cfg():
            return False
        did = posn.get('did')
        assigns = [f.position_of(b) for b in f.walk() if ((b['k'] == 'BinaryOperator' and b.get('op') == '=' and (f.strip(f.children(b)[0]) or {}).get('did') == did and free_expr(f, f.children(b)[1], depth))
                                                            or (b['k'] == 'CXXOperatorCallExpr' and b.get('op') == '=' and b.get('args') and (f.strip(f.stmts[b['args'][0]]) or {}).get('did') == did and free_expr(f, f.stmts[b['args'][1]], depth)))]
        assigns = [p_ for p_ in assigns if p_ is not None]
        pos = f.position_of(c)
        if pos is None:
            return False
        paths = enumerate_paths(f, f.graph()[1], [pos], avoid=assigns, limit=200)
        return all(any(occupancy(f, cond, did) for cond, _pol in path) for path in paths)
    n_sites = 0
    for f in sorted(db.functions, key=lambda x: x.name):
        if f.body < 0 or not f.has_cfg() or not f.name.startswith('ccl::oss::'):
            continue
        for c in f.calls():
            if (c.get('cs') or '') != GF + '::SetPosFor' or len(c.get('args', [])) < 2:
                continue
            n_sites += 1
            inst = '%s:SetPosFor' % f.name.split('::')[-1]
            if free_expr(f, f.stmts[c['args'][1]]):
                r9.ok(inst, 'the position is computed as a free cell (here or by every caller)', f.loc(c))
                continue
            ok = site_ok(f, c, 1)
            if ok:
                r9.ok(inst, 'every path either takes a free cell or has asked who occupies the target cell', f.loc(c))
            else:
                r9.violation(inst, f.loc(c), '`%s` overwrites the cell whatever it holds: the position comes from the caller and no path asks who occupies it - LoadPosition(first, cell of second) leaves the second pictogram without a cell '
                             '(serialising the schema then throws bad_optional_access)' % (c.get('txt') or '')[:60])
    if not n_sites:
        r9.broken('no call of ossGridFacet::SetPosFor found')


def _hash_announced(db, rule):
    HU = 'ccl::src::Handle::UpdateHashes'
    n_sites = 0
    for f in db.functions:
        if f.rec.get('dependent') or not f.has_cfg() or f.name.startswith('ccl::src::Handle::'):
            continue
        # direct writes of the stored hashes
        for b in f.walk():
            lhs = None
            if b['k'] == 'BinaryOperator' and b.get('op') == '=':
                lhs = f.strip(f.children(b)[0])
            elif b['k'] == 'CXXOperatorCallExpr' and b.get('op') == '=' and b.get('args'):
                lhs = f.strip(f.stmts[b['args'][0]])
            if lhs is not None and lhs['k'] == 'MemberExpr' and lhs.get('member') in ('coreHash', 'fullHash') and 'Handle' in (lhs.get('cls') or lhs.get('btype') or 'Handle'):
                n_sites += 1
                rule.violation('write:' + f.name.split('::')[-1], f.loc(b), '%s assigns the stored %s of a source handle directly: the reference of the next announced change is replaced without any comparison' % (f.name.split('::')[-1], lhs['member']))
        sites = call_sites(f, lambda n: n.get('cs') == HU)
        if not sites:
            continue
        n_sites += len(sites)
        inst = 'refresh:' + '::'.join(f.name.split('::')[-2:])
        reads = [f.position_of(m) for m in f.walk() if m['k'] == 'MemberExpr' and m.get('member') == 'coreHash']
        reads = [p for p in reads if p is not None]
        notes = [p for p, _ in call_sites(f, lambda n: (n.get('cs') or '').endswith('::OnCoreChange'))]
        entry = f.graph()[1]
        unread = paths_avoiding(f, [entry], reads, [(p, '') for p, _ in sites]) if reads else [1]
        cut_off = []
        for p, _ in sites:
            # some path from the refresh reaches the announcement of the change
            if notes and not paths_avoiding(f, [p], [], [(q, "") for q in notes]):
                cut_off.append(p)
        if unread:
            rule.violation(inst, f.loc(sites[0][1]), '%s refreshes the stored hashes of a handle without having read the previous core hash: nothing can be compared, the change between the old and the new content is lost for the outdated mechanism' % f.name.split('::')[-1])
        elif not notes or cut_off:
            rule.violation(inst, f.loc(sites[0][1]), '%s refreshes the stored hashes of a handle and never reaches OnCoreChange afterwards: the operations built on this source are not told that its formal content changed and keep reporting done' % f.name.split('::')[-1])
        else:
            rule.ok(inst, 'the previous core hash is read before the refresh and OnCoreChange is reachable after it', f.loc(sites[0][1]))
    if n_sites == 0:
        rule.broken('no call of src::Handle::UpdateHashes found outside the handle')
    else:
        rule.ok('writers', 'no direct assignment of a stored hash outside src::Handle; %d refresh site(s)' % n_sites, '')


def _hash_refreshed(db, r10):
    from engine.cfgq import enumerate_paths, normalise_cond, success_exits
    f = db.fn('ccl::src::Handle::UpdateHashes', required=False)
    if f is None or not f.has_cfg():
        r10.broken('anchor vanished: src::Handle::UpdateHashes')
        return

    def member(n, name):
        n = f.strip(n)
        return n is not None and n['k'] == 'MemberExpr' and n.get('member') == name
    writes = [f.position_of(b) for b in f.walk() if b['k'] == 'BinaryOperator' and b.get('op') == '=' and member(f.children(b)[0], 'coreHash')]
    writes += [f.position_of(c) for c in f.calls() if c['k'] == 'CXXOperatorCallExpr' and c.get('op') == '=' and c.get('args') and member(f.stmts[c['args'][0]], 'coreHash')]
    writes = [p for p in writes if p is not None]
    if not writes:
        r10.violation('UpdateHashes', '%s:%d' % (f.file, f.line), 'the core hash is never recomputed')
        return
    bad = None
    for ex, _w in success_exits(f, failure_literals=()):
        for path in enumerate_paths(f, f.graph()[1], [ex], avoid=writes, limit=100):
            no_source = False
            for cond, pol in path:
                c2, p2 = normalise_cond(f, cond, pol)
                if c2 is None:
                    continue
                kids = [f.strip(x) for x in (f.children(c2) if c2['k'] == 'BinaryOperator' else [f.stmts[a] for a in c2.get('args', [])])] if c2.get('op') in ('==', '!=') else []
                if len(kids) == 2 and any(x is not None and x['k'] in ('CXXNullPtrLiteralExpr', 'GNUNullExpr') for x in kids) and any(x is not None and x['k'] == 'MemberExpr' and x.get('member') == 'src' for x in kids):
                    if (c2['op'] == '==') == p2:
                        no_source = True
                elif c2['k'] == 'MemberExpr' and c2.get('member') == 'src' and not p2:
                    no_source = True
            if not no_source:
                bad = [((c.get('txt') or '')[:40], p) for c, p in path]
                break
        if bad:
            break
    if bad is not None:
        r10.violation('UpdateHashes', '%s:%d' % (f.file, f.line), 'a path with a source leaves the core hash as it was (decisions: %s): the outdated mechanism compares core hashes, so an announced change of the formal content that keeps the other hash goes unnoticed and the operation built on the source stays done' % bad)
    else:
        r10.ok('UpdateHashes', 'the core hash is recomputed on every path that has a source', '%s:%d' % (f.file, f.line))
