"""C09 — identity and ordering invariants of a schema hold after any edit history.

 r1 CO-UPDATE    every RSCore function that adds a constituent to one view (identifier registry, formal part, texts, ordered
                 list) adds it to all four on every path; the eraser removes it from all four; callers above RSCore that erase
                 go through the layer that also drops the tracking entry (WHO-MAY call RSCore::Erase).
 r2 GUARDS       RSForm::Erase and RSForm::SetExpressionFor reach the core only when the target is not tracked.
 r3 REFUSAL      NO-MUTATION-BEFORE-REFUSAL: in every bool/optional mutator of the identity/list/core/form classes no state change
                 can reach a refusing return, except a callee that itself refuses without changing anything.
 r4 TABLES       HasPriorityOver orders base > constant > structured > derived (all derived equal) on all pairs of kinds;
                 FirstLetterOf and GetTypeForName are mutually inverse on the 8 kinds and IsNameCorrect accepts exactly those letters.
 r5 REGISTRY     RegisterID / RegisterEntity / GenerateNewID leave both the identifier and the alias registered on every path;
                 NewNameFor registers the name it returns; TryAlias frees the old and registers the new alias together.
 r10 RENUMBER-FAITHFUL (shared C13 r8)  ResetAliases interpreted on schemas with gaps.
 r11 LIST-GROUPED  CstList::MoveBefore / Insert interpreted on every grouped list of up to four constituents: an accepted move or an insertion
                 leaves a grouped permutation, a refusal leaves the list alone (inductive: every history keeps base < constant < structure < derived).
Not decided: uniqueness of random identifiers beyond the evaluated generator.
"""
from engine.cfgq import call_sites, paths_avoiding, success_exits, guard_atoms, enumerate_paths, describe_pos
from engine.evalmini import Interp, OutOfFragment, enum_values
from engine.modset import ModSets
from engine.facts import AnalysisBroken

UNITS = ['CCL']
S = 'ccl::semantic::'
CORE = S + 'RSCore'

VIEWS = {
    'registry': {'add': {S + 'IdentityManager::GenerateNewID', S + 'IdentityManager::RegisterID', S + 'IdentityManager::RegisterEntity'}, 'erase': {S + 'IdentityManager::Erase'}},
    'schema': {'add': {S + 'Schema::Emplace', S + 'Schema::Insert', S + 'Schema::Load'}, 'erase': {S + 'Schema::Erase'}},
    'thesaurus': {'add': {S + 'Thesaurus::Emplace', S + 'Thesaurus::Insert', S + 'Thesaurus::Load'}, 'erase': {S + 'Thesaurus::Erase'}},
    'list': {'add': {S + 'CstList::Insert'}, 'erase': {S + 'CstList::Erase'}},
}

MAY_ERASE_CORE = {S + 'RSForm::EraseInternal': 'also drops the tracking entry', S + 'RSModel::Erase': 'also drops value and calculation entries (C11 r3)'}

REFUSAL_CLASSES = [S + 'RSCore', S + 'IdentityManager', S + 'CstList', S + 'RSForm', S + 'rsModificationFacet']


def _list_grouped(db, rule, thorough):
    import itertools
    from engine.evalmini import Interp, Obj, OutOfFragment, enum_values
    S_ = 'ccl::semantic::'
    fns = {k: db.fn(S_ + 'CstList::' + k, required=False) for k in ('MoveBefore', 'Insert', 'end', 'Find')}
    if any(v is None for v in fns.values()):
        rule.broken('anchor vanished: CstList::%s' % ', '.join(k for k, v in fns.items() if v is None))
        return
    T = enum_values(db, S_ + 'CstType')
    # the order the property names: base sets, constants, structures, then everything derived
    GROUP = {'base': 0, 'constant': 1, 'structured': 2}
    kinds = ['base', 'constant', 'structured', 'term', 'axiom'] + (['function', 'theorem', 'predicate'] if thorough else [])
    if any(k not in T for k in kinds):
        rule.broken('CstType lost one of %s' % kinds)
        return
    grp = lambda k: GROUP.get(k, 3)
    grouped = lambda ks: all(grp(a) <= grp(b) for a, b in zip(ks, ks[1:]))
    bad_m, bad_i, moves, inserts = None, None, 0, 0
    try:
        for ln in range(1, 5):
            for ks in itertools.product(kinds, repeat=ln):
                if not grouped(ks):
                    continue
                ids = list(range(1, ln + 1))
                km = {i: k for i, k in zip(ids, ks)}
                for what in range(ln):
                    for where in range(ln + 1):
                        this = Obj(__cls__=S_ + 'CstList', order=list(ids), types=('pyfn', lambda uid, km=km: T[km[uid]]))
                        it = Interp(db)
                        w = it.call(fns['end'], [], this) if where == ln else it.call(fns['Find'], [ids[where]], this)
                        ok = it.call(fns['MoveBefore'], [ids[what], w], this)
                        after = list(this['order'])
                        moves += 1
                        msg = None
                        if sorted(after) != ids:
                            msg = 'the list becomes %s' % after
                        elif not ok and after != ids:
                            msg = 'the move is refused and the list changes to %s' % [km[i] for i in after]
                        elif ok and not grouped([km[i] for i in after]):
                            msg = 'the move is accepted and the list becomes %s' % [km[i] for i in after]
                        elif not ok and what == where:
                            msg = 'moving a constituent onto its own place is refused'
                        if msg and bad_m is None:
                            bad_m = 'list %s, moving #%d (%s) before %s: %s' % (list(ks), what + 1, ks[what], 'the end' if where == ln else '#%d (%s)' % (where + 1, ks[where]), msg)
                for nk in kinds:
                    km2 = dict(km)
                    km2[ln + 1] = nk
                    this = Obj(__cls__=S_ + 'CstList', order=list(ids), types=('pyfn', lambda uid, km2=km2: T[km2[uid]]))
                    Interp(db).call(fns['Insert'], [ln + 1], this)
                    after = list(this['order'])
                    inserts += 1
                    if (sorted(after) != ids + [ln + 1] or [i for i in after if i != ln + 1] != ids or not grouped([km2[i] for i in after])) and bad_i is None:
                        bad_i = 'inserting a %s into %s gives %s' % (nk, list(ks), [km2.get(i, '?') for i in after])
    except OutOfFragment as e:
        if str(e).startswith('call to ') or 'form at' in str(e):
            rule.broken('CstList outside the evaluable fragment: %s' % e)
            return
        bad_m = bad_m or 'CstList faults: %s' % e
    for inst, bad, cnt, f in (('MoveBefore', bad_m, moves, fns['MoveBefore']), ('Insert', bad_i, inserts, fns['Insert'])):
        if bad:
            rule.violation(inst, '%s:%d' % (f.file, f.line), bad)
        else:
            rule.ok(inst, '%d cases on grouped lists of up to 4 constituents over %d kinds' % (cnt, len(kinds)), '%s:%d' % (f.file, f.line))


def check(db, rep):
    rep.explanation = ('Views of a constituent are updated together on every path (CO-UPDATE), refusals happen before any mutation, guards for tracked '
                       'constituents dominate the core calls, and the kind/letter/priority tables are evaluated over the whole CstType domain.')
    M = ModSets(db)

    # ------------------------------------------------------------ r1
    r1 = rep.rule('r1', 'CO-UPDATE: adders of RSCore add to registry, formal part, texts and list on every success path; Erase removes from all four; only the tracking-aware layer may call RSCore::Erase', 9)
    n_add = 0
    for f in db.methods_of(CORE):
        if not f.has_cfg():
            continue
        for mode in ('add', 'erase'):
            present = {v: call_sites(f, lambda n, v=v: n.get('cs') in VIEWS[v][mode]) for v in VIEWS}
            if not any(present[v] for v in ('schema', 'thesaurus', 'list')):
                continue
            if mode == 'add' and f.name.endswith('ResetAliases'):
                continue
            n_add += mode == 'add'
            inst = '%s#%d:%s' % (f.name.split('::')[-1], len(f.rec['params']), mode) if mode == 'add' else f.name.split('::')[-1] + ':erase'
            if mode == 'add':
                inst = '%s(%s):add' % (f.name.split('::')[-1], ','.join(p['type'].split('::')[-1].replace('const ', '').strip(' &') for p in f.rec['params']))
            trig = [p for v in VIEWS for p, _ in present[v]]
            exits = success_exits(f)
            missing = []
            for v in VIEWS:
                fam = [p for p, _ in present[v]]
                if not fam:
                    missing.append(v)
                    continue
                # every site that touches another view is followed (before the next success exit) or preceded (on every path
                # from the entry) by a call of this view's family
                for u in VIEWS:
                    if u == v:
                        continue
                    for t, _ in present[u]:
                        post = not paths_avoiding(f, [t], fam, exits)
                        pre = not paths_avoiding(f, [f.graph()[1]], fam, [(t, '')])
                        if not (post or pre) and v not in missing:
                            missing.append(v)
            if missing:
                r1.violation(inst, '%s:%d' % (f.file, f.line), '%s can complete without updating view(s) %s: the constituent %s only some views' % (f.name.split('::')[-1], missing, 'enters' if mode == 'add' else 'leaves'))
            else:
                r1.ok(inst, 'all four views updated on every success path', '%s:%d' % (f.file, f.line))
    rep.note('rscore_adders', n_add)
    # WHO-MAY call RSCore::Erase
    for f in db.functions:
        if f.cls == CORE or f.rec.get('dependent'):
            continue
        for n in f.calls():
            if n.get('cs') == CORE + '::Erase':
                inst = 'caller:' + f.name.split('::')[-2] + '::' + f.name.split('::')[-1]
                if f.name in MAY_ERASE_CORE:
                    r1.ok(inst, MAY_ERASE_CORE[f.name], f.loc(n), nontrivial=False)
                else:
                    r1.violation(inst, f.loc(n), '%s erases through RSCore::Erase directly: tracking (and model value) entries of the erased constituent are left behind; use the layer\'s own eraser' % f.name.split('::')[-1])
    # EraseInternal drops tracking
    ei = db.fn(S + 'RSForm::EraseInternal')
    core_pos = [p for p, _ in call_sites(ei, lambda n: n.get('cs') == CORE + '::Erase')]
    track_pos = [p for p, _ in call_sites(ei, lambda n: n.get('cs') == S + 'rsModificationFacet::Erase')]
    if core_pos and track_pos and not paths_avoiding(ei, core_pos, track_pos, success_exits(ei)):
        r1.ok('RSForm::EraseInternal', 'tracking entry dropped on every success path', '%s:%d' % (ei.file, ei.line))
    else:
        r1.violation('RSForm::EraseInternal', '%s:%d' % (ei.file, ei.line), 'a successful erase can leave the tracking entry of the erased constituent')

    # ------------------------------------------------------------ r2
    r2 = rep.rule('r2', 'GUARDS: RSForm::Erase / SetExpressionFor reach the core only under !IsTracking(target)', 2)
    for name, callee in ((S + 'RSForm::Erase', S + 'RSForm::EraseInternal'), (S + 'RSForm::SetExpressionFor', CORE + '::SetExpressionFor')):
        f = db.fn(name)
        sites = call_sites(f, lambda n: n.get('cs') == callee)
        if not sites:
            r2.violation(name.split('::')[-1], '%s:%d' % (f.file, f.line), 'does not reach %s' % callee.split('::')[-1])
            continue
        ok = True
        for p, n in sites:
            atoms = guard_atoms(f, p)
            if not any(a[0] == 'other' and 'IsTracking' in a[1] and a[2] is False for a in atoms):
                ok = False
        if ok:
            r2.ok('RSForm::' + name.split('::')[-1], 'guarded by !IsTracking(target)', '%s:%d' % (f.file, f.line))
        else:
            r2.violation('RSForm::' + name.split('::')[-1], '%s:%d' % (f.file, f.line), 'the core can be modified for a tracked (inherited) constituent: no dominating !IsTracking(target) guard')

    # ------------------------------------------------------------ r3
    r3 = rep.rule('r3', 'REFUSAL: no state change reaches a refusing return (false/nullopt/nullptr) in a mutator, except through a callee that itself refuses cleanly', 8)
    checked = {}
    for cls in REFUSAL_CLASSES:
        for f in db.methods_of(cls):
            if f.has_cfg() and not f.rec.get('const') and not f.rec.get('ctor') and f.rec.get('ret', '').replace('const ', '') in ('bool',) or (f.has_cfg() and not f.rec.get('const') and 'optional' in f.rec.get('ret', '')):
                checked[f.name + '#' + f.mn] = f
    clean = {}

    def refuses_cleanly(f, depth=0):
        key = f.name + '#' + f.mn
        if key in clean:
            return clean[key]
        clean[key] = (True, None)   # optimistic for recursion
        res = _refusal(db, M, f, lambda g: refuses_cleanly(g, depth + 1)[0] if depth < 6 else False)
        clean[key] = res
        return res
    for key, f in sorted(checked.items()):
        ok, why = refuses_cleanly(f)
        rets = [r for p, r in f.return_sites() if f.return_literal(r) in ('false', 'nullopt', 'nullptr')]
        if not rets:
            continue
        inst = '%s::%s' % (f.cls.split('::')[-1], f.name.split('::')[-1])
        if ok:
            r3.ok(inst, '%d refusing returns, none reachable after a state change' % len(rets), '%s:%d' % (f.file, f.line))
        else:
            r3.violation(inst, why[0], why[1])

    # ------------------------------------------------------------ r4
    r4 = rep.rule('r4', 'TABLES: kind priority (base > constant > structured > derived), name letter <-> kind bijection, IsNameCorrect letter set', 3)
    _tables(db, r4)

    # ------------------------------------------------------------ r5
    r5 = rep.rule('r5', 'REGISTRY: identifier and alias are registered on every path of the registering functions; TryAlias swaps atomically', 5)
    IM = S + 'IdentityManager'
    for name in ('RegisterID', 'RegisterEntity', 'GenerateNewID'):
        f = db.fn(IM + '::' + name)
        exits = success_exits(f)
        idp = [p for p, _ in call_sites(f, lambda n: n.get('cs') in ('ccl::tools::EntityGenerator::AddUID', 'ccl::tools::EntityGenerator::NewUID'))]
        alp = [p for p, _ in call_sites(f, lambda n: n.get('cs') in ('ccl::tools::CstNameGenerator::AddUID', 'ccl::tools::CstNameGenerator::NewNameFor'))]
        bad = []
        if not idp or paths_avoiding(f, [f.graph()[1]], idp, exits):
            bad.append('identifier')
        if not alp or paths_avoiding(f, [f.graph()[1]], alp, exits):
            bad.append('alias')
        if bad:
            r5.violation(name, '%s:%d' % (f.file, f.line), 'a path through %s leaves the %s unregistered: a later constituent can receive the same one' % (name, ' and '.join(bad)))
        else:
            r5.ok(name, 'identifier and alias registered on every path', '%s:%d' % (f.file, f.line))
    nn = db.fn('ccl::tools::CstNameGenerator::NewNameFor')
    if call_sites(nn, lambda n: n.get('cs') == 'ccl::tools::CstNameGenerator::AddUID') and not paths_avoiding(nn, [nn.graph()[1]], [p for p, _ in call_sites(nn, lambda n: n.get('cs') == 'ccl::tools::CstNameGenerator::AddUID')], success_exits(nn)):
        r5.ok('NewNameFor', 'the generated name is registered before it is returned', '%s:%d' % (nn.file, nn.line))
    else:
        r5.violation('NewNameFor', '%s:%d' % (nn.file, nn.line), 'NewNameFor returns a name without registering it')
    ta = db.fn(IM + '::TryAlias')
    fr = call_sites(ta, lambda n: n.get('cs') == 'ccl::tools::CstNameGenerator::FreeUID')
    ad = call_sites(ta, lambda n: n.get('cs') == 'ccl::tools::CstNameGenerator::AddUID')
    if len(fr) == 1 and len(ad) == 1 and fr[0][0][0] == ad[0][0][0]:
        r5.ok('TryAlias', 'old alias freed and new alias registered in the same step', '%s:%d' % (ta.file, ta.line))
    else:
        r5.violation('TryAlias', '%s:%d' % (ta.file, ta.line), 'freeing the old alias and registering the new one are not done together')
    er = db.fn(IM + '::Erase')
    if call_sites(er, lambda n: n.get('cs') == 'ccl::tools::EntityGenerator::FreeUID') and call_sites(er, lambda n: n.get('cs') == 'ccl::tools::CstNameGenerator::FreeUID'):
        r5.ok('Erase', 'identifier and alias both released', '%s:%d' % (er.file, er.line))
    else:
        r5.violation('Erase', '%s:%d' % (er.file, er.line), 'erasing does not release both the identifier and the alias')
    _generator_rule(db, rep)


def _mutating_events(db, M, f):
    """[(position, node, callee Fn or None)] of state changes in f"""
    out = []
    for fld, how, n, path in M.direct_events(f):
        p = f.position_of(n)
        if p is not None:
            t = db.by_mn.get(n.get('mn') or '') if how.startswith('call') else None
            out.append((p, n, t))
    for n in f.calls():
        if n['k'] == 'CXXMemberCallExpr' and not n.get('staticm') and not n.get('constm'):
            obj = f.strip(f.stmts[n['obj']]) if 'obj' in n else None
            if obj is None or obj['k'] == 'CXXThisExpr':
                t = db.by_mn.get(n.get('mn') or '')
                if t is not None and M.mods(t):
                    p = f.position_of(n)
                    if p is not None:
                        out.append((p, n, t))
    return out


def _refusal(db, M, f, callee_clean):
    rets = [(p, r) for p, r in f.return_sites() if f.return_literal(r) in ('false', 'nullopt', 'nullptr')]
    if not rets:
        return True, None
    events = _mutating_events(db, M, f)
    for p, n, t in events:
        for rp, r in rets:
            paths = enumerate_paths(f, p, [rp], limit=200)
            if not paths:
                continue
            # acceptable only if the event is a call whose failure is exactly what leads to this return
            if t is not None and t.rec.get('ret', '') in ('bool',) or (t is not None and 'optional' in t.rec.get('ret', '')):
                guarded = True
                for path in paths:
                    hit = False
                    for c, pol in path:
                        c2 = f.strip(c)
                        neg = False
                        while c2 is not None and c2['k'] == 'UnaryOperator' and c2.get('op') == '!':
                            neg = not neg
                            c2 = f.strip(f.children(c2)[0])
                        if c2 is not None and (c2['id'] == n['id'] or any(x['id'] == n['id'] for x in f.walk(c2)) and c2['k'] in ('CXXMemberCallExpr', 'CallExpr')):
                            if (pol and neg) or (not pol and not neg):
                                hit = True
                    if not hit:
                        guarded = False
                if guarded and callee_clean(t):
                    continue
            return False, (f.loc(n), '`%s` changes state and the refusing `%s` at line %s is still reachable: a refused %s is not a no-op' % (
                n.get('txt', '')[:60], r.get('txt', '')[:30], r.get('line'), f.name.split('::')[-1]))
    return True, None


def priority_rule(db, r4):
    cst = enum_values(db, S + 'CstType')
    kinds = {k: v for k, v in cst.items() if not k.endswith('_')}
    hp = next((f for f in db.functions if f.name.endswith('::HasPriorityOver')), None)
    if hp is None:
        r4.broken('anchor vanished: HasPriorityOver')
    else:
        rank = {'base': 3, 'constant': 2, 'structured': 1}
        bad = None
        try:
            for a, av in kinds.items():
                for b, bv in kinds.items():
                    it = Interp(db, on_call=_array_at)
                    got = it.call(hp, [av, bv])
                    want = rank.get(a, 0) > rank.get(b, 0)
                    if bool(got) != want and bad is None:
                        bad = (a, b, got, want)
            if bad:
                r4.violation('HasPriorityOver', '%s:%d' % (hp.file, hp.line), 'HasPriorityOver(%s, %s) = %s, the list order base < constant < structured < derived requires %s' % bad)
            else:
                r4.ok('HasPriorityOver', '%d pairs of kinds' % (len(kinds) ** 2), '%s:%d' % (hp.file, hp.line))
        except OutOfFragment as e:
            r4.broken('HasPriorityOver outside the fragment: %s' % e)


def _tables(db, r4):
    cst = enum_values(db, S + 'CstType')
    kinds = {k: v for k, v in cst.items() if not k.endswith('_')}
    priority_rule(db, r4)
    fl = next((f for f in db.functions if f.name.endswith('::FirstLetterOf')), None)
    gt = db.fn('ccl::tools::CstNameGenerator::GetTypeForName')
    nc = db.fn('ccl::tools::CstNameGenerator::IsNameCorrect')
    if fl is None:
        r4.broken('anchor vanished: FirstLetterOf')
        return
    try:
        letters = {}
        for k, v in kinds.items():
            letters[k] = Interp(db).call(fl, [v])
        if len(set(letters.values())) != len(letters):
            r4.violation('FirstLetterOf', '%s:%d' % (fl.file, fl.line), 'two kinds share a first letter: %s' % {k: chr(v) for k, v in letters.items()})
        else:
            r4.ok('FirstLetterOf', 'injective: %s' % ''.join(chr(v) for v in letters.values()), '%s:%d' % (fl.file, fl.line))
        # GetTypeForName switch (after IsNameCorrect): letter -> kind
        sw = [n for n in gt.walk() if n['k'] == 'SwitchStmt']
        table = _switch_returns(gt, sw[0]) if sw else {}
        inv_bad = [k for k, v in kinds.items() if table.get(letters[k]) != v]
        if inv_bad:
            r4.violation('GetTypeForName', '%s:%d' % (gt.file, gt.line), 'GetTypeForName does not invert FirstLetterOf for kinds %s: a generated alias is re-issued or assigned to the wrong kind' % inv_bad)
        else:
            r4.ok('GetTypeForName', 'inverse of FirstLetterOf on all %d kinds' % len(kinds), '%s:%d' % (gt.file, gt.line))
        sw2 = [n for n in nc.walk() if n['k'] == 'SwitchStmt']
        accepted = _switch_labels_reaching_break(nc, sw2[0]) if sw2 else set()
        if accepted == set(letters.values()):
            r4.ok('IsNameCorrect', 'accepts exactly the 8 kind letters', '%s:%d' % (nc.file, nc.line))
        else:
            r4.violation('IsNameCorrect', '%s:%d' % (nc.file, nc.line), 'accepted first letters %s differ from the kind letters %s' % (sorted(map(chr, accepted)), sorted(chr(v) for v in letters.values())))
    except OutOfFragment as e:
        r4.broken('name tables outside the fragment: %s' % e)


def _array_at(it, fn, n, env):
    from engine.evalmini import NOT_HANDLED
    cs = n.get('cs') or ''
    if cs.startswith('std::array::at') and 'obj' in n:
        arr = it.eval(fn, fn.stmts[n['obj']], env)
        i = it.eval(fn, fn.stmts[n['args'][0]], env)
        if isinstance(arr, list):
            if len(arr) == 1 and isinstance(arr[0], list):
                arr = arr[0]
            if not (0 <= i < len(arr)):
                raise OutOfFragment('array index %d out of range' % i)
            return arr[i]
    if n['k'] in ('CXXConstructExpr',) and (n.get('cls') or '').startswith('std::array'):
        return [it.eval(fn, fn.stmts[a], env) for a in n.get('args', [])]
    return NOT_HANDLED


def _switch_returns(f, sw):
    """case value -> returned constant (enumerator value)"""
    body = f.stmts[sw['body']]
    out = {}
    pending = []
    for cid in body['c']:
        st = f.stmts[cid]
        while st['k'] in ('CaseStmt', 'DefaultStmt'):
            if st['k'] == 'CaseStmt':
                pending.append(st.get('cv'))
            st = f.stmts[st['sub']]
        if st['k'] == 'ReturnStmt' and 'value' in st:
            v = f.strip(f.stmts[st['value']])
            while v is not None and 'cv' not in v and v.get('c') and v['k'] != 'DeclRefExpr':
                v = f.strip(f.children(v)[0])
            val = v.get('cv', v.get('val')) if v else None
            for l in pending:
                out[l] = val
            pending = []
    return out


def _switch_labels_reaching_break(f, sw):
    body = f.stmts[sw['body']]
    out = set()
    pending = []
    for cid in body['c']:
        st = f.stmts[cid]
        is_default = False
        while st['k'] in ('CaseStmt', 'DefaultStmt'):
            if st['k'] == 'CaseStmt':
                pending.append(st.get('cv'))
            else:
                is_default = True
            st = f.stmts[st['sub']]
        if st['k'] == 'BreakStmt':
            out |= set(pending)
            pending = []
        elif st['k'] == 'ReturnStmt':
            pending = []
    return out


def _generator_rule(db, rep):
    """r6: EntityGenerator::NewUID evaluated for every registry content over {1,2} and every scripted sequence of random draws: the identifier
    returned is not one that was taken, and it is registered (taken afterwards) - otherwise a later AddUID/NewUID can hand it out again."""
    import itertools
    from engine.evalmini import Interp, Obj, OutOfFragment, NOT_HANDLED
    r6 = rep.rule('r6', 'GENERATOR: NewUID returns an identifier that was free and registers it; AddUID registers, FreeUID releases, IsTaken reads the registry', 2)
    EG = 'ccl::tools::EntityGenerator'
    f = db.fn(EG + '::NewUID', required=False)
    if f is None:
        r6.broken('anchor vanished: EntityGenerator::NewUID')
        return
    bad, cases = None, 0
    try:
        for taken in ([], [1], [2], [1, 2]):
            for draws in itertools.product((1, 2), repeat=(4 if rep.tier == 'thorough' else 2)):
                script = list(draws) + [3]
                cases += 1
                this = Obj(entities=set(taken), distribution=Obj(__kind__='dist'))
                pos = [0]

                def on_call(it, fn, n, env, script=script, pos=pos):
                    if n['k'] == 'CXXOperatorCallExpr' and n.get('op') == '()' and 'distribution' in fn.stmts[n['args'][0]].get('txt', ''):
                        v = script[min(pos[0], len(script) - 1)]
                        pos[0] += 1
                        return v
                    if (n.get('cs') or '').endswith('Environment::RNG'):
                        return Obj(__kind__='rng')
                    return NOT_HANDLED
                res = Interp(db, on_call=on_call, max_steps=20000).call(f, [], this)
                why = None
                if res in taken:
                    why = 'returns %s, which was already taken' % res
                elif res not in this['entities']:
                    why = 'returns %s without registering it: the same identifier can be generated or added again while its owner is alive' % res
                elif this['entities'] != set(taken) | {res}:
                    why = 'registry becomes %s' % sorted(this['entities'])
                if why and bad is None:
                    bad = 'registry %s, random draws %s: %s' % (taken, script, why)
    except OutOfFragment as e:
        r6.broken('EntityGenerator::NewUID outside the evaluable fragment: %s' % e)
        return
    if bad:
        r6.violation('NewUID', '%s:%d' % (f.file, f.line), bad)
    else:
        r6.ok('NewUID', 'fresh and registered on %d (registry, draws) cases' % cases, '%s:%d' % (f.file, f.line))
    # the three small accessors
    bad = None
    try:
        for name, args, before, after, ret in (('AddUID', [5], {1}, {1, 5}, None), ('FreeUID', [1], {1, 5}, {5}, None), ('IsTaken', [1], {1}, {1}, True), ('IsTaken', [2], {1}, {1}, False)):
            g = db.fn(EG + '::' + name)
            this = Obj(entities=set(before))
            r = Interp(db).call(g, args, this)
            if this['entities'] != after or (ret is not None and bool(r) != ret):
                bad = bad or '%s(%s) on %s gives registry %s, result %s' % (name, args[0], sorted(before), sorted(this['entities']), r)
    except OutOfFragment as e:
        r6.broken('EntityGenerator accessors outside the evaluable fragment: %s' % e)
        return
    if bad:
        r6.violation('registry-accessors', EG, bad)
    else:
        r6.ok('registry-accessors', 'AddUID inserts, FreeUID erases, IsTaken tests membership')
    # membership changes refresh the text-side graphs as well (shared with C07 r1, thesaurus family)
    r8 = rep.rule('r8', 'SELF-REFERENCE: a schema object whose member refers back to the object (the ordered list asks its owner for the kind of a constituent) is never copied or moved memberwise, otherwise the copy orders its list by the kinds stored in the original', 5)
    from rules.shared_selfref import selfref_rule
    selfref_rule(db, r8, ['ccl::semantic::', 'ccl::ops::', 'ccl::oss::', 'ccl::src::'])
    r9 = rep.rule('r9', 'REGISTRY-KEPT (shared with C12 r5): the group insertions (MergeWith / InsertCopy of a group or of records), interpreted, leave the registry of taken names holding the alias of every constituent, '
                        'every copy recorded and every alias unique', 2)
    from rules import C12
    C12.merge_evaluated(db, r9)
    r10 = rep.rule('r10', 'RENUMBER-FAITHFUL (shared with C13 r8): ResetAliases interpreted on schemas with gaps keeps the referent of every mention, never gives a dangling mention a meaning, and leaves the registry holding exactly the names in use', 1)
    from rules import C13
    C13.renumber_evaluated(db, r10)
    r11 = rep.rule('r11', 'LIST-GROUPED: CstList::Insert and CstList::MoveBefore, interpreted from their source on every kind-ordered list of up to four constituents, keep base sets before constants before structures before derived constituents: an accepted move leaves a grouped permutation of the list, a refused one leaves the list as it was, a constituent moved onto its own place is accepted, an inserted constituent lands inside its group', 2)
    _list_grouped(db, r11, rep.tier == 'thorough')
    r7 = rep.rule('r7', 'VIEWS (shared with C07 r1): a membership change of schema / thesaurus storage is followed by the removal or rebuild in every derived graph', 10)
    from rules import C07
    from engine.modset import ModSets
    C07.refresh_rule(db, rep, r7, ModSets(db), ((C07.SCHEMA, C07._classify_schema, C07._families_schema), (C07.THES, C07._classify_thes, C07._families_thes)))
