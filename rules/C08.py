"""C08 — renaming rewrites all and only the mentions of a name.

 r1 FIELDS     every text part of a constituent that can mention a name is passed to the translation routine (RSConcept: every string
               member except the alias; TextConcept: term and definition, in both the raw and the resolving variant).
 r2 TOKENS     TranslateRS replaces whole identifier tokens: the lexer runs over an unmodified copy, the replaced span is
               [token byte start + accumulated offset, + old name length), the offset accumulates (+=) new length - old length exactly
               once per replacement, replacement happens only for tokens the filter accepts whose translation exists and differs.
 r3 FILTER     the global-name filter accepts exactly global, function and predicate identifiers (locals are never renamed).
 r4 REVERSE    reference texts are rewritten from the last reference to the first (earlier positions stay valid); the reference
               scanner resumes at the end of the previous reference (adjacent references are all found).
 r5 EVERYWHERE RSCore translation entry points rewrite both the formal part and the texts; renaming with substitution translates
               every constituent of the schema / thesaurus (whole-storage loop), not only graph dependants.
Not decided: "same schema up to renaming" (value level); byte/char arithmetic inside the UTF-8 iterator (C20 string clause).
"""
from engine.cfgq import call_sites, paths_avoiding, dominating_guards, success_exits
from engine.shape import Keyer
from engine.facts import AnalysisBroken

UNITS = ['CCL', 'RSlang2', 'cclLang']
S = 'ccl::semantic::'
R = 'ccl::rslang::'
L = 'ccl::lang::'


def check(db, rep):
    rep.explanation = ('Renaming is decided structurally: coverage of all name-bearing text members, the token-replacement effect summary of TranslateRS, '
                       'the token filter, right-to-left rewriting of references and whole-storage translation on both sides of the core.')
    # ------------------------------------------------------------------ r1
    r1 = rep.rule('r1', 'FIELDS: every name-bearing text member of RSConcept / TextConcept is translated', 3)
    rc = db.record(S + 'RSConcept')
    texts = [f['name'] for f in rc['fields'] if 'string' in f['type'] and f['name'] != 'alias']
    tr = db.fn(S + 'RSConcept::Translate')
    done = set()
    for n in tr.calls():
        if n.get('cs') == R + 'TranslateRS':
            a0 = tr.strip(tr.stmts[n['args'][0]])
            if a0['k'] == 'MemberExpr':
                done.add(a0['member'])
            flt = [c.get('cs') for c in tr.calls(tr.stmts[n['args'][1]])]
            if R + 'TFFactory::FilterGlobals' not in flt:
                r1.violation('RSConcept::Translate:filter', tr.loc(n), 'formal text is translated with a filter other than FilterGlobals(): local variables or nothing would be renamed')
    missing = [t for t in texts if t not in done]
    if missing:
        r1.violation('RSConcept::Translate', '%s:%d' % (tr.file, tr.line), 'text member(s) %s of a constituent are not translated: mentions of the old name survive there' % missing)
    else:
        r1.ok('RSConcept::Translate', 'translates %s' % texts, '%s:%d' % (tr.file, tr.line))
    tc = db.record(S + 'TextConcept')
    tfields = [f['name'] for f in tc['fields'] if 'LexicalTerm' in f['type'] or 'ManagedText' in f['type']]
    for name, callee in (('Translate', 'TranslateRefs'), ('TranslateRaw', 'TranslateRaw')):
        f = db.fn(S + 'TextConcept::' + name)
        done = set()
        for n in f.calls():
            if (n.get('cs') or '').split('::')[-1] == callee and 'obj' in n:
                o = f.strip(f.stmts[n['obj']])
                if o['k'] == 'MemberExpr':
                    done.add(o['member'])
        missing = [t for t in tfields if t not in done]
        if missing:
            r1.violation('TextConcept::' + name, '%s:%d' % (f.file, f.line), 'text member(s) %s are not translated with %s' % (missing, callee))
        else:
            r1.ok('TextConcept::' + name, '%s on %s' % (callee, tfields), '%s:%d' % (f.file, f.line))

    # ------------------------------------------------------------------ r2
    r2 = rep.rule('r2', 'TOKENS: TranslateRS lexes an unmodified copy, replaces [token start + offset, + old length) and accumulates the offset by new - old length once per replacement; interpreted on scripted token streams it rewrites every name up to END whatever tokens stand in between', 5)
    translate_all_tokens(db, r2)
    f = db.fn(R + 'TranslateRS')
    K = Keyer(f, resolve_refs=False)
    where = '%s:%d' % (f.file, f.line)
    strp = f.rec['params'][0]['name']
    # the lexer's input
    lexdecl = [d for s0 in f.rec['stmts'] if s0['k'] == 'DeclStmt' for d in s0.get('decls', []) if 'MathLexer' in d['type']]
    copydecl = [d for s0 in f.rec['stmts'] if s0['k'] == 'DeclStmt' for d in s0.get('decls', []) if d['name'] != strp and d.get('const') and 'string' in d['type'] and 'init' in d
                and f.strip(f.stmts[d['init']]).get('name') == strp]
    ok = False
    if lexdecl and copydecl and 'init' in lexdecl[0]:
        used = {x.get('name') for x in f.walk(f.stmts[lexdecl[0]['init']]) if x['k'] == 'DeclRefExpr'}
        ok = copydecl[0]['name'] in used and strp not in used
    if ok:
        r2.ok('lexer-input', 'tokens are read from an unmodified copy of the text', where)
    else:
        r2.violation('lexer-input', where, 'the lexer does not run over a private copy of the text: replacements made so far shift or corrupt the tokens still to be read')
    rep_calls = [n for n in f.calls() if (n.get('cs') or '').endswith('basic_string::replace')]
    if len(rep_calls) != 1:
        r2.violation('replace-span', where, 'expected exactly one replace() on the translated text, found %d' % len(rep_calls))
    else:
        rc_ = rep_calls[0]
        obj = f.strip(f.stmts[rc_['obj']])
        a = [K.key(f.stmts[x]) for x in rc_['args']]
        start_ok = 'RangeInBytes' in repr(a[0]) and "'start'" in repr(a[0]) and ('var', 'offset') in _flat(a[0]) and _top_op(a[0]) == '+'
        len_ok = "'length'" in repr(a[1]) or "'size'" in repr(a[1])
        len_of_name = ('var', 'name') in _flat(a[1])
        new_ok = ('var', 'newName') in _flat(a[2])
        if obj.get('name') == strp and start_ok and len_ok and len_of_name and new_ok:
            r2.ok('replace-span', 'str.replace(RangeInBytes().start + offset, name.length(), new name)', f.loc(rc_))
        else:
            r2.violation('replace-span', f.loc(rc_), 'the replaced span is not [byte start of the token + offset, + length of the old name) on the translated text, or the replacement is not the new name: `%s`' % rc_.get('txt', '')[:90])
        # offset accumulation
        accs = [n for n in f.walk() if n['k'] in ('CompoundAssignOperator', 'BinaryOperator') and K.key(f.children(n)[0]) == ('var', 'offset') and (n.get('op') in ('+=', '=', '-='))]
        good = [n for n in accs if n['k'] == 'CompoundAssignOperator' and n.get('op') == '+=']
        if len(accs) == 1 and len(good) == 1:
            rhs = K.key(f.children(good[0])[1])
            fl = _flat(rhs)
            diff_ok = _has_sub(rhs) and ('var', 'newName') in fl and ('var', 'name') in fl
            same_block = f.position_of(good[0])[0] == f.position_of(rc_)[0]
            if diff_ok and same_block:
                r2.ok('offset-accumulation', 'offset += size(new) - size(old) in the same step as the replacement', f.loc(good[0]))
            else:
                r2.violation('offset-accumulation', f.loc(good[0]), 'the offset is not advanced by (new length - old length) together with each replacement')
        else:
            bad = [n for n in accs if n not in good]
            r2.violation('offset-accumulation', f.loc(bad[0]) if bad else where, 'the running offset is %s: after the second replacement of a different length later tokens are rewritten at the wrong bytes' % (
                'assigned instead of accumulated (`%s`)' % bad[0].get('txt', '')[:40] if bad else 'never updated'))
        # guards of the replacement
        conds = [(c.get('txt', ''), pol) for c, pol in dominating_guards(f, f.position_of(rc_))]
        txt = ' && '.join(c for c, pol in conds if pol)
        need = ['filter(token)', 'has_value()', '!= name']
        miss = [w for w in need if w not in txt]
        if miss:
            r2.violation('replace-guards', f.loc(rc_), 'a token is replaced without the guards %s (found: %s)' % (miss, txt[:120]))
        else:
            r2.ok('replace-guards', 'only filtered tokens whose translation exists and differs', f.loc(rc_))

    # ------------------------------------------------------------------ r3
    r3 = rep.rule('r3', 'FILTER: FilterGlobals = {ID_GLOBAL, ID_FUNCTION, ID_PREDICATE}', 1)
    fg = db.fn(R + 'TFFactory::FilterGlobals')
    ids = set()
    for g in [fg] + [x for x in db.functions if x.name.startswith(fg.name + '::')]:
        for n in g.walk():
            if n['k'] == 'DeclRefExpr' and n.get('dk') == 'enumerator' and 'TokenID' in (n.get('qn') or ''):
                ids.add(n['name'])
    if ids == {'ID_GLOBAL', 'ID_FUNCTION', 'ID_PREDICATE'}:
        r3.ok('FilterGlobals', 'global, function and predicate identifiers', '%s:%d' % (fg.file, fg.line))
    else:
        r3.violation('FilterGlobals', '%s:%d' % (fg.file, fg.line), 'the filter for renaming accepts %s; it must accept exactly ID_GLOBAL, ID_FUNCTION, ID_PREDICATE (locals must stay untouched, all three global kinds must be renamed)' % sorted(ids))
    gf = db.fn(R + 'TFFactory::GetFilter')
    lam = db.lambdas_in(gf)
    if lam and any('find' in (c.get('cs') or '') for c in lam[0].calls()) or (lam and any(x['k'] == 'UnresolvedLookupExpr' and x.get('name') == 'find' for x in lam[0].walk())):
        pass

    # ------------------------------------------------------------------ r4
    r4 = rep.rule('r4', 'REVERSE: references are rewritten last-to-first; the scanner resumes exactly at the end of the previous reference', 2)
    mt = db.fn(L + 'ManagedText::TranslateRaw')
    loops = [n for n in mt.walk() if n['k'] == 'ForStmt']
    ok = len(loops) == 1 and 'init' in loops[0] and 'rbegin' in mt.stmts[loops[0]['init']].get('txt', '') and 'rend' in mt.stmts[loops[0]['cond']].get('txt', '')
    if ok:
        r4.ok('ManagedText::TranslateRaw', 'rbegin..rend', '%s:%d' % (mt.file, mt.line))
    else:
        r4.violation('ManagedText::TranslateRaw', '%s:%d' % (mt.file, mt.line), 'references are not rewritten from the last to the first: replacing an earlier reference by text of a different length invalidates the recorded positions of the later ones')
    ea = db.fn(L + 'Reference::ExtractAll')
    lp = [n for n in ea.walk() if n['k'] == 'ForStmt']
    ok = False
    if len(lp) == 1 and 'inc' in lp[0]:
        Ke = Keyer(ea, resolve_refs=False)
        incs = [n for n in ea.calls(ea.stmts[lp[0]['inc']]) if (n.get('cs') or '').endswith('NextReference')]
        if len(incs) == 1 and len(incs[0]['args']) == 2:
            k = Ke.key(ea.stmts[incs[0]['args'][1]])
            ok = isinstance(k, tuple) and k[0] == '.' and k[1] == 'finish'
    if ok:
        r4.ok('Reference::ExtractAll', 'resumes at position->finish', '%s:%d' % (ea.file, ea.line))
    else:
        # the form `for (p = Next(text); p; p = Next(text, p->finish))` is not recognised: the scan is decided on texts by the evaluated rule
        from rules import C17

        class _P:
            def __init__(self):
                self.bad, self.broken_reason = [], None

            def ok(self, *a_, **k_):
                pass

            def violation(self, inst, where, detail, path=None):
                self.bad.append(detail)

            def broken(self, reason):
                self.broken_reason = reason

            def rule(self, *a_, **k_):
                return self

            def note(self, *a_, **k_):
                pass
            tier = 'quick'
        pr = _P()
        C17._scan_evaluated(db, pr)
        if pr.bad:
            r4.violation('Reference::ExtractAll', '%s:%d' % (ea.file, ea.line), 'the scan misses references (%s): a missed reference is never renamed' % pr.bad[0][:200])
        elif pr.broken_reason:
            r4.broken(pr.broken_reason)
        else:
            r4.ok('Reference::ExtractAll', 'form not recognised; the interpreted scan (C17 r9) finds exactly the well-formed references, adjacent ones included', '%s:%d' % (ea.file, ea.line), nontrivial=False)

    # ------------------------------------------------------------------ r5
    r5 = rep.rule('r5', 'EVERYWHERE: core entry points translate both sides; substitution on rename translates the whole storage', 6)
    for name, want in (('Translate', (S + 'Schema::Translate', S + 'Thesaurus::Translate')), ('TranslateAll', (S + 'Schema::TranslateAll', S + 'Thesaurus::TranslateAll')),
                       ('SetAliasFor', (S + 'Schema::SetAliasFor', S + 'Thesaurus::SetAliasFor')), ('ResetAliases', (S + 'Schema::SubstitueAliases', S + 'Thesaurus::SubstitueAliases'))):
        f = db.fn(S + 'RSCore::' + name)
        cs = {n.get('cs') for n in f.calls()}
        miss = [w.split('::')[-2] for w in want if w not in cs]
        if miss:
            r5.violation('RSCore::' + name, '%s:%d' % (f.file, f.line), '%s does not forward to %s: the name is rewritten on one side only' % (name, miss))
        else:
            r5.ok('RSCore::' + name, 'formal part and texts', '%s:%d' % (f.file, f.line))
    for cls in ('Schema', 'Thesaurus'):
        sa = db.fn(S + cls + '::SetAliasFor')
        ta = db.fn(S + cls + '::TranslateAll')
        calls_all = [n for n in sa.calls() if n.get('cs') == S + cls + '::TranslateAll']
        if not calls_all:
            r5.violation(cls + '::SetAliasFor', '%s:%d' % (sa.file, sa.line), 'renaming with substitution does not translate all constituents (TranslateAll): mentions in constituents that are not graph dependants (conventions, texts) keep the old name')
        else:
            r5.ok(cls + '::SetAliasFor', 'substitution branch calls TranslateAll', sa.loc(calls_all[0]))
        lps = [n for n in ta.walk() if n['k'] == 'CXXForRangeStmt']
        whole = lps and any(x['k'] == 'CXXThisExpr' or (x['k'] == 'MemberExpr' and x.get('member') == 'storage') for x in ta.walk(ta.stmts[lps[0]['range']]))
        tr_calls = [n for n in ta.calls(ta.stmts[lps[0]['body']]) if (n.get('cs') or '').split('::')[-1] == 'Translate'] if lps else []
        if whole and tr_calls:
            r5.ok(cls + '::TranslateAll', 'translates every stored constituent', '%s:%d' % (ta.file, ta.line))
        else:
            r5.violation(cls + '::TranslateAll', '%s:%d' % (ta.file, ta.line), 'TranslateAll does not translate every stored constituent')
    _units_and_support(db, rep)


def _flat(k):
    out = []
    if isinstance(k, tuple):
        if k and k[0] == 'var':
            out.append(k)
        for x in k:
            out += _flat(x)
    return out


def _top_op(k):
    return k[1] if isinstance(k, tuple) and k and k[0] == 'Bop' else None


def _has_sub(k):
    if isinstance(k, tuple):
        if k and k[0] == 'Bop' and k[1] == '-':
            return True
        return any(_has_sub(x) for x in k)
    return False


def _units_and_support(db, rep):
    """r6 UNITS: byte-level string edits of reference texts take byte quantities (BytePosition / size), never code-point quantities of a StrRange;
    r7 SUPPORT (shared with C07 r1 and C12 r5): a translation refreshes the dependency graph of every rewritten constituent and re-analyses it;
    a merge translates every copy only after the alias map is complete."""
    r6 = rep.rule('r6', 'UNITS: std::string::replace/erase/insert/substr on a text containing references receive byte positions and byte lengths; StrRange fields (code points) reach them only through UTF8Iterator(...).BytePosition()', 1)
    BYTE_API = ('replace', 'erase', 'insert', 'substr')
    n_sites = 0
    for f in db.functions:
        if not f.has_cfg() or not f.file or not f.file.startswith('ccl/cclLang/src/') or '/test/' in f.file:
            continue
        for c in f.calls():
            cs = c.get('cs') or ''
            if not (cs.startswith(('std::basic_string::', 'std::__cxx11::basic_string::')) and cs.split('::')[-1] in BYTE_API and 'obj' in c):
                continue
            n_sites += 1
            inst = '%s:%s' % (f.name.replace('ccl::lang::', ''), c.get('txt', '')[:36])
            bad = None
            for a in c.get('args', [])[:2]:
                src = _codepoint_source(f, f.stmts[a], 0)
                if src:
                    bad = (f.stmts[a].get('txt', '')[:40], src)
            if bad:
                r6.violation(inst, f.loc(c), 'argument `%s` of a byte-level string edit is a code-point quantity (%s): the edit is off by the number of extra bytes of every multi-byte symbol before or inside the reference' % bad)
            else:
                r6.ok(inst, 'byte quantities only', f.loc(c))
    if n_sites == 0:
        r6.broken('no byte-level string edit found in cclLang (anchor vanished)')
    r10 = rep.rule('r10', 'INHERITED-TEXTS: every user-edited text the aggregator carries over from the previous version (text definition, convention, term) is passed through the previous-name -> new-name translation, like its siblings', 3)
    _inherited_texts(db, r10)
    r11 = rep.rule('r11', 'FREE-TEXT-UNMARKED: a translator that rewrites names it does not know (TFFactory::GetTransition appends an error suffix) never has the last word on a free-text convention: '
                          'it is not passed to a function that applies its translator to RSConcept::convention, unless the convention translated with the plain map is stored afterwards', 1)
    _marking_translator(db, r11)
    _raw_text_minimal(db, rep)
    r14 = rep.rule('r14', 'TRANSLATE-EVERYONE: after an equation every constituent is translated - conventions are free text and sit in no dependency graph, so a translation restricted to the dependants found through the graphs misses their mentions; and the schema-level translations apply RSConcept::Translate (definition and convention) to the target on every path / to every stored constituent', 3)
    _translate_everyone(db, r14)
    _schema_translate_total(db, r14)
    r13 = rep.rule('r13', 'DUPLICATES-REWRITTEN (shared with C12 r8): duplicate elimination, interpreted, rewrites every mention of an erased duplicate to its survivor and renames nothing else', 1)
    from rules import C12 as _C12
    _C12.duplicates_evaluated(db, r13)
    r9 = rep.rule('r9', 'WHOLE-IDENTIFIER: names are located in expression texts only through the lexer (TranslateRS / MathLexer tokens); no function of the schema layers searches a text for a name with std::string::find and then edits the text at the position found (F1 is a substring of F10)', 1)
    _no_substring_search(db, r9)
    r8 = rep.rule('r8', 'TRANSLATE-ONCE: a copied constituent has the names in its texts rewritten exactly once by the complete old->new map (a single-item inserter already renames the copy\'s own alias; a later complete translation requires every text to be stored again from the source)', 4)
    from rules.shared_translate_once import translate_once_rule
    translate_once_rule(db, r8)
    r7 = rep.rule('r7', 'SUPPORT (shared with C07 r1, C12 r5): translation refreshes graph and analysis of every rewritten constituent; a merge translates copies only with the complete alias map', 10)
    from rules import C07, C12
    from engine.modset import ModSets
    C07.refresh_rule(db, rep, r7, ModSets(db), ((C07.SCHEMA, C07._classify_schema, C07._families_schema),))
    C12.merge_evaluated(db, r7)


def _codepoint_source(f, n, depth):
    """text of a code-point quantity inside expression n that is not converted through a UTF8Iterator, else None"""
    n = f.strip(n)
    if n is None or depth > 4:
        return None
    if n['k'] in ('CXXConstructExpr', 'CXXTemporaryObjectExpr', 'CXXFunctionalCastExpr') and 'UTF8Iterator' in (n.get('cls') or n.get('t', '')):
        return None           # UTF8Iterator(text, codepoint position): the conversion point
    if n['k'] == 'CXXMemberCallExpr' and (n.get('cs') or '').endswith('UTF8Iterator::BytePosition'):
        return None
    if n['k'] == 'MemberExpr' and n.get('member') in ('start', 'finish') and 'StrRange' in (n.get('qn') or '') + (n.get('fcls') or ''):
        return n.get('txt', 'StrRange field')
    if n['k'] == 'CXXMemberCallExpr' and (n.get('cs') or '').endswith('StrRange::length'):
        return n.get('txt', 'StrRange::length()')
    if n['k'] == 'CallExpr' and (n.get('cs') or '').endswith('SizeInCodePoints'):
        return n.get('txt', 'SizeInCodePoints')
    if n['k'] == 'DeclRefExpr' and n.get('dk') == 'local':
        for s0 in f.rec['stmts']:
            if s0['k'] == 'DeclStmt':
                for d in s0.get('decls', []):
                    if d.get('did') == n.get('did') and 'init' in d:
                        return _codepoint_source(f, f.stmts[d['init']], depth + 1)
        return None
    for c in f.children(n):
        r = _codepoint_source(f, c, depth + 1)
        if r:
            return r
    return None


def _no_substring_search(db, r9):
    scanned, hits = 0, []
    for f in sorted(db.functions, key=lambda x: x.name):
        if f.body < 0 or f.rec.get('dependent') or not f.name.startswith(('ccl::semantic::', 'ccl::ops::', 'ccl::oss::', 'ccl::src::')):
            continue
        scanned += 1
        finds = []
        for n in f.calls():
            cs = n.get('cs') or ''
            if cs.startswith(('std::basic_string::', 'std::__cxx11::basic_string::', 'std::basic_string_view::')) and cs.split('::')[-1] in ('find', 'rfind') and n.get('args'):
                needle = f.strip(f.stmts[n['args'][0]])
                if needle is not None and needle['k'] not in ('StringLiteral', 'CharacterLiteral', 'IntegerLiteral'):
                    finds.append(n)
        if not finds:
            continue
        muts = [n for n in f.calls() if (n.get('cs') or '').startswith(('std::basic_string::', 'std::__cxx11::basic_string::')) and (n.get('cs') or '').split('::')[-1] in ('insert', 'replace', 'erase')]
        if muts:
            hits.append((f, finds[0], muts[0]))
    if not scanned:
        r9.broken('no function of the schema layers was scanned')
        return
    for f, fn_, mu in hits:
        r9.violation('::'.join(f.name.split('::')[2:]), f.loc(fn_), '`%s` locates a name by substring search and `%s` edits the text at the positions found: a name that is a prefix of another (F1 / F10, X1 / X11) is found inside it' % ((fn_.get('txt') or '')[:40], (mu.get('txt') or '')[:40]))
    if not hits:
        r9.ok('schema-layers', '%d functions scanned: none searches a text for a name by substring and edits it at the position found' % scanned)


def _inherited_texts(db, r10):
    f = db.fn('ccl::ops::RSAggregator::TransferIheritedData', required=False)
    if f is None:
        r10.broken('anchor vanished: RSAggregator::TransferIheritedData')
        return
    setters = [n for n in f.calls() if (n.get('cs') or '').split('::')[-1] in ('SetDefinitionFor', 'SetConventionFor', 'SetTermFor') and len(n.get('args', [])) >= 2]
    if not setters:
        r10.broken('RSAggregator::TransferIheritedData stores no inherited text')
        return
    for n in setters:
        what = (n.get('cs') or '').split('::')[-1][3:-3]
        # (a) a Translate* call in the same branch
        branch = next((a for a in f.ancestors(n) if a['k'] == 'IfStmt'), None)
        scope = f.stmts[branch['then']] if branch is not None else f.stmts[f.body]
        translated_after = any((c.get('cs') or '').split('::')[-1].startswith('Translate') for c in f.calls(scope))
        # (b) the stored value is a local that was run through SubstituteGlobals / TranslateRS
        val = f.strip(f.stmts[n['args'][1]])
        translated_before = False
        if val is not None and val['k'] == 'DeclRefExpr' and val.get('dk') == 'local':
            for c in f.calls():
                if (c.get('cs') or '').split('::')[-1] in ('SubstituteGlobals', 'TranslateRS') and c.get('args'):
                    a0 = f.strip(f.stmts[c['args'][0]])
                    if a0 is not None and a0.get('did') == val.get('did'):
                        translated_before = True
        inst = 'inherited-' + what.lower()
        if translated_after or translated_before:
            r10.ok(inst, 'translated %s it is stored' % ('after' if translated_after else 'before'), f.loc(n))
        else:
            r10.violation(inst, f.loc(n), 'the inherited %s is stored as it was in the previous version (`%s`): a name that denotes another constituent in the new version (previous X2 is now X3) keeps pointing at the wrong one, while the sibling texts are translated' % (what.lower(), (n.get('txt') or '')[:70]))


def _translator_ref(f, sid):
    """the DeclRefExpr a translator argument denotes, through the copies std::function makes"""
    n = f.stmts.get(sid)
    for _ in range(12):
        n = f.strip(n)
        if n is None:
            return None
        if n['k'] == 'DeclRefExpr':
            return n
        if n['k'] in ('CXXConstructExpr', 'CXXTemporaryObjectExpr') and len(n.get('args', [])) == 1 and (n.get('cls') or '').startswith('std::function'):
            n = f.stmts.get(n['args'][0])
            continue
        return None
    return None


def _marking_translator(db, r11):
    GT = 'ccl::rslang::TFFactory::GetTransition'
    if db.fn(GT, required=False) is None:
        r11.broken('anchor vanished: TFFactory::GetTransition')
        return
    # (function, parameter index) through which a translator is applied to RSConcept::convention
    touch = {}
    for f in db.functions:
        if f.body < 0:
            continue
        for c in f.calls():
            if (c.get('cs') or '') == 'ccl::rslang::TranslateRS' and len(c.get('args', [])) >= 3:
                a0 = f.strip(f.stmts[c['args'][0]])
                tr = _translator_ref(f, c['args'][2])
                if a0 is not None and a0['k'] == 'MemberExpr' and (a0.get('qn') or '').endswith('RSConcept::convention') and tr is not None and tr.get('dk') == 'param':
                    touch[(f.name, tr.get('pidx'))] = f.loc(c)
    if not touch:
        r11.broken('no function applies a translator to RSConcept::convention (RSConcept::Translate vanished?)')
        return
    changed = True
    while changed:
        changed = False
        for f in db.functions:
            if f.body < 0:
                continue
            for c in f.calls():
                if c['k'] not in ('CallExpr', 'CXXMemberCallExpr'):
                    continue
                g = db.by_mn.get(c.get('mn') or '')
                if g is None:
                    continue
                for i, a in enumerate(c.get('args', [])):
                    if (g.name, i) in touch:
                        tr = _translator_ref(f, a)
                        if tr is not None and tr.get('dk') == 'param' and (f.name, tr.get('pidx')) not in touch:
                            touch[(f.name, tr.get('pidx'))] = f.loc(c)
                            changed = True
    r11.note = getattr(r11, 'note', None)
    sites = 0
    for f in db.functions:
        if f.body < 0 or not any((c.get('cs') or '') == GT for c in f.calls()):
            continue
        marking = set()
        for n in f.walk():
            if n['k'] == 'DeclStmt':
                for d in n.get('decls', []):
                    if d.get('init') is not None and d['init'] in f.stmts and any((c.get('cs') or '') == GT for c in f.calls(d['init'])):
                        marking.add(d['did'])
        for c in f.calls():
            if c['k'] not in ('CallExpr', 'CXXMemberCallExpr'):
                continue
            g = db.by_mn.get(c.get('mn') or '')
            if g is None:
                continue
            for i, a in enumerate(c.get('args', [])):
                if (g.name, i) not in touch:
                    continue
                tr = _translator_ref(f, a)
                direct = any((x.get('cs') or '') == GT for x in f.calls(a))
                if not direct and not (tr is not None and tr.get('did') in marking):
                    continue
                sites += 1
                inst = '%s -> %s' % (f.name.split('::')[-1], g.name.split('::')[-1])
                # the accepted repair: later in the same block the convention translated with the plain map is stored for the same constituent
                block = next((x for x in f.ancestors(c) if x['k'] == 'CompoundStmt'), None)
                stored = False
                if block is not None:
                    plain = set()
                    for x in f.calls(block):
                        if (x.get('cs') or '').split('::')[-1] == 'SubstituteGlobals' and x.get('args') and x['id'] < c['id']:
                            v = f.strip(f.stmts[x['args'][0]])
                            if v is not None and v['k'] == 'DeclRefExpr' and v.get('dk') == 'local':
                                plain.add(v.get('did'))
                    for x in f.calls(block):
                        if (x.get('cs') or '').split('::')[-1] == 'SetConventionFor' and len(x.get('args', [])) >= 2 and x['id'] > c['id']:
                            v = f.strip(f.stmts[x['args'][1]])
                            same = (f.stmts[x['args'][0]].get('txt') or '0') == (f.stmts[c['args'][0]].get('txt') or '1') if c.get('args') else False
                            if v is not None and v.get('did') in plain and same:
                                stored = True
                if stored:
                    r11.ok(inst, 'the marking translator reaches the convention, and the convention translated with the plain map is stored afterwards', f.loc(c))
                else:
                    r11.violation(inst, f.loc(c), 'a translator from TFFactory::GetTransition (appends _ERROR to every short name it does not know) is applied to the free-text convention through %s (%s): '
                                  'a convention "The Set X1" becomes "The_ERROR Set_ERROR X3"' % (g.name, touch[(g.name, i)]))
    if sites == 0:
        r11.ok('no-marking-translator-reaches-a-convention', '%d translator parameters reach RSConcept::convention; none receives a GetTransition translator' % len(touch), '')


def _raw_text_minimal(db, rep):
    """r12: ManagedText::TranslateRaw interpreted from its source (with Reference::ExtractAll / Parse / TranslateEntity / ToString, the UTF-8
    iterator and std::string::replace) on texts assembled from references in several spellings - tags in either order, a blank after the comma,
    the legacy field form, a collaboration reference - between one- and multi-byte text, under a rename, a swap and a prefix map. Only
    Morphology is abstract: a set of grammemes printed in the canonical order (what C17 r2 decides about the tables). The translated text must be
    the original with the entity names replaced and every other byte kept."""
    import itertools, re
    from engine.evalmini import Interp, Obj, OutOfFragment, NOT_HANDLED
    LL = 'ccl::lang::'
    r12 = rep.rule('r12', 'RAW-TEXT-MINIMAL: translating the references of a text replaces the entity names and keeps every other byte (tag order, blanks, legacy fields, the text around)', 1)
    tr = db.fn(LL + 'ManagedText::TranslateRaw', required=False)
    if tr is None:
        r12.broken('anchor vanished: ManagedText::TranslateRaw')
        return
    KNOWN = ['sing', 'plur', 'nomn', 'gent']

    def canon(arg):
        toks = [bytes(x).decode() for x in arg] if isinstance(arg, list) else [t.strip() for t in bytes(arg).decode().split(',')]
        return [k for k in KNOWN if k in toks]

    def on_call(it, fn, n, env):
        cs = n.get('cs') or ''
        if n['k'] in ('CXXConstructExpr', 'CXXTemporaryObjectExpr') and (n.get('cls') or '') == LL + 'Morphology' and len(n.get('args', [])) == 1 \
                and not n.get('copyctor') and not n.get('movector'):
            return Obj(__cls__=LL + 'Morphology', tags=canon(it.eval(fn, fn.stmts[n['args'][0]], env)))
        if cs == LL + 'Morphology::ToString' and 'obj' in n:
            return bytearray(','.join(it.eval(fn, fn.stmts[n['obj']], env)['tags']).encode())
        if cs == LL + 'Morphology::empty' and 'obj' in n:
            return len(it.eval(fn, fn.stmts[n['obj']], env)['tags']) == 0
        if cs == 'std::empty' and n.get('args'):
            o = it.eval(fn, fn.stmts[n['args'][0]], env)
            if isinstance(o, Obj) and o.get('__cls__') == LL + 'Morphology':
                return len(o['tags']) == 0
        if cs == 'std::stoi' and n.get('args'):
            t_ = bytes(it.eval(fn, fn.stmts[n['args'][0]], env)).decode('ascii', 'replace')
            try:
                return int(t_)
            except ValueError:
                raise OutOfFragment('std::stoi("%s") throws std::invalid_argument' % t_)
        if cs == '__assert_fail':
            return None
        return NOT_HANDLED
    thorough = rep.tier == 'thorough'
    refs = ['@{X1|nomn,sing}', '@{X1|sing,nomn}', '@{X1|nomn, sing}', '@{X11|gent}', '@{X2|plur}', '@{-1|basic}', '@{X1|nomn|sing|2}']
    glue = ['', ' ', 'Ж', '∀ a'] if thorough else ['', 'Ж ']
    maps = [{'X1': 'X22'}, {'X1': 'X2', 'X2': 'X1'}, {'X11': 'X1'}, {'X2': 'X2'}]
    bad, cases = None, 0
    try:
        for k in (1, 2, 3) if thorough else (1, 2):
            for combo in itertools.product(refs, repeat=k):
                for g in glue:
                    text = g + g.join(combo) + g
                    for m in maps:
                        want = re.sub(r'@\{([A-Za-z][^|}]*)\|', lambda mo: '@{' + m.get(mo.group(1), mo.group(1)) + '|', text)
                        this = Obj(__cls__=LL + 'ManagedText', rawText=bytearray(text.encode()), cache=bytearray())
                        lam = ('pyfn', lambda s_, m=m: (bytearray(m[bytes(s_).decode()].encode()) if bytes(s_).decode() in m else None))
                        Interp(db, on_call=on_call, max_steps=2000000).call(tr, [lam], this)
                        got = bytes(this['rawText']).decode('utf-8', 'replace')
                        cases += 1
                        if got != want and bad is None:
                            bad = 'TranslateRaw of "%s" under %s gives "%s"; only the names change: "%s"' % (text, m, got, want)
                if bad and not thorough:
                    break
            if bad and not thorough:
                break
    except OutOfFragment as e:
        r12.broken('ManagedText::TranslateRaw outside the evaluable fragment: %s' % e)
        return
    if bad:
        r12.violation('TranslateRaw', '%s:%d' % (tr.file, tr.line), bad)
    else:
        r12.ok('TranslateRaw', '%d (text, map) pairs over %d reference spellings' % (cases, len(refs)), '%s:%d' % (tr.file, tr.line))


def translate_all_tokens(db, rule):
    """r2 all-tokens: TranslateRS interpreted over scripted token streams `X1 <t> X1 <t> X12` for every token kind t of the language except END
    (the lexer reports a symbol outside the language as the ordinary token INTERRUPT and goes on): both names are rewritten whatever stands
    between them, names are whole tokens (X12 stays), and the count is the number of replacements."""
    from engine.evalmini import Interp, Obj, OutOfFragment, NOT_HANDLED, enum_values
    f = db.fn(R + 'TranslateRS')
    T = enum_values(db, R + 'TokenID')
    if 'END' not in T or 'ID_GLOBAL' not in T:
        rule.broken('TokenID::END / ID_GLOBAL not found')
        return
    bad, cases = None, 0
    try:
        for tname, tval in sorted(T.items(), key=lambda kv: kv[1]):
            if tname in ('END', 'ID_GLOBAL'):
                continue
            for new in ('X2', 'X345'):
                sym = '#'
                text = 'X1 %s X1 %s X12 X1' % (sym, sym)
                toks = [(T['ID_GLOBAL'], 'X1', 0), (tval, sym, 3), (T['ID_GLOBAL'], 'X1', 5), (tval, sym, 8), (T['ID_GLOBAL'], 'X12', 10), (T['ID_GLOBAL'], 'X1', 14), (T['END'], '', len(text))]

                def on_call(it, fn, n, env, toks=toks):
                    cs = (n.get('cs') or '').split('::')[-1]
                    if n['k'] in ('CXXConstructExpr', 'CXXTemporaryObjectExpr') and (n.get('cls') or '').endswith('MathLexer'):
                        return Obj(__cls__='lexer', i=-1)
                    if cs in ('lex', 'Text', 'RangeInBytes') and 'obj' in n:
                        o = it.eval(fn, fn.stmts[n['obj']], env)
                        if isinstance(o, Obj) and o.get('__cls__') == 'lexer':
                            if cs == 'lex':
                                o['i'] = min(o['i'] + 1, len(toks) - 1)
                                return toks[o['i']][0]
                            t = toks[o['i']]
                            return bytearray(t[1].encode()) if cs == 'Text' else Obj(start=t[2], finish=t[2] + len(t[1]))
                    return NOT_HANDLED
                buf = bytearray(text.encode())
                flt = ('pyfn', lambda t: t == T['ID_GLOBAL'])
                m = {'X1': new}
                tr = ('pyfn', lambda s_, m=m: bytearray(m[bytes(s_).decode()].encode()) if bytes(s_).decode() in m else None)
                cnt = Interp(db, on_call=on_call).call(f, [buf, flt, tr])
                want = '%s %s %s %s X12 %s' % (new, sym, new, sym, new)
                cases += 1
                if (bytes(buf).decode() != want or cnt != 3) and bad is None:
                    bad = 'token stream X1 <%s> X1 <%s> X12 X1 with X1 -> %s: the text becomes "%s" (%s replacements), expected "%s" (3): every occurrence of the name up to END is rewritten in place, whatever stands between and however the lengths differ' % (tname, tname, new, bytes(buf).decode(), cnt, want)
    except OutOfFragment as e:
        rule.broken('TranslateRS outside the evaluable fragment: %s' % e)
        return
    if bad:
        rule.violation('all-tokens', '%s:%d' % (f.file, f.line), bad)
    else:
        rule.ok('all-tokens', 'TranslateRS interpreted on %d scripted token streams (every token kind between two occurrences of the name): only END ends the translation' % cases, '%s:%d' % (f.file, f.line))


def _schema_translate_total(db, rule):
    """Schema::Translate / Schema::TranslateAll: RSConcept::Translate (which rewrites the definition *and* the convention) is applied to the target on
    every path / to every stored constituent - a constituent without a definition still mentions names in its convention."""
    CT = 'ccl::semantic::RSConcept::Translate'
    f = db.fn('ccl::semantic::Schema::Translate', required=False)
    g = db.fn('ccl::semantic::Schema::TranslateAll', required=False)
    if f is None or g is None or not f.has_cfg() or not g.has_cfg():
        rule.broken('anchor vanished: Schema::Translate / Schema::TranslateAll')
        return
    sites = call_sites(f, lambda n: n.get('cs') == CT)
    if not sites:
        rule.violation('Schema::Translate', '%s:%d' % (f.file, f.line), 'Schema::Translate does not translate the stored constituent')
    else:
        entry = f.graph()[1]
        bad = paths_avoiding(f, [entry], [p for p, _ in sites], success_exits(f, failure_literals=()))
        if bad:
            rule.violation('Schema::Translate', f.loc(sites[0][1]), 'Schema::Translate can return without translating the target: a constituent that mentions the old name only in its convention (a base set has no definition) keeps a name that now denotes nothing or something else')
        else:
            rule.ok('Schema::Translate', 'the constituent is translated on every path', f.loc(sites[0][1]))
    calls = [c for c in g.calls() if c.get('cs') == CT]
    ok = False
    where = '%s:%d' % (g.file, g.line)
    for c in calls:
        loop = next((a for a in g.ancestors(c) if a['k'] == 'CXXForRangeStmt'), None)
        if loop is None:
            continue
        where = g.loc(c)
        body = list(g.walk(g.stmts[loop['body']]))
        guarded = any(a['k'] in ('IfStmt', 'ConditionalOperator', 'SwitchStmt') and any(y is a for y in body) for a in g.ancestors(c))
        jumps = [n for n in body if n['k'] in ('ContinueStmt', 'BreakStmt', 'ReturnStmt', 'GotoStmt')]
        rng = g.stmts[loop['range']]
        whole = any(x['k'] == 'CXXThisExpr' or x.get('member') == 'storage' for x in g.walk(rng))
        if not guarded and not jumps and whole:
            ok = True
    if ok:
        rule.ok('Schema::TranslateAll', 'every stored constituent is translated, unconditionally', where)
    else:
        rule.violation('Schema::TranslateAll', where, 'Schema::TranslateAll does not translate every stored constituent unconditionally (a condition, a jump in the loop body or a partial range): conventions of the skipped constituents keep the old names')


def _translate_everyone(db, rule):
    """RSEquationProcessor::UpdateExpressions: the translation of the removed names is applied by a loop over a complete order of the schema
    (a topological order, the list, the core) and unconditionally in its body, or by TranslateAll."""
    from engine.cfgq import dominating_guards
    f = db.fn('ccl::ops::RSEquationProcessor::UpdateExpressions', required=False)
    if f is None or not f.has_cfg():
        rule.broken('anchor vanished: RSEquationProcessor::UpdateExpressions')
        return
    tr = [c for c in f.calls() if (c.get('cs') or '').split('::')[-1] in ('Translate', 'TranslateAll') and (c.get('cs') or '').startswith('ccl::semantic::')]
    if not tr:
        rule.violation('UpdateExpressions', '%s:%d' % (f.file, f.line), 'the names removed by the equation are not translated at all')
        return
    FULL = ('InverseTopologicalOrder', 'TopologicalOrder', 'List', 'Core')
    for c in tr:
        if (c.get('cs') or '').endswith('TranslateAll'):
            rule.ok('UpdateExpressions', 'TranslateAll', f.loc(c))
            continue
        loop = next((a for a in f.ancestors(c) if a['k'] == 'CXXForRangeStmt'), None)
        full = loop is not None and any((x.get('cs') or '').split('::')[-1] in FULL for x in f.calls(f.stmts[loop['range']]))
        guarded = loop is not None and any(a['k'] in ('IfStmt', 'ConditionalOperator', 'SwitchStmt') and any(y is a for y in f.walk(f.stmts[loop['body']])) for a in f.ancestors(c))
        if full and not guarded:
            rule.ok('UpdateExpressions', 'every constituent of a complete order is translated', f.loc(c))
        else:
            rule.violation('UpdateExpressions', f.loc(c), '`%s` is applied %s: a constituent that mentions a removed name only in its convention (free text, in no graph) keeps the name of a constituent that no longer exists' % (
                (c.get('txt') or '')[:50], 'under a condition inside the loop' if guarded else 'to a selection instead of a complete order of the schema'))
