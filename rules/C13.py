"""C13 — basis and maximal-part extraction return closed, complete, well-formed schemas.

 r1 BASIS      OpExtractBasis copies exactly List().SortSubset(Graph().ExpandInputs(arguments)) with the bulk InsertCopy (one
               translation map for the whole group) and renumbers afterwards.
 r2 CLOSURE    the maximal-part selection grows while it is read, so it must be iterated to a fixpoint or in dependency order;
               the result is the selection sorted by list order and copied with the bulk InsertCopy, then renumbered.
 r3 MEMBERSHIP CheckCst: a constituent with an empty definition belongs only if selected; any other belongs iff all its direct
               inputs are selected (the test is on the definition text, not on the number of inputs).
 r4 REFUSAL    both operations return nothing, before building anything, when the arguments are not correctly defined.
 r5 SUPPORT    the graph closure and the alias renumbering they rely on are decided by C14 (ExpandInputs mirror/closure shape) and C07
               (SubstitueAliases refresh); SortSubset filters the list in list order.
 r9 MAXPART-EVALUATED  GetAllCstMaxPart + CheckCst interpreted on every schema of up to four constituents (any list order, any acyclic
               choice of inputs, any selection) against the least fixpoint, in list order.
Not decided: preservation of status/typification as values.
"""
from engine.cfgq import call_sites, paths_avoiding, dominating_guards, success_exits
from engine.shape import Keyer
from engine.facts import AnalysisBroken

UNITS = ['CCL', 'CGraph']
OPS = 'ccl::ops::'
S = 'ccl::semantic::'
G = 'ccl::graph::CGraph'


def _bulk_copy(f, rule, inst):
    ic = [n for n in f.calls() if (n.get('cs') or '').endswith('::InsertCopy')]
    ra = [n for n in f.calls() if (n.get('cs') or '').endswith('::ResetAliases')]
    ok = len(ic) == 1 and len(ic[0].get('args', [])) == 2 and any(w in (f.stmts[ic[0]['args'][0]].get('t', '') + f.strip(f.stmts[ic[0]['args'][0]]).get('t', '')) for w in ('vector', 'VectorOfEntities'))
    if not ok:
        rule.violation(inst, '%s:%d' % (f.file, f.line), 'the selected constituents are not copied with one bulk InsertCopy(vector, source core): copying one by one translates aliases per constituent and breaks references inside the group')
        return None
    if not ra or f.position_of(ra[0]) not in f.reach(f.position_of(ic[0])):
        rule.violation(inst, '%s:%d' % (f.file, f.line), 'aliases are not renumbered (ResetAliases) after the copy')
        return None
    return ic[0]


def check(db, rep):
    rep.explanation = ('Structural data-flow rules on OpExtractBasis / OpMaxPart: what is copied (closure, order), how (bulk copy, renumbering), the membership test '
                       'and the fixpoint shape of a selection that grows while it is read.')
    r1 = rep.rule('r1', 'BASIS: result = bulk copy of List().SortSubset(Graph().ExpandInputs(arguments)), then ResetAliases', 1)
    eb = db.fn(OPS + 'OpExtractBasis::Execute')
    ic = _bulk_copy(eb, r1, 'OpExtractBasis')
    if ic is not None:
        K = Keyer(eb)
        arg = K.key(eb.stmts[ic['args'][0]])
        txt = repr(arg)
        # inline locals that are initialised once
        for s0 in eb.rec['stmts']:
            if s0['k'] == 'DeclStmt':
                for d in s0.get('decls', []):
                    if 'init' in d and ("('var', '%s')" % d['name']) in txt:
                        txt = txt.replace("('var', '%s')" % d['name'], repr(K.key(eb.stmts[d['init']])))
        ok = "'SortSubset'" in txt and "'ExpandInputs'" in txt and "'arguments'" in txt and "'Graph'" in txt and "'List'" in txt
        src = repr(K.key(eb.stmts[ic['args'][1]]))
        if ok and "'Core'" in src and "'schema'" in src:
            r1.ok('OpExtractBasis', 'copies SortSubset(ExpandInputs(arguments)) from the source core', eb.loc(ic))
        else:
            r1.violation('OpExtractBasis', eb.loc(ic), 'the copied group is not List().SortSubset(Graph().ExpandInputs(arguments)) of the source schema: %s' % eb.stmts[ic['args'][0]].get('txt', '')[:80])

    r2 = rep.rule('r2', 'CLOSURE: the maximal-part selection is iterated to a fixpoint or in dependency order; result sorted by list order, bulk-copied, renumbered', 2)
    mp = db.fn(OPS + 'OpMaxPart::GetAllCstMaxPart')
    loops = [n for n in mp.walk() if n['k'] == 'CXXForRangeStmt']
    adds = [n for n in mp.calls() if (n.get('cs') or '').split('::')[-1] in ('emplace', 'insert') and 'selList' in mp.stmts[n['obj']].get('txt', '')]
    if not loops or not adds:
        r2.broken('GetAllCstMaxPart: selection loop not recognised')
    else:
        lp = loops[0]
        rng_calls = {c.get('cs') for c in mp.calls(mp.stmts[lp['range']])}
        dep_order = G + '::TopologicalOrder' in rng_calls or G + '::Sort' in rng_calls
        outer = [a for a in mp.ancestors(lp) if a['k'] in ('WhileStmt', 'DoStmt', 'ForStmt')]
        fix = False
        for o in outer:
            cond = mp.stmts[o['cond']] if 'cond' in o else None
            flags = {x.get('name') for x in mp.walk(cond) if x['k'] == 'DeclRefExpr'} if cond else set()
            # the flag is set when something was added
            sets = [x for x in mp.walk(mp.stmts[lp['body']]) if x['k'] == 'BinaryOperator' and x.get('op') == '=' and mp.strip(mp.children(x)[0]).get('name') in flags]
            if sets:
                fix = True
        if dep_order or fix:
            r2.ok('GetAllCstMaxPart:closure', 'iterated %s' % ('in dependency order' if dep_order else 'to a fixpoint'), mp.loc(lp))
        else:
            r2.violation('GetAllCstMaxPart:closure', mp.loc(lp), 'the selection is extended in a single pass over the list while CheckCst reads it: a constituent listed before its dependencies is missed (list X1, D1:=D2∪D2, D2:=X1 with selection {X1} yields X1, D2 only)')
        rets = mp.return_sites()
        K = Keyer(mp)
        ok = rets and "'SortSubset'" in repr(K.key(mp.stmts[rets[0][1]['value']])) and "'selList'" in repr(K.key(mp.stmts[rets[0][1]['value']]))
        if ok:
            r2.ok('GetAllCstMaxPart:order', 'returns List().SortSubset(selection)', mp.loc(rets[0][1]))
        else:
            r2.violation('GetAllCstMaxPart:order', '%s:%d' % (mp.file, mp.line), 'the result is not the selection in list order')
    ex = db.fn(OPS + 'OpMaxPart::Execute')
    ic = _bulk_copy(ex, r2, 'OpMaxPart::Execute')
    if ic is not None:
        r2.ok('OpMaxPart::Execute', 'bulk copy then ResetAliases', ex.loc(ic))

    r3 = rep.rule('r3', 'MEMBERSHIP: empty definition -> member only if selected; otherwise member iff every direct input is selected', 1)
    cc = db.fn(OPS + 'OpMaxPart::CheckCst')
    ifs = [n for n in cc.walk() if n['k'] == 'IfStmt']
    ok = False
    why = 'CheckCst shape not recognised'
    if ifs:
        c = cc.stmts[ifs[0]['cond']]
        ctxt = c.get('txt', '')
        on_def = any(x['k'] == 'MemberExpr' and x.get('member') == 'definition' for x in cc.walk(c)) and 'empty' in ctxt
        then_ret = [x for x in cc.walk(cc.stmts[ifs[0]['then']]) if x['k'] == 'ReturnStmt']
        then_ok = then_ret and 'contains' in then_ret[0].get('txt', '') and 'target' in then_ret[0].get('txt', '')
        inputs = [n for n in cc.calls() if n.get('cs') == G + '::InputsFor']
        arg_ok = inputs and any(x['k'] == 'DeclRefExpr' and x.get('name') == cc.rec['params'][0]['name'] for x in cc.walk(inputs[0]))
        allsel = any(n.get('cs') == 'std::all_of' for n in cc.calls()) or any(x['k'] == 'CXXForRangeStmt' for x in cc.walk())
        neg = 'contains' in ' '.join(x.get('txt', '') for x in cc.walk() if x['k'] in ('UnaryOperator',) and x.get('op') == '!') or any(n.get('cs') == 'std::all_of' for n in cc.calls())
        if not on_def:
            why = 'the "member only if selected" case is keyed on `%s`, not on an empty definition: a constituent with a definition that mentions no other constituent is never added' % ctxt[:60]
        elif not then_ok:
            why = 'a constituent without definition is not tested for being selected itself'
        elif not (arg_ok and allsel and neg):
            why = 'the general case does not require every element of Graph().InputsFor(target) to be selected'
        else:
            ok = True
    if ok:
        r3.ok('CheckCst', 'empty(definition) ? selected : all InputsFor(target) selected', '%s:%d' % (cc.file, cc.line))
    else:
        r3.violation('CheckCst', '%s:%d' % (cc.file, cc.line), why)

    r4 = rep.rule('r4', 'REFUSAL: Execute returns nothing before building anything when the arguments are not correctly defined', 2)
    for cls in ('OpExtractBasis', 'OpMaxPart'):
        f = db.fn(OPS + cls + '::Execute')
        mk = [p for p, n in call_sites(f, lambda n: n.get('cs') == 'std::make_unique')]
        ok = bool(mk)
        for p in mk:
            conds = [(c.get('txt', ''), pol) for c, pol in dominating_guards(f, p)]
            if not any('IsCorrectlyDefined' in c and pol is False for c, pol in conds):
                ok = False
        if ok:
            r4.ok(cls, 'result built only under IsCorrectlyDefined()', '%s:%d' % (f.file, f.line))
        else:
            r4.violation(cls, '%s:%d' % (f.file, f.line), 'a result schema can be built although the arguments are not correctly defined')

    r5 = rep.rule('r5', 'SUPPORT: SortSubset filters the ordered list in list order', 1)
    ss = db.fn(S + 'CstList::SortSubset')
    lam = db.lambdas_in(ss)
    fe = [n for n in ss.calls() if n.get('cs') == 'std::for_each']
    ok = fe and lam and any('contains' in x.get('txt', '') for x in lam[0].walk()) and any((n.get('cs') or '').endswith('emplace_back') or 'emplace_back' in x.get('txt', '') for x in lam[0].walk() for n in [x])
    first_two = [ss.stmts[a].get('txt', '') for a in fe[0]['args'][:2]] if fe else []
    if ok and first_two == ['begin()', 'end()']:
        r5.ok('SortSubset', 'for_each over begin()..end() of the list keeping members of the subset', '%s:%d' % (ss.file, ss.line))
    else:
        r5.violation('SortSubset', '%s:%d' % (ss.file, ss.line), 'SortSubset does not walk the ordered list from begin() to end() keeping exactly the members of the subset')

    # shared support rules: graph closure used for the basis (C14) and alias renumbering refresh (C07)
    r6 = rep.rule('r6', 'SUPPORT-SHARED: ExpandInputs/ExpandOutputs/InputsFor/Sort of the interpreted graph are exact on bounded graphs (C14 r8); renumbering aliases refreshes graph and analysis (C07 r1, Schema)', 10)
    from rules import C14, C07
    from engine.modset import ModSets
    methods = {f.name.split('::')[-1]: f for f in db.methods_of(G)}
    C14.graph_evaluated(db, rep, r6, instances=('closures', 'inputs', 'sort'), light=True, note_prefix='r6_graph')
    C07.refresh_rule(db, rep, r6, ModSets(db), ((C07.SCHEMA, C07._classify_schema, C07._families_schema),))
    # list order of kinds (shared with C09 r4): the extraction keeps relative order through SortSubset only if the priority of kinds used when
    # moving constituents agrees with the one used when inserting them
    from rules import C09
    C09.priority_rule(db, r6)
    _maxpart_definedness(db, rep)
    r9 = rep.rule('r9', 'MAXPART-EVALUATED: OpMaxPart::GetAllCstMaxPart with CheckCst, interpreted from the source on every schema of up to four constituents (each a base notion or a definition over any acyclic choice of the others, listed in any order) and every selection, returns the least set that holds the selection and every constituent with a non-empty definition whose inputs are all inside - in list order, and nothing else', 1)
    _maxpart_evaluated(db, r9, rep.tier == 'thorough')
    r8 = rep.rule('r8', 'RENUMBER-FAITHFUL: the renumbering that ends an extraction keeps the referent of every mention and never gives a dangling mention a meaning (ResetAliases interpreted on schemas with gaps)', 1)
    renumber_evaluated(db, r8)


def _maxpart_definedness(db, rep):
    """r7: OpMaxPart::IsCorrectlyDefined evaluated for every kind of selected constituent: a selected constituent of any kind whose inputs are
    not all selected makes the selection inadmissible. (A base or constant set normally has no definition and so no inputs; one that carries
    a definition - an error state the property includes - is not exempt: its definition would mention names the result does not contain.)"""
    from engine.evalmini import Interp, Obj, OutOfFragment, NOT_HANDLED, enum_values
    r7 = rep.rule('r7', 'SELECTION: a maximal-part selection is admissible iff it is non-empty, every selected constituent exists and all its direct inputs are selected (whatever its kind)', 1)
    f = db.fn(OPS + 'OpMaxPart::IsCorrectlyDefined', required=False)
    if f is None:
        r7.broken('anchor vanished: OpMaxPart::IsCorrectlyDefined')
        return
    CST = {k: v for k, v in enum_values(db, S + 'CstType').items() if not k.endswith('_')}
    bad, cases = None, 0
    try:
        for kind, kv in sorted(CST.items()):
            for exists in (True, False):
                for closed in (True, False):
                    cases += 1

                    def on_call(it, fn, n, env, kv=kv, exists=exists, closed=closed):
                        last = (n.get('cs') or '').split('::')[-1]
                        if last == 'Contains':
                            return exists
                        if last == 'GetRS':
                            return Obj(type=kv)
                        if last == 'CheckCst':
                            return closed
                        return NOT_HANDLED
                    this = Obj(arguments=[5], schema=Obj(__kind__='schema'))
                    res = Interp(db, on_call=on_call).call(f, [], this)
                    want = exists and closed             # whatever the kind: the inputs come from the definition text, and a base set without one has none
                    if bool(res) != want and bad is None:
                        bad = 'selection {%s constituent%s%s} is %s' % (kind, '' if exists else ' that does not exist', '' if closed else ' whose inputs are not all selected', 'accepted' if res else 'refused')
        res = Interp(db, on_call=lambda *a: NOT_HANDLED).call(f, [], Obj(arguments=[], schema=Obj()))
        if res:
            bad = bad or 'the empty selection is accepted'
    except OutOfFragment as e:
        r7.broken('OpMaxPart::IsCorrectlyDefined outside the evaluable fragment: %s' % e)
        return
    if bad:
        r7.violation('IsCorrectlyDefined', '%s:%d' % (f.file, f.line), bad + ': the extracted schema then mentions names it does not contain')
    else:
        r7.ok('IsCorrectlyDefined', 'admissibility agrees with the definition on %d (kind, exists, inputs selected) cases' % cases, '%s:%d' % (f.file, f.line))


# ---------------------------------------------------------------------------------------------- r8: renumbering never gives a dangling mention a meaning
def _maxpart_evaluated(db, rule, thorough):
    import itertools
    from engine.evalmini import Interp, Obj, OutOfFragment, NOT_HANDLED
    f = db.fn(OPS + 'OpMaxPart::GetAllCstMaxPart', required=False)
    if f is None:
        rule.broken('anchor vanished: OpMaxPart::GetAllCstMaxPart')
        return
    S_ = 'ccl::semantic::'
    bad, cases = None, 0
    N = 4

    def schemas():
        ids = list(range(1, N + 1))
        for n in range(1, N + 1):
            use = ids[:n]
            # inputs[i]: None = no definition; otherwise a set of other constituents, acyclic w.r.t. some order of the ids
            for perm in (itertools.permutations(use) if thorough or n <= 3 else [tuple(use), tuple(reversed(use))]):
                rank = {u: k for k, u in enumerate(perm)}
                opts = []
                for u in use:
                    lower = [v for v in use if rank[v] < rank[u]]
                    subs = [None] + [frozenset(c) for r in range(len(lower) + 1) for c in itertools.combinations(lower, r)]
                    opts.append(subs)
                for choice in itertools.product(*opts):
                    yield use, dict(zip(use, choice))
    seen = set()
    try:
        for use, inputs in schemas():
            key = (tuple(use), tuple(sorted((k, None if v is None else tuple(sorted(v))) for k, v in inputs.items())))
            if key in seen:
                continue
            seen.add(key)
            outs = {u: {v for v in use if inputs[v] and u in inputs[v]} for u in use}
            for r in range(1, len(use) + 1):
                for sel in itertools.combinations(use, r):
                    want = set(sel)
                    grew = True
                    while grew:
                        grew = False
                        for u in use:
                            if u not in want and inputs[u] is not None and inputs[u] <= want:
                                want.add(u)
                                grew = True
                    want = [u for u in use if u in want]

                    def on_call(it, fn, n, env):
                        cs = n.get('cs') or ''
                        last = cs.split('::')[-1]
                        if last == 'List' and cs.startswith(S_):
                            return lst
                        if last in ('RSLang', 'Graph', 'Core') and cs.startswith(S_):
                            return Obj(__cls__='facade')
                        if last == 'GetRS' and cs.startswith(S_):
                            a = it.eval(fn, fn.stmts[n['args'][0]], env)
                            return Obj(definition=bytearray(b'' if inputs[a] is None else b'def'))
                        if cs.startswith('ccl::graph::CGraph::') and n.get('args'):
                            a = it.eval(fn, fn.stmts[n['args'][0]], env)
                            if last == 'InputsFor':
                                return sorted(inputs[a] or ())
                            if last in ('ExpandOutputs', 'ExpandInputs'):
                                rel = outs if last == 'ExpandOutputs' else {u: set(inputs[u] or ()) for u in use}
                                res, todo = set(a), list(a)
                                while todo:
                                    x = todo.pop()
                                    for y in rel.get(x, ()):
                                        if y not in res:
                                            res.add(y)
                                            todo.append(y)
                                return res
                        return NOT_HANDLED
                    lst = Obj(__cls__=S_ + 'CstList', order=list(use), types=('pyfn', lambda uid: 0))
                    this = Obj(__cls__=OPS + 'OpMaxPart', schema=Obj(__cls__=S_ + 'RSForm'), arguments=set(sel))
                    it_ = Interp(db, on_call=on_call)
                    it_.on_range = lambda interp, v: list(v['order']) if isinstance(v, Obj) and v.get('__cls__') == S_ + 'CstList' else v
                    got = it_.call(f, [], this)
                    cases += 1
                    if list(got) != want and bad is None:
                        show = ', '.join('#%d%s' % (u, '' if inputs[u] is None else ':=f(%s)' % ','.join('#%d' % v for v in sorted(inputs[u]))) for u in use)
                        bad = 'schema [%s], selection %s: the maximal part is %s, the operation selects %s' % (show, list(sel), want, list(got))
    except OutOfFragment as e:
        rule.broken('GetAllCstMaxPart outside the evaluable fragment: %s' % e)
        return
    if bad:
        rule.violation('GetAllCstMaxPart', '%s:%d' % (f.file, f.line), bad)
    else:
        rule.ok('GetAllCstMaxPart', '%d (schema, selection) cases over %d schemas agree with the least fixpoint in list order' % (cases, len(seen)), '%s:%d' % (f.file, f.line))


def renumber_evaluated(db, rule):
    """RSCore::ResetAliases (the renumbering both extraction operations end with) interpreted on small schemas whose definitions are
    sequences of mentioned names, some of which resolve to no constituent (left behind by an erasure). Supplied: the name registry
    (first free number of the letter; reserve / free as the code asks), the list, the application of a translator to all mentions.
    Required: a mention that resolved to a constituent now spells that constituent's new alias, and a mention that resolved to nothing
    still resolves to nothing - otherwise an INCORRECT definition becomes VERIFIED with a different meaning."""
    from engine.evalmini import Interp, Obj, OutOfFragment, NOT_HANDLED
    f = db.fn(S + 'RSCore::ResetAliases', required=False)
    if f is None:
        rule.broken('anchor vanished: RSCore::ResetAliases')
        return

    def scenario(csts):
        FIELDS = ('definition', 'convention', 'term', 'text')
        norm = lambda ms: ms if isinstance(ms, dict) else {'definition': ms}
        recs = {i + 1: Obj(uid=i + 1, alias=a.encode(), type=ord(a[0]), **{f_: [m.encode() for m in norm(ms).get(f_, [])] for f_ in FIELDS}) for i, (a, ms) in enumerate(csts)}
        old_alias = {u: bytes(r['alias']) for u, r in recs.items()}
        resolve = {bytes(r['alias']): u for u, r in recs.items()}
        before = {(u, f_): [resolve.get(bytes(m)) for m in r[f_]] for u, r in recs.items() for f_ in FIELDS}
        taken = set()

        def on_call(it, fn, n, env):
            cs = n.get('cs') or ''
            last = cs.split('::')[-1]
            Sx = fn.stmts
            ev = lambda sid: it.eval(fn, Sx[sid], env)
            a = lambda: [ev(x) for x in n.get('args', [])]
            if last == 'List' and cs.startswith(S):
                return sorted(recs)
            if last == 'GetRS':
                return recs[a()[0]]
            if cs == S + 'IdentityManager::Clear':
                taken.clear()
                return None
            if last == 'RegisterEntity':
                uid, typ = a()
                k_ = 1
                while ('%s%d' % (chr(typ), k_)).encode() in taken:
                    k_ += 1
                al = ('%s%d' % (chr(typ), k_)).encode()
                taken.add(al)
                return Obj(uid=uid, alias=al)
            if last in ('ReserveAlias', 'AddUID') and a():
                taken.add(bytes(a()[-1]))
                return None
            if last in ('FreeAlias', 'FreeUID') and a():
                taken.discard(bytes(a()[-1]))
                return None
            if last == 'CreateTranslator':
                return Obj(__kind__='translator', m={bytes(k_): bytes(v_) for k_, v_ in a()[0].items()})
            if last == 'SubstitueAliases':
                m = a()[0]['m']
                if 'Schema' in cs:
                    for r in recs.values():
                        r['alias'] = m.get(bytes(r['alias']), bytes(r['alias']))
                        for f_ in ('definition', 'convention'):
                            r[f_] = [m.get(bytes(x), bytes(x)) for x in r[f_]]
                else:
                    for r in recs.values():
                        for f_ in ('term', 'text'):
                            r[f_] = [m.get(bytes(x), bytes(x)) for x in r[f_]]
                return None
            if last in ('At', 'GetText') and cs.startswith(S) and n.get('args'):
                return recs[a()[0]]                                   # the text side of the same record
            if last == 'Text' and 'LexicalTerm' in cs and 'obj' in n:
                return ev(n['obj'])
            if last == 'Referals' and 'obj' in n:
                m_ = fn.strip(Sx[n['obj']])
                if m_ is not None and m_['k'] == 'MemberExpr' and (m_.get('qn') or '').endswith('TextConcept::definition'):
                    base = ev(m_['c'][0])
                    while isinstance(base, tuple) and len(base) == 2 and base[0] == 'ptr':
                        base = base[1]
                    return set(bytes(x) for x in base['text'])
                v_ = ev(n['obj'])
                return set(bytes(x) for x in v_) if isinstance(v_, list) else set()
            if last == 'ExtractUGlobals' and a():
                return set(bytes(x) for x in a()[0]) if isinstance(a()[0], list) else set()
            if last == 'FindAlias':
                nm = bytes(a()[-1])
                hit = [u for u, r in recs.items() if bytes(r['alias']) == nm]
                return hit[0] if hit else None
            if cs.endswith('optional::has_value'):
                return ev(n['obj']) is not None
            return NOT_HANDLED
        it = Interp(db, on_call=on_call, max_steps=400000)

        def on_range(it_, v):
            if isinstance(v, Obj) and v.get('__cls__') == 'schema':
                return list(recs.values())
            return v
        it.on_range = on_range
        it.call(f, [], Obj(__cls__=S + 'RSCore', identifiers=Obj(), schema=Obj(__cls__='schema'), thesaurus=Obj(), cstList=Obj()))
        new_alias = {u: bytes(r['alias']) for u, r in recs.items()}
        if len(set(new_alias.values())) != len(new_alias):
            return 'renumbering %s gives two constituents the same alias: %s' % (csts, sorted(x.decode() for x in new_alias.values()))
        now = {v: u for u, v in new_alias.items()}
        WHAT = {'definition': 'definition', 'convention': 'convention', 'term': 'term (a text reference)', 'text': 'text definition (a text reference)'}
        for u, r in recs.items():
          for f_ in FIELDS:
            for m, was in zip(r[f_], before[(u, f_)]):
                got = now.get(bytes(m))
                if got != was:
                    return 'renumbering %s: in the %s of %s (now %s) a mention that %s now reads %s, which %s' % (
                        [(a_, ms) for a_, ms in csts], WHAT[f_], old_alias[u].decode(), new_alias[u].decode(),
                        ('denoted ' + old_alias[was].decode()) if was else 'denoted no constituent (its constituent had been erased)', bytes(m).decode(),
                        ('denotes ' + old_alias[got].decode() + ' (now ' + new_alias[got].decode() + ')') if got else 'denotes nothing')
        return None
    cases = [
        [('X1', []), ('X3', []), ('D1', ['X2', 'X3'])],                  # X2 was erased; X3 is renumbered to X2
        [('X1', []), ('X2', []), ('D1', ['X1', 'X2'])],
        [('X2', []), ('D3', ['X2', 'X1']), ('D5', ['D3', 'D1'])],
        [('X1', []), ('D2', ['X1']), ('D4', ['D2', 'D3', 'D1'])],
        [('C1', []), ('X5', ['C2']), ('C3', ['X5'])],
        [('X1', []), ('X3', []), ('D1', {'definition': ['X1', 'X3'], 'text': ['X2'], 'convention': ['X2']})],     # X2 was left out: only texts still mention it
        [('X1', []), ('X3', {'term': ['X2', 'X1']}), ('D1', ['X3'])],
    ]
    bad = None
    try:
        for c in cases:
            bad = bad or scenario(c)
    except OutOfFragment as e:
        rule.broken('RSCore::ResetAliases outside the evaluable fragment: %s' % e)
        return
    if bad:
        rule.violation('ResetAliases:evaluated', '%s:%d' % (f.file, f.line), bad)
    else:
        rule.ok('ResetAliases:evaluated', '%d schemas with gaps and dangling mentions: every mention keeps its referent, a dangling one stays dangling' % len(cases), '%s:%d' % (f.file, f.line))
