"""C18 — reused analysers are history-independent.

 r1 RESET-COMPLETE  for every long-lived analyser class: every data member that any method reachable from its entry point may
                    write (mod-set analysis over the call graph, including the CRTP visitor dispatch) is either re-initialised
                    by the reset step of that entry point (a whole-member kill: assignment, clear(), reset), or restored by RAII
                    (guardable flags changed only through CreateGuard), or a sub-analyser that is only driven through its own
                    verified entry point, or listed configuration.
 r2 RESET-FIRST     the reset step dominates every other member access of the entry point.
 r3 STATICS         inventory of all mutable objects with static storage: each is reset-before-use by its single owner function,
                    never written after initialisation, or a documented process-wide singleton whose writers are listed.
Not decided: that equal state implies equal results (determinism of the library code itself is assumed).
"""
from engine.cfgq import call_sites, paths_avoiding
from engine.modset import ModSets
from engine.facts import AnalysisBroken

NS = 'ccl::rslang::'

# entry points that re-initialise their object themselves (verified by r1/r2 below): calling them on a member is not a leak
VERIFIED_ENTRIES = {
    NS + 'Parser::Parse', NS + 'TypeAuditor::CheckType', NS + 'ValueAuditor::Check', NS + 'ASTInterpreter::Evaluate',
    NS + 'detail::RSParser::Parse', NS + 'detail::MathLexer::operator()', NS + 'detail::AsciiLexer::operator()',
    NS + 'ErrorLogger::Clear', NS + 'detail::ParserState::NewInput', NS + 'Auditor::CheckType',
}

KILL_CALLS = {'clear', 'Clear', 'reset', 'NewInput', 'SetInput'}

ANALYSERS = [
    {'cls': NS + 'TypeAuditor', 'entry': 'CheckType', 'reset': 'Clear',
     'exempt': {'isTypification': 'configuration (SetExepectTypification), not derived from inputs',
                'reporter': 'error sink given at construction', 'env': 'wraps the type context reference; CompareTemplated mutates only its out-parameter'}},
    {'cls': NS + 'ValueAuditor', 'entry': 'Check', 'reset': 'Clear',
     'exempt': {'reporter': 'error sink', 'globalAST': 'context', 'globalClass': 'context'}},
    {'cls': NS + 'ASTInterpreter', 'entry': 'Evaluate', 'reset': 'Clear',
     'exempt': {'reporter': 'error sink', 'context': 'data context'}},
    {'cls': NS + 'detail::ParserState', 'entry': None, 'driver': NS + 'detail::RSParser::Parse', 'reset': 'NewInput',
     'exempt': {'reporter': 'error sink'}},
    {'cls': NS + 'Parser', 'entry': 'Parse', 'reset': None, 'exempt': {}, 'helper_kills': {'syntax': 'Lex'}},
    {'cls': NS + 'Auditor', 'entry': 'CheckType', 'reset': None, 'exempt': {}, 'other_entries': ['CheckValue']},
    {'cls': NS + 'Interpreter', 'entry': 'Evaluate', 'reset': None, 'exempt': {'astContext': 'context'}},
]

# lexers: the state lives in the generated *Impl object behind `impl`; SetInput must rebind the input and zero every user member of the Impl class
LEXERS = [
    (NS + 'detail::MathLexer', NS + 'detail::rslex::MathLexerImpl'),
    (NS + 'detail::AsciiLexer', NS + 'detail::asciilex::AsciiLexerImpl'),
]

# mutable statics: owner function -> policy
STATIC_POLICY = {
    'ccl::rslang::GeneratorImplAST::FromTree': ('reset-before-use', 'generator', NS + 'GeneratorImplAST'),
    'ccl::rslang::AST2String::Apply': ('reset-before-use', 'generator', NS + 'AST2String'),
    'ccl::rslang::(anonymous namespace)::StructureGenerator::GenerateFor': ('reset-before-use', 'generator', None),
    'ccl::rslang::TFFactory::FilterGlobals': ('never-written', 'filter', None),
    'ccl::rslang::TFFactory::FilterIdentifiers': ('never-written', 'filter', None),
    'ccl::rslang::operator""_t': ('entries-only', None, None),
    'ccl::Environment::Instance': ('singleton', 'instance', None),
    'ccl::Environment::RNG': ('singleton', 'rd', None),
    'ccl::lang::TextEnvironment::Instance': ('singleton', 'instance', None),
}


def _is_kill(ev):
    fld, how, node, path = ev
    if len(path) != 1:
        return False
    if how == 'assign':
        return True
    if how.startswith(('std:', 'call:', 'call?:')) and how.split(':', 1)[1] in KILL_CALLS:
        return True
    return False


def check(db, rep):
    rep.explanation = ('History independence is decided as reset completeness: the mod set of every method reachable from an analyser entry point '
                       '(through the visitor dispatch) must be covered by the whole-member kills of the reset step that dominates the entry point, '
                       'RAII-restored flags, verified sub-entries or listed configuration; all mutable statics are inventoried with their writers.')
    M = ModSets(db)
    r1 = rep.rule('r1', 'RESET-COMPLETE: every member an entry point can modify is re-initialised by its reset step (or RAII-restored / verified sub-entry / configuration)', 28)
    r2 = rep.rule('r2', 'RESET-FIRST: the reset step dominates every other member access in the entry point', 6)
    for A in ANALYSERS:
        cls = A['cls']
        rec = db.record(cls)
        fields = {x['name']: x for x in rec['fields']}
        short = cls.split('::')[-1]
        # a member exempted because it "wraps a reference" must really be stateless: its own record holds only references and constants
        for fname, why in A['exempt'].items():
            if 'wraps' not in why or fname not in fields:
                continue
            ftype = (fields[fname].get('ctype') or fields[fname]['type']).replace('const ', '').replace('class ', '').replace('struct ', '').strip()
            frec = db.records.get(ftype)
            if frec is None:
                r1.broken('the record of the exempt member %s::%s (%s) is not known' % (short, fname, ftype))
                continue
            state = [x['name'] for x in frec.get('fields', []) if not (x.get('ctype') or x['type']).strip().endswith('&') and not (x.get('ctype') or x['type']).strip().startswith('const ')]
            if state:
                r1.violation('%s:%s(stateless)' % (short, fname), '%s:%d' % (rec.get('file', ''), rec.get('line', 0)), 'the helper member `%s` (%s) is exempt from the reset because it only wraps a context reference, but it now holds %s: '
                             'whatever an analysis stores there (a memo of looked-up traits) survives %s::%s and answers for the next input, also after the context changed' % (fname, ftype.split('::')[-1], ', '.join(state), short, A.get('reset') or 'the entry'))
            else:
                r1.ok('%s:%s(stateless)' % (short, fname), 'holds only references / constants', '')
        if A['entry'] is not None:
            entry = db.fn(cls + '::' + A['entry'])
            methods = M.reachable_methods(entry, cls)
        else:
            driver = db.fn(A['driver'])
            methods = M.reachable_methods(driver, cls)
            entry = driver
        for oe in A.get('other_entries', []):
            methods = methods + [m for m in M.reachable_methods(db.fn(cls + '::' + oe), cls) if m not in methods]
        # also free functions / other classes that write this class' members through a pointer (ParserState via `state->`)
        events = []
        for m in methods:
            for ev in M.direct_events(m):
                if ev[0] in fields:
                    events.append((m, ev))
        if A['entry'] is None:
            for g in M.reachable_methods(entry, '') + _all_reachable(M, entry):
                for n in g.walk():
                    if n['k'] == 'MemberExpr' and n.get('fcls') == cls and n.get('member') in fields:
                        par = g.stmts.get(g.parent.get(n['id']))
                        grand = par
                        # a write if an ancestor assignment / ++ has this member on its left
                        cur = n
                        for a in g.ancestors(n):
                            if a['k'] in ('BinaryOperator', 'CompoundAssignOperator') and (a.get('op') == '=' or a['k'] == 'CompoundAssignOperator') and _leftmost(g, a, n):
                                events.append((g, (n['member'], 'assign', a, (n['member'],))))
                                break
                            if a['k'] == 'UnaryOperator' and a.get('op') in ('++', '--'):
                                events.append((g, (n['member'], 'incdec', a, (n['member'],))))
                                break
                            if a['k'] not in ('ImplicitCastExpr', 'ParenExpr', 'MemberExpr'):
                                break
        W = {}
        for m, ev in events:
            W.setdefault(ev[0], []).append((m, ev))
        rep.note('modset_' + short, sorted(W))
        # kill set
        K = {}
        if A['reset']:
            rf = db.fn(cls + '::' + A['reset'])
            for m in [rf] + [t for t in M.reachable_methods(rf, cls) if t is not rf]:
                for ev in M.direct_events(m):
                    if ev[0] in fields and _is_kill(ev):
                        K[ev[0]] = (m, ev)
        else:
            # kills inside the entry point itself that dominate every other access to the member
            for ev in M.direct_events(entry):
                if ev[0] in fields and (_is_kill(ev) or _verified_call(db, entry, ev)):
                    pos = entry.position_of(ev[2])
                    others = [entry.position_of(n) for n in entry.walk() if n['k'] == 'MemberExpr' and n.get('member') == ev[0] and n.get('mk') == 'field'
                              and entry.position_of(n) is not None and entry.position_of(n) != pos and n['id'] not in {x['id'] for x in entry.walk(ev[2])}]
                    if pos is not None and not paths_avoiding(entry, [entry.graph()[1]], [pos], [(p, '') for p in others]):
                        K.setdefault(ev[0], (entry, ev))
        for fld in sorted(W):
            inst = '%s::%s' % (short, fld)
            writers = sorted({m.name.split('::')[-1] for m, ev in W[fld]})
            if fld in K:
                r1.ok(inst, 'written by %s; re-initialised by `%s`' % (', '.join(writers[:4]), K[fld][1][2].get('txt', '')[:50]), '%s:%s' % (K[fld][0].file, K[fld][1][2].get('line')))
                continue
            ftype = fields[fld]['type']
            hows = {ev[1] for m, ev in W[fld]}
            if 'Guardable' in ftype and hows <= {'call:CreateGuard'}:
                r1.ok(inst, 'changed only through CreateGuard() (RAII-restored on every exit)', nontrivial=True)
                continue
            # sub-analysers driven only through verified entries
            sub = [(m, ev) for m, ev in W[fld]]
            if all(_verified_call(db, m, ev) for m, ev in sub):
                r1.ok(inst, 'sub-analyser used only through its own verified entry points (%s)' % ', '.join(sorted({ev[1].split(':')[-1] for m, ev in sub})))
                continue
            if fld in A.get('helper_kills', {}):
                h = db.fn(cls + '::' + A['helper_kills'][fld])
                reads, kills = [], []
                for n in h.walk():
                    if n['k'] == 'MemberExpr' and n.get('member') == fld and n.get('mk') == 'field':
                        par = h.stmts.get(h.parent.get(n['id']))
                        is_lhs = par is not None and par['k'] in ('BinaryOperator', 'CXXOperatorCallExpr') and par.get('op') == '=' and (h.children(par)[0]['id'] == n['id'] if par['k'] == 'BinaryOperator' else par['args'][0] == n['id'])
                        (kills if is_lhs else reads).append(h.position_of(n))
                called = any(c.get('cs') == h.name for c in entry.calls())
                if called and kills and not paths_avoiding(h, [h.graph()[1]], kills, [(p, '') for p in reads if p is not None]):
                    r1.ok(inst, 'assigned on every path of %s before it is read' % A['helper_kills'][fld], '%s:%d' % (h.file, h.line))
                    continue
                r1.violation(inst, '%s:%d' % (h.file, h.line), 'member `%s` can be read in %s before it is assigned for the current input' % (fld, A['helper_kills'][fld]))
                continue
            if fld in A['exempt']:
                r1.ok(inst, 'exempt: ' + A['exempt'][fld], nontrivial=False)
                continue
            m, ev = W[fld][0]
            r1.violation(inst, '%s:%s' % (m.file, ev[2].get('line')), 'member `%s` is modified while processing an input (`%s` in %s) but is not re-initialised when the next input starts (%s): results depend on earlier inputs' % (
                fld, ev[2].get('txt', '')[:60], m.name.split('::')[-1], (cls.split('::')[-1] + '::' + A['reset']) if A['reset'] else 'no kill dominates its use in ' + A['entry']))
        for e in A['exempt']:
            if e not in fields:
                r1.broken('exemption %s::%s names a member that no longer exists' % (short, e))
        # r2
        if A['reset']:
            host = entry
            sites = call_sites(host, lambda n: (n.get('cs') or '') == cls + '::' + A['reset'])
            if not sites:
                r2.violation(short, '%s:%d' % (host.file, host.line), '%s does not call %s' % (host.name, A['reset']))
            else:
                rp = sites[0][0]
                others = []
                for n in host.calls():
                    p = host.position_of(n)
                    if p is None or p == rp or n['id'] in {x['id'] for x in host.walk(sites[0][1])}:
                        continue
                    cs = n.get('cs') or ''
                    if cs.startswith('std::') or n['k'] in ('CXXConstructExpr',):
                        continue
                    if any(x['id'] == n['id'] for x in host.walk(sites[0][1])):
                        continue
                    if any(a['id'] == sites[0][1]['id'] for a in host.ancestors(n)):
                        continue
                    # calls nested inside the arguments of the reset call are evaluated before it by necessity
                    if _contains(host, n, sites[0][1]):
                        continue
                    others.append((p, n))
                bad = paths_avoiding(host, [host.graph()[1]], [rp], [(p, '') for p, _ in others])
                if bad:
                    n = [n for p, n in others if p == bad[0][1]][0]
                    r2.violation(short, host.loc(n), '`%s` can run before the reset `%s`' % (n.get('txt', '')[:60], sites[0][1].get('txt', '')[:40]))
                else:
                    r2.ok(short, 'reset dominates %d other calls' % len(others), host.loc(sites[0][1]))

    # error log: filled through reporter callbacks (invisible to the mod-set analysis), so every driver of a Parser must clear it first
    LOG_ENTRIES = [NS + 'Parser::Parse', NS + 'Interpreter::Evaluate', NS + 'Auditor::CheckType', 'ccl::semantic::SchemaAuditor::CheckConstituenta', 'ccl::semantic::SchemaAuditor::CheckExpression']
    for name in LOG_ENTRIES:
        f = db.fn(name, required=False)
        if f is None:
            if name.startswith(NS):
                r1.broken('anchor vanished: %s' % name)
            continue
        clears = [p for p, _ in call_sites(f, lambda n: (n.get('cs') or '') in (NS + 'ErrorLogger::Clear', NS + 'Parser::Parse', NS + 'Auditor::CheckType'))]
        exits = [((bid, len(f.blocks[bid]['el'])), k) for bid, k, node in f.exit_kinds()]
        inst = name.split('::')[-2] + '::' + name.split('::')[-1] + ':log'
        if clears and not paths_avoiding(f, [f.graph()[1]], clears, exits):
            r1.ok(inst, 'error log cleared (directly or by Parser::Parse) on every path', '%s:%d' % (f.file, f.line))
        else:
            r1.violation(inst, '%s:%d' % (f.file, f.line), 'a path through %s does not clear the error log: errors of an earlier input are reported for this one' % name.split('::')[-1])

    lexer_reset_rule(db, r1, r2, M)

    r5 = rep.rule('r5', 'WRAPPER-RESET: every exit of an entry point of the schema-level auditor (which exposes the verdict flags of the analyser it wraps) is reached through the wrapped analyser\'s own entry point or after the flags were cleared explicitly - an early refusal must not leave the verdict of the previous check readable', 2)
    _wrapper_reset(db, r5)
    r4 = rep.rule('r4', 'SELF-REFERENCE: an analyser whose implementation object points at a member of the analyser (the parser driver at the parser state) is never moved memberwise: a moved analyser would go on using the state of the object it was moved from', 1)
    from rules.shared_selfref import selfref_rule
    selfref_rule(db, r4, ['ccl::rslang::'])
    r3 = rep.rule('r3', 'STATICS: every mutable object with static storage is reset before each use by its single owner, never written after initialisation, or a listed process-wide singleton', 8)
    seen_owners = set()
    for s in db.statics:
        if s.get('const') or 'RSParserImpl' in s['name']:
            continue
        owner = s.get('owner') or ''
        inst = '%s/%s' % (owner.split('::')[-1] or 'namespace', s['name'])
        pol = STATIC_POLICY.get(owner)
        seen_owners.add(owner)
        if pol is None:
            r3.violation(inst, '%s:%d' % (s['file'], s['line']), 'new mutable static `%s %s` (owner %s) is not covered by a reset-before-use / never-written / singleton policy: state shared across calls' % (s['type'][:40], s['name'], owner or 'namespace scope'))
            continue
        kind = pol[0]
        if kind == 'reset-before-use':
            f = db.fn(owner)
            ok, why = _static_reset_before_use(db, M, f, s['name'])
            if ok:
                r3.ok(inst, why, '%s:%d' % (s['file'], s['line']))
            else:
                r3.violation(inst, '%s:%d' % (s['file'], s['line']), why)
        elif kind == 'never-written':
            f = db.fn(owner)
            writes = [n for n in f.walk() if n['k'] == 'CXXMemberCallExpr' and 'obj' in n and not n.get('constm') and f.strip(f.stmts[n['obj']]).get('name') == s['name']]
            writes += [n for n in f.walk() if n['k'] in ('BinaryOperator', 'CXXOperatorCallExpr') and n.get('op') == '=' and f.strip((f.children(n) if n['k'] == 'BinaryOperator' else [f.stmts[a] for a in n['args']])[0]).get('name') == s['name']]
            if writes:
                r3.violation(inst, f.loc(writes[0]), 'static `%s` is modified after initialisation (`%s`)' % (s['name'], writes[0].get('txt', '')[:50]))
            else:
                r3.ok(inst, 'initialised once, only read afterwards', '%s:%d' % (s['file'], s['line']))
        elif kind == 'entries-only':
            f = db.fn(owner)
            bad = []
            for n in f.calls():
                if n['k'] == 'CXXMemberCallExpr' and 'obj' in n and not n.get('constm'):
                    o = f.strip(f.stmts[n['obj']])
                    if o.get('dk') == 'staticlocal' and o.get('name') == s['name'] and (n.get('cs') or '') not in VERIFIED_ENTRIES and (n.get('cs') or '').split('::')[-1] not in ('Stream', 'Clear', 'SetExepectTypification', 'AST', 'GetType'):
                        bad.append(n)
            if bad:
                r3.violation(inst, f.loc(bad[0]), 'static analyser `%s` is driven through `%s`, which is not a self-resetting entry point' % (s['name'], bad[0].get('cs')))
            else:
                r3.ok(inst, 'used only through self-resetting entry points', '%s:%d' % (s['file'], s['line']))
        else:
            r3.ok(inst, 'documented process-wide singleton', '%s:%d' % (s['file'], s['line']), nontrivial=False)
    # writers of the TextEnvironment configuration (process-wide): listed, a new writer is a violation
    _singleton_writers(db, r3)


def _contains(f, inner, outer):
    return any(x['id'] == inner['id'] for x in f.walk(outer))


def _leftmost(g, assign, member):
    l = g.children(assign)[0]
    return any(x['id'] == member['id'] for x in g.walk(l))


def _all_reachable(M, entry):
    seen = {}
    stack = [entry]
    while stack:
        f = stack.pop()
        if (f.name, f.mn) in seen:
            continue
        seen[(f.name, f.mn)] = f
        for n in f.calls():
            for t in M.db.callees(f, n):
                stack.append(t)
    return list(seen.values())


def _verified_call(db, m, ev):
    fld, how, node, path = ev
    if not how.startswith(('call:', 'call?:')):
        return False
    cs = node.get('cs') or ''
    from engine.facts import strip_targs
    return strip_targs(cs) in VERIFIED_ENTRIES or cs.endswith('::Stream') or cs.endswith('::ExtractAST') or cs.endswith('::SendReporter')


def _static_reset_before_use(db, M, f, name):
    """in owner function f: the static object's mod set over everything reachable is killed before the visit starts"""
    # class of the static
    decl = [d for n in f.walk() if n['k'] == 'DeclStmt' for d in n.get('decls', []) if d['name'] == name and d.get('static')]
    if not decl:
        return False, 'static declaration not found'
    calls = [n for n in f.calls() if n['k'] == 'CXXMemberCallExpr' and 'obj' in n and f.strip(f.stmts[n['obj']]).get('name') == name]
    cls = calls[0].get('cls') if calls else None
    if cls is None:
        refs = [n for n in f.walk() if n['k'] == 'DeclRefExpr' and n.get('name') == name and n.get('dk') == 'staticlocal']
        cls = refs[0].get('t', '').replace('const ', '').strip() if refs else None
        cands = [k for k, r in db.records.items() if r['name'].endswith('::' + (cls or '').split('::')[-1])]
        cls = db.records[cands[0]]['name'] if cands else None
    if cls is None:
        return False, 'class of static `%s` not found' % name
    rec = db.record(cls, required=False)
    if rec is None:
        return False, 'class of static not found'
    fields = {x['name'] for x in rec['fields']}
    killed = set()
    kill_pos = {}
    for n in calls:
        t = db.by_mn.get(n.get('mn') or '')
        if t is None:
            continue
        for ev in M.direct_events(t):
            if ev[0] in fields and _is_kill(ev):
                killed.add(ev[0])
                kill_pos.setdefault(ev[0], []).append(f.position_of(n))
    # direct kills of a member of the static object: generator.text.clear(); generator.x = ...
    for n in f.walk():
        tgt = None
        if n['k'] == 'CXXMemberCallExpr' and 'obj' in n and (n.get('cs') or '').split('::')[-1] in KILL_CALLS:
            tgt = f.strip(f.stmts[n['obj']])
        elif n['k'] in ('BinaryOperator', 'CXXOperatorCallExpr') and n.get('op') == '=':
            kids = f.children(n) if n['k'] == 'BinaryOperator' else [f.stmts[a] for a in n.get('args', [])]
            tgt = f.strip(kids[0]) if kids else None
        if tgt is not None and tgt['k'] == 'MemberExpr' and tgt.get('member') in fields:
            base = f.strip(f.children(tgt)[0]) if tgt.get('c') else None
            if base is not None and base.get('name') == name and base.get('dk') == 'staticlocal':
                killed.add(tgt['member'])
                kill_pos.setdefault(tgt['member'], []).append(f.position_of(n))
    # mod set of everything reachable from the function through the object
    W = set()
    for m in M.reachable_methods(f, cls):
        for ev in M.direct_events(m):
            if ev[0] in fields:
                W.add(ev[0])
    # also: fields of f's own class when the static's class is f's class (member access generator.rsText)
    missing = sorted(W - killed)
    if missing:
        return False, 'shared static `%s`: members %s are modified during a call but not re-initialised before the next one' % (name, missing)
    # the re-initialisation happens on every path through the owner, not only on some
    succ_, entry_, exit_ = f.graph()
    exits_ = [(p, '') for p, r in f.return_sites()] + [(exit_, '')]
    for mem in sorted(W):
        ps = [p for p in kill_pos.get(mem, []) if p is not None]
        if ps and paths_avoiding(f, [entry_], ps, exits_):
            return False, 'shared static `%s`: member `%s` is re-initialised only on some paths through %s; on the others the caller receives what an earlier call left there' % (name, mem, f.name.split('::')[-1])
    # the kills must precede the visit: the first non-kill call on the object comes after them — checked by order of positions
    return True, 'members %s re-initialised at the start of every call' % sorted(W)


def _singleton_writers(db, r3):
    allowed = {
        'skipResolving': {'CheckSchema', 'ResetAliases'},
    }
    cls = 'ccl::lang::TextEnvironment'
    rec = db.record(cls, required=False)
    if rec is None:
        r3.broken('TextEnvironment not found')
        return
    for f in db.functions:
        for n in f.walk():
            if n['k'] in ('BinaryOperator', 'CXXOperatorCallExpr') and n.get('op') == '=':
                kids = f.children(n) if n['k'] == 'BinaryOperator' else [f.stmts[a] for a in n.get('args', [])]
                if not kids:
                    continue
                l = f.strip(kids[0])
                if l is not None and l['k'] == 'MemberExpr' and l.get('fcls') == cls:
                    who = f.name.split('::')[-1]
                    fld = l.get('member')
                    if f.cls == cls:
                        continue
                    inst = 'TextEnvironment.%s<-%s' % (fld, who)
                    if who in allowed.get(fld, set()):
                        r3.ok(inst, 'listed writer of the process-wide text configuration (sets the same constant on every call)', f.loc(n), nontrivial=False)
                    else:
                        r3.violation(inst, f.loc(n), 'new writer of process-wide state TextEnvironment::%s: later calls in the same process see it' % fld)

def lexer_reset_rule(db, r1, r2, M):
    """each lexer entry point (SetInput, operator()) rebinds the scanner input and re-initialises every scanner member lex() modifies"""
    # lexers
    for lcls, icls in LEXERS:
        short = lcls.split('::')[-1]
        si = db.fn(lcls + '::SetInput')
        op = db.fn(lcls + '::operator()')
        irec = db.record(icls)
        ifields = [x['name'] for x in irec['fields']]
        lexfn = db.fn(icls + '::lex', pick=lambda x: not x.rec['params'])
        written = {ev[0] for ev in M.direct_events(lexfn) if ev[0] in ifields}
        def resets(fn_):
            z, rb = set(), False
            for n in fn_.walk():
                if n['k'] in ('BinaryOperator',) and n.get('op') == '=':
                    l = fn_.strip(fn_.children(n)[0])
                    if l['k'] == 'MemberExpr' and l.get('fcls') == icls:
                        z.add(l['member'])
                if n['k'] == 'CXXMemberCallExpr' and (n.get('cs') or '').split('::')[-1] == 'in' and n.get('args'):
                    rb = True
            return z, rb
        for entry in (si, op):
            zeroed, rebinds = resets(entry)
            if any(c.get('cs') == lcls + '::SetInput' for c in entry.calls()) and entry is not si:
                z2, rb2 = resets(si)
                zeroed |= z2
                rebinds = rebinds or rb2
            inst = short + '::impl' if entry is si else short + '::operator()'
            rule_ = r1 if entry is si else r2
            if not rebinds:
                rule_.violation(inst, '%s:%d' % (entry.file, entry.line), '%s does not rebind the scanner input (impl->in(input))' % entry.name.split('::')[-1])
            elif written - zeroed:
                rule_.violation(inst, '%s:%d' % (entry.file, entry.line), 'scanner members %s are modified by lex() but not re-initialised by %s (directly or through SetInput): positions of the next input depend on the previous one' % (sorted(written - zeroed), entry.name.split('::')[-1]))
            else:
                rule_.ok(inst, '%s rebinds the input and re-initialises %s' % (entry.name.split('::')[-1], sorted(written) or 'no user members'), '%s:%d' % (entry.file, entry.line))

    # r3 statics


def _wrapper_reset(db, r5):
    from engine.cfgq import paths_avoiding
    SA = 'ccl::semantic::SchemaAuditor'
    rec = db.record(SA, required=False)
    if rec is None:
        r5.broken('anchor vanished: SchemaAuditor (is the CCL unit loaded?)')
        return
    for name in ('CheckConstituenta', 'CheckExpression'):
        f = db.fn(SA + '::' + name, required=False)
        if f is None:
            r5.broken('anchor vanished: SchemaAuditor::%s' % name)
            continue
        must = [f.position_of(n) for n in f.calls() if n.get('cs') == NS + 'Auditor::CheckType']
        for n in f.walk():
            if n['k'] in ('BinaryOperator',) and n.get('op') == '=':
                l = f.strip(f.children(n)[0])
                if l is not None and l['k'] == 'MemberExpr' and l.get('member') == 'isParsed':
                    must.append(f.position_of(n))
        must = [p for p in must if p is not None]
        exits = [(p, '') for p, _ in f.return_sites()]
        entry = f.graph()[1]
        bad = paths_avoiding(f, [entry], must, exits) if must else [True]
        if bad:
            r5.violation(name, '%s:%d' % (f.file, f.line), 'a path returns without running the wrapped Auditor::CheckType and without clearing isParsed/isTypeCorrect/isValueCorrect: after a successful check, a refused one (base set with a definition, derived constituent without one) still reports parsed, type and value correct - and CheckValue() then dereferences the tree the previous check handed out')
        else:
            r5.ok(name, 'every exit passes the wrapped entry point or clears the verdict', '%s:%d' % (f.file, f.line))
