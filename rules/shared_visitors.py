"""Rules shared by C02 and C04: visitor child accesses stay inside the node (tree grammar), dispatch assertions agree with the grammar."""
from engine.visitors import VisitorModel, R
from engine.facts import AnalysisBroken

VISITORS = [R + 'TypeAuditor', R + 'ValueAuditor', R + 'ASTInterpreter::NameCollector', R + 'ASTInterpreter', R + 'GeneratorImplAST', R + 'AST2String']
# ASTInterpreter::Evaluate runs the name collector over the same tree first and stops if it refuses
PRECONDITION = {R + 'ASTInterpreter': R + 'ASTInterpreter::NameCollector'}


def tree_grammar(db):
    from engine.models.treegrammar import TreeGrammar
    return TreeGrammar(db)


def child_index_rule(db, rule, tg, classes=VISITORS, note=None):
    total = 0
    models = {}
    for cls in classes:
        try:
            pre = models.get(PRECONDITION.get(cls))
            vm = models[cls] = VisitorModel(db, tg, cls, pre=pre)
        except AnalysisBroken as e:
            rule.broken(str(e))
            continue
        short = cls.split('::')[-1]
        for f in vm.methods:
            if vm.cursor_param(f) is None or f.mn not in vm.kinds:
                continue
            moved = vm.moves(f)
            for n, idx, how in vm.accesses(f):
                total += 1
                inst = '%s::%s:%s(%s)' % (short, f.name.split('::')[-1], how, f.stmts[idx['id']].get('txt', '')[:24] if False else idx.get('txt', '')[:24])
                if moved and any(m is not n and f.position_of(n) in f.reach(f.position_of(m)) for m in moved if f.position_of(m) is not None and f.position_of(n) is not None):
                    rule.violation(inst, f.loc(n), 'the cursor was moved before this access: it no longer denotes the visited node, the child index cannot be checked against the tree grammar')
                    continue
                res, cls_ = vm.check_access(f, n, idx)
                if res == 'param':
                    rule.ok(inst, 'parametric (checked at the call sites of %s)' % f.name.split('::')[-1], f.loc(n), nontrivial=False)
                elif res:
                    k, a, why = res[0]
                    rule.violation(inst, f.loc(n), '%s: reachable for %s (%d counterexample kinds/arities); tree-grammar witness: %s' % (
                        why, sorted({x[0] for x in res})[:6], len(res), _witness(tg, k)))
                else:
                    feas = vm.feasible(f, n)
                    rule.ok(inst, '%s within every one of %d (kind, arity) cases' % (cls_[0], len(feas)), f.loc(n), nontrivial=bool(feas))
    if note is not None:
        note['child_accesses'] = total


def _witness(tg, kind):
    for (k, i, c), text in tg.witness.items():
        if k == kind:
            return text
    return '(root only)'


def dispatch_rule(db, rule, tg, classes=VISITORS):
    """every node kind the grammar can produce has a dispatch case, and the arity asserted at the case holds for every tree"""
    for cls in classes:
        try:
            vm = VisitorModel(db, tg, cls)
        except AnalysisBroken as e:
            rule.broken(str(e))
            continue
        short = cls.split('::')[-1]
        final_kinds = {k for k in tg.kinds() if k not in ('INTERRUPT', 'PUNC_PL', 'PUNC_PR', 'PUNC_CR')}
        undisp = sorted(k for k in final_kinds if k not in vm.dispatch)
        if undisp:
            rule.violation(short + ':coverage', '%s:%d' % (vm.dispatch_fn.file, vm.dispatch_fn.line), 'node kinds %s fall to the default case (%s)' % (undisp, vm.dispatch.get('default')))
        else:
            rule.ok(short + ':coverage', '%d node kinds of the grammar have a dispatch case' % len(final_kinds))
        bad = []
        for kind, asserts in vm.asserts.items():
            if kind == 'default' or kind not in tg.arity:
                continue
            for op, val in asserts:
                try:
                    val = int(val)
                except (TypeError, ValueError):
                    continue
                for a in tg.arity[kind]:
                    if not {'==': a == val, '!=': a != val, '>=': a >= val, '>': a > val, '<': a < val, '<=': a <= val}[op]:
                        bad.append('%s: asserted ChildrenCount() %s %d, the grammar builds one with %d children' % (kind, op, val, a))
        if bad:
            rule.violation(short + ':asserted-arity', '%s:%d' % (vm.dispatch_fn.file, vm.dispatch_fn.line), '; '.join(bad[:4]))
        else:
            rule.ok(short + ':asserted-arity', 'every arity asserted at a dispatch case holds for all trees of the grammar')
