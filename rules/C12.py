"""C12 — synthesis, merge and equation yield a consistent schema and exact translations.

 r1 REFUSAL     an inadmissible table is refused before anything changes: every state-changing step of RSEquationProcessor::Execute is
                dominated by Evaluate(options) == true, Evaluate is const and writes only its mutable scratch; BinarySynthes::Execute
                returns nothing before any change when the operation is not correctly defined.
 r2 PRECHECKS   PrecheckFor refuses: identical or missing constituents, non-object kinds, base-vs-derived asymmetry, *transitive*
                dependence of the survivor on the removed one in the formal graph and in the term graph, untyped constituents.
 r3 TRANSLATION every equated pair is recorded in the translation; the duplicate-elimination translation is composed with it
                (SuperposeWith), every erased duplicate is recorded and its mentions rewritten; synthesis applies the equation
                translation to both operand translations.
 r4 ORDER       texts and expressions are rewritten (for every constituent, on both sides of the core) before the equated
                constituents are erased.
 r5 MERGE       MergeWith copies every constituent of the second schema, records old->new for each in the returned translation and
                in the alias map, and translates every inserted copy unconditionally.
Not decided: type preservation and full correctness of the result (value level).
"""
from engine.cfgq import call_sites, paths_avoiding, dominating_guards, success_exits
from engine.modset import ModSets
from engine.shape import Keyer
from engine.facts import AnalysisBroken

UNITS = ['CCL', 'CGraph', 'RSlang2']
OPS = 'ccl::ops::'
S = 'ccl::semantic::'
EP = OPS + 'RSEquationProcessor'
G = 'ccl::graph::CGraph'


def _guards(f, p):
    return [(c.get('txt', ''), pol) for c, pol in dominating_guards(f, p)]


def check(db, rep):
    rep.explanation = ('Refusal purity, presence of the admissibility prechecks, translation bookkeeping (record, compose, apply to both operands), '
                       'order of rewriting vs erasing and unconditional translation of merged copies — as path/data-flow rules over the typed AST/CFG.')
    M = ModSets(db)
    # ------------------------------------------------------------------ r1
    r1 = rep.rule('r1', 'REFUSAL: nothing changes unless Evaluate(options) succeeded / the synthesis is correctly defined', 3)
    ex = db.fn(EP + '::Execute')
    changing = call_sites(ex, lambda n: (n.get('cs') or '') in (EP + '::ChangeEquatedCsts', EP + '::UpdateExpressions', EP + '::RemoveEquatedCsts', S + 'RSForm::UpdateState', S + 'RSForm::DeleteDuplicatesInternal'))
    ok = len(changing) >= 4
    for p, n in changing:
        g = _guards(ex, p)
        if not any('Evaluate(options)' in c and pol is False and c.strip().startswith('!') or ('Evaluate(options)' in c and pol is True and not c.strip().startswith('!')) for c, pol in g):
            ok = False
    if ok:
        r1.ok('Execute', '%d state-changing steps all under Evaluate(options)' % len(changing), '%s:%d' % (ex.file, ex.line))
    else:
        r1.violation('Execute', '%s:%d' % (ex.file, ex.line), 'a state-changing step of the equation can run although the table was not accepted by Evaluate(options): a refused equation modifies the schema')
    ev = db.fn(EP + '::Evaluate', pick=lambda f: 'EquationOptions' in f.rec['params'][0]['type'])
    rec = db.record(EP)
    mutable = {f['name'] for f in rec['fields'] if f.get('mutable')}
    written = set()
    for m in M.reachable_methods(ev, EP):
        for e in M.direct_events(m):
            written.add(e[0])
    if ev.rec.get('const') and written <= mutable:
        r1.ok('Evaluate', 'const; writes only mutable scratch %s' % sorted(written), '%s:%d' % (ev.file, ev.line))
    else:
        r1.violation('Evaluate', '%s:%d' % (ev.file, ev.line), 'the admissibility test writes %s (allowed: mutable scratch %s)' % (sorted(written - mutable), sorted(mutable)))
    bs = db.fn(OPS + 'BinarySynthes::Execute')
    mut = call_sites(bs, lambda n: (n.get('cs') or '').split('::')[-1] in ('DeleteDuplicates', 'Equate', 'ResetAliases', 'SubstituteValues'))
    ok = bool(mut) and all(any('IsCorrectlyDefined' in c and pol is False for c, pol in _guards(bs, p)) for p, n in mut)
    if ok:
        r1.ok('BinarySynthes::Execute', 'all changes after the IsCorrectlyDefined() guard', '%s:%d' % (bs.file, bs.line))
    else:
        r1.violation('BinarySynthes::Execute', '%s:%d' % (bs.file, bs.line), 'the result schema is modified although the synthesis is not correctly defined')

    # ------------------------------------------------------------------ r2
    r2 = rep.rule('r2', 'PRECHECKS: identical/missing, kinds, base-vs-derived, transitive dependence in both graphs, typed', 6)
    pf = db.fn(EP + '::PrecheckFor')
    K = Keyer(pf)
    key, value = pf.rec['params'][0]['name'], pf.rec['params'][1]['name']
    refusals = []
    for n in pf.walk():
        if n['k'] == 'IfStmt':
            then = pf.stmts[n['then']]
            rets = [r for r in pf.walk(then) if r['k'] == 'ReturnStmt']
            if rets and pf.return_literal(rets[0]) == 'false':
                refusals.append(pf.stmts[n['cond']])
    txts = [c.get('txt', '') for c in refusals]
    alltxt = ' ## '.join(txts)
    def has(pred):
        return any(pred(c) for c in refusals)
    checks = {
        'same-constituent': lambda c: 'key == value' in c.get('txt', '').replace(key, 'key').replace(value, 'value'),
        'both-exist': lambda c: c.get('txt', '').count('Contains') >= 2,
        'object-kinds': lambda c: c.get('txt', '').count('IsRSObject') >= 2,
        'typed': lambda c: c.get('txt', '').count('exprType.has_value()') >= 2,
    }
    for name, pred in checks.items():
        if has(pred):
            r2.ok(name, 'refusing guard present', '%s:%d' % (pf.file, pf.line), nontrivial=False)
        else:
            r2.violation(name, '%s:%d' % (pf.file, pf.line), 'PrecheckFor no longer refuses the case `%s`' % name)
    for gname, owner in (('formal-graph', S + 'Schema::Graph'), ('term-graph', S + 'Thesaurus::TermGraph')):
        good = False
        for c in refusals:
            for call in pf.calls(c):
                if call.get('cs') == G + '::IsReachableFrom' and any(x.get('cs') == owner for x in pf.calls(call)):
                    a = [K.key(pf.stmts[x]) for x in call['args']]
                    if a == [('var', value), ('var', key)]:
                        good = True
        if good:
            r2.ok('dependence:' + gname, 'refuses when the survivor is transitively reachable from the removed constituent', '%s:%d' % (pf.file, pf.line))
        else:
            r2.violation('dependence:' + gname, '%s:%d' % (pf.file, pf.line), 'PrecheckFor does not refuse a table that equates a constituent with one that transitively depends on it in the %s (IsReachableFrom(value, key)): accepting it erases a constituent the survivor is defined through and leaves a cyclic, incorrect schema' % gname)

    # ------------------------------------------------------------------ r3
    r3 = rep.rule('r3', 'TRANSLATION: equated pairs recorded, duplicate translation composed, erased duplicates recorded and rewritten, both operand translations updated', 4)
    ce = db.fn(EP + '::ChangeEquatedCsts')
    ins = [n for n in ce.calls() if n.get('cs') == 'ccl::EntityTranslation::Insert']
    lp = [n for n in ce.walk() if n['k'] == 'CXXForRangeStmt']
    ok = len(ins) == 1 and lp and any(a['id'] == lp[0]['id'] for a in ce.ancestors(ins[0])) and not any(a['k'] == 'IfStmt' for a in ce.ancestors(ins[0]))
    if ok:
        r3.ok('ChangeEquatedCsts', 'translation.Insert(key, value) for every equation', ce.loc(ins[0]))
    else:
        r3.violation('ChangeEquatedCsts', '%s:%d' % (ce.file, ce.line), 'not every equated pair is recorded in the returned translation')
    sp = [n for n in ex.calls() if n.get('cs') == 'ccl::EntityTranslation::SuperposeWith']
    dd = [n for n in ex.calls() if n.get('cs') == S + 'RSForm::DeleteDuplicatesInternal']
    if len(sp) == 1 and dd and any(x['id'] == dd[0]['id'] for x in ex.walk(sp[0])):
        r3.ok('Execute:compose', 'translation.SuperposeWith(DeleteDuplicatesInternal())', ex.loc(sp[0]))
    else:
        r3.violation('Execute:compose', '%s:%d' % (ex.file, ex.line), 'the translation of the duplicate elimination is not composed (SuperposeWith) with the equation translation: an operand constituent whose image was erased as a duplicate maps to a constituent that no longer exists')
    ddi = db.fn(S + 'RSForm::DeleteDuplicatesInternal')
    er = call_sites(ddi, lambda n: n.get('cs') == S + 'RSForm::EraseInternal')
    tins = [p for p, n in call_sites(ddi, lambda n: n.get('cs') == 'ccl::EntityTranslation::Insert')]
    tall = [p for p, n in call_sites(ddi, lambda n: n.get('cs') == S + 'RSCore::TranslateAll')]
    ok = bool(er) and bool(tins) and bool(tall)
    if ok:
        # after a successful erase (true branch) both must follow before the loop continues/breaks
        for p, n in er:
            g_ins = [q for q in tins if any('EraseInternal' in c and pol for c, pol in _guards(ddi, q))]
            g_all = [q for q in tall if any('EraseInternal' in c and pol for c, pol in _guards(ddi, q))]
            if not g_ins or not g_all:
                ok = False
    if ok:
        r3.ok('DeleteDuplicatesInternal', 'erase of a duplicate is followed by translation.Insert(copy, original) and TranslateAll(copy alias -> original alias)', '%s:%d' % (ddi.file, ddi.line))
    else:
        r3.violation('DeleteDuplicatesInternal', '%s:%d' % (ddi.file, ddi.line), 'an erased duplicate is not both recorded in the translation and rewritten in the remaining definitions')
    sv = [n for n in bs.calls() if n.get('cs') == 'ccl::EntityTranslation::SubstituteValues']
    idx = sorted(bs.strip(bs.stmts[c['args'][0]]).get('cv') for n in sv for c in bs.calls(bs.stmts[n['obj']]) if (c.get('cs') or '').endswith('::at') and c.get('args'))
    every_path = True
    exits_ok = success_exits(bs)
    for n in sv:
        if paths_avoiding(bs, [bs.graph()[1]], [bs.position_of(n)], exits_ok):
            every_path = False
    if len(sv) == 2 and idx == [0, 1] and not every_path:
        r3.violation('BinarySynthes::Execute', '%s:%d' % (bs.file, bs.line), 'an operand translation is passed through the equation translation on some paths only (e.g. not when the table is empty and duplicates were merged): it then maps constituents to erased ones')
    elif len(sv) == 2 and idx == [0, 1]:
        r3.ok('BinarySynthes::Execute', 'both operand translations pass through the equation translation on every successful path', '%s:%d' % (bs.file, bs.line))
    else:
        r3.violation('BinarySynthes::Execute', '%s:%d' % (bs.file, bs.line), 'the equation translation is applied to operand translations %s, it must be applied to both (0 and 1)' % idx)

    # ------------------------------------------------------------------ r4
    r4 = rep.rule('r4', 'ORDER: ChangeEquatedCsts -> UpdateExpressions -> RemoveEquatedCsts; UpdateExpressions translates every constituent on both sides', 2)
    pos = {}
    for name in ('ChangeEquatedCsts', 'UpdateExpressions', 'RemoveEquatedCsts'):
        c = call_sites(ex, lambda n, name=name: n.get('cs') == EP + '::' + name)
        pos[name] = c[0][0] if c else None
    if all(pos.values()) and pos['UpdateExpressions'] in ex.reach(pos['ChangeEquatedCsts']) and pos['RemoveEquatedCsts'] in ex.reach(pos['UpdateExpressions']) and pos['UpdateExpressions'] not in ex.reach(pos['RemoveEquatedCsts']):
        r4.ok('Execute:order', 'texts, then expressions, then erasure', '%s:%d' % (ex.file, ex.line))
    else:
        r4.violation('Execute:order', '%s:%d' % (ex.file, ex.line), 'equated constituents are erased before their mentions are rewritten')
    ue = db.fn(EP + '::UpdateExpressions')
    lp = [n for n in ue.walk() if n['k'] == 'CXXForRangeStmt']
    whole = lp and any(c.get('cs') in (G + '::InverseTopologicalOrder', G + '::TopologicalOrder') for c in ue.calls(ue.stmts[lp[0]['range']]))
    both = lp and any(c.get('cs') == S + 'RSCore::Translate' for c in ue.calls(ue.stmts[lp[0]['body']]))
    if whole and both:
        r4.ok('UpdateExpressions', 'RSCore::Translate (formal part and texts) for every constituent', '%s:%d' % (ue.file, ue.line))
    else:
        r4.violation('UpdateExpressions', '%s:%d' % (ue.file, ue.line), 'mentions are not rewritten for every constituent on both sides of the core')

    # ------------------------------------------------------------------ r5
    r10 = rep.rule('r10', 'ADMISSIBILITY-TOTAL: the admissibility test of an equation table answers yes or no - every optional::value() on its paths (RSEquationProcessor methods reachable from Evaluate) is dominated by has_value() on the same object, so an inadmissible table cannot make it throw', 1)
    _admissibility_total(db, r10)
    r12 = rep.rule('r12', 'EXECUTE-FROM-CLEAN-STATE: the equation processor lives as long as its schema; every member it fills while executing a table (the returned translation, the name substitutions, the table pointer) is reset on every path '
                          'before the first write of that execution - a second Equate never returns pairs of the first', 2)
    _clean_state(db, r12)
    r11 = rep.rule('r11', 'HANDOVER-RECREATED: an operation that hands its precreated result over to the caller (return std::move(member)) never dereferences that member again before it is '
                          'created anew or tested: executing an operation twice answers, it does not crash', 2)
    _handover_recreated(db, r11)
    r9 = rep.rule('r9', 'NO-LOOP-BY-EQUATION: an equation table is refused whenever identifying every removed constituent with its replacement closes a dependency loop - also when no single pair does (the precheck interpreted over small dependency graphs with the real graph code)', 1)
    equation_loops_evaluated(db, r9)
    r8 = rep.rule('r8', 'TRANSLATION-CLOSED: the translation returned by duplicate elimination maps every erased constituent to a constituent that still exists (interpreted on schemas with chains of duplicates)', 1)
    duplicates_evaluated(db, r8)
    r5 = rep.rule('r5', 'MERGE: MergeWith interpreted on small schemas: every constituent of the second schema is copied and recorded in the returned translation, and each copy carries the source texts with every mention renamed exactly once by the complete map', 1)
    merge_evaluated(db, r5)
    _admissible_table(db, rep)


def _admissible_table(db, rep):
    """r6: BinarySynthes::ResetResult evaluated on every table of up to two pairs over {known, foreign} x {known, foreign}: the synthesis is correctly
    defined iff every left side is a constituent of operand 1 AND every right side a constituent of operand 2 (and the pairs are equatable)"""
    import itertools
    from engine.evalmini import Interp, Obj, OutOfFragment, NOT_HANDLED
    r14 = rep.rule('r14', 'TOKENS (shared with C08 r2): every rewriting of mentions in a merge or an equation goes through TranslateRS, which - interpreted on scripted token streams with three occurrences of a name and a replacement of another length - rewrites every occurrence in place', 1)
    from rules import C08
    C08.translate_all_tokens(db, r14)
    r13 = rep.rule('r13', 'COPIES-ANALYSED (shared with C07 r2): an insertion that loads the copies with the deferred loader reaches UpdateState on every path to its return - whether or not a name had to change - so the merged schema holds the parse results and resolved texts of what it now contains', 3)
    from rules import C07
    C07.deferred_rule(db, r13)
    r7 = rep.rule('r7', 'TRANSLATE-ONCE (shared with C08 r8): merged copies have every mention rewritten exactly once by the complete alias map', 4)
    from rules.shared_translate_once import translate_once_rule
    translate_once_rule(db, r7)
    r6 = rep.rule('r6', 'ADMISSIBLE-TABLE: a synthesis table is accepted only if each pair names a constituent of operand 1 and one of operand 2 and the pairs are equatable', 1)
    f = db.fn(OPS + 'BinarySynthes::ResetResult', required=False)
    if f is None:
        r6.broken('anchor vanished: BinarySynthes::ResetResult')
        return
    bad, cases = None, 0
    try:
        sides = [(1, 11), (1, 99), (99, 11), (99, 99), (2, 12)]      # uid 1,2 in operand 1; 11,12 in operand 2; 99 foreign
        for k in ((0, 1, 2, 3) if rep.tier == 'thorough' else (0, 1, 2)):
            for table in itertools.product(sides, repeat=k):
                for equatable in (True, False):
                    cases += 1
                    this = Obj(equations=[Obj(first=a, second=b) for a, b in table], isCorrect=None, operand1=Obj(ids={1, 2}), operand2=Obj(ids={11, 12}), resultSchema=Obj())

                    def on_call(it, fn, n, env, equatable=equatable):
                        cs = n.get('cs') or ''
                        last = cs.split('::')[-1]
                        if last == 'PrecreateResult' or last == 'TranslateEquations':
                            return None
                        if last == 'Contains':
                            if 'obj' in n:
                                o = it.eval(fn, fn.stmts[n['obj']], env)
                            else:
                                # inside a generic lambda the object expression is only available as the base of the callee member expression
                                me = [x for x in fn.walk(fn.stmts[n['c'][0]]) if x['k'] == 'MemberExpr' and x.get('member') in ('operand1', 'operand2')]
                                if not me:
                                    raise OutOfFragment('Contains on an unknown object at %s' % fn.loc(n))
                                o = env['this'][me[0]['member']]
                            v = it.eval(fn, fn.stmts[n['args'][0]], env)
                            return v in o['ids']
                        if last == 'IsEquatable':
                            return equatable
                        if last == 'Ops':
                            return Obj()
                        return NOT_HANDLED
                    Interp(db, on_call=on_call).call(f, [], this)
                    want = (all(a in (1, 2) and b in (11, 12) for a, b in table) and equatable) if table else True
                    if bool(this['isCorrect']) != want and bad is None:
                        bad = 'table %s (uids 1,2 belong to operand 1, 11,12 to operand 2, 99 to neither; pairs %s): accepted = %s' % (list(table), 'equatable' if equatable else 'not equatable', this['isCorrect'])
    except OutOfFragment as e:
        r6.broken('BinarySynthes::ResetResult outside the evaluable fragment: %s' % e)
        return
    if bad:
        r6.violation('BinarySynthes::ResetResult', '%s:%d' % (f.file, f.line), bad)
    else:
        r6.ok('BinarySynthes::ResetResult', 'accepts exactly the admissible tables on %d cases' % cases, '%s:%d' % (f.file, f.line))


def _merge_rule(db, r5, mw):
    """names are taken from the code, not assumed: the alias map is what CreateTranslator receives, the set to translate is what the translating loop iterates"""
    copy_calls = [n for n in mw.calls() if (n.get('cs') or '').endswith('::InsertCopy')]
    copy_loops = [a for n in copy_calls for a in mw.ancestors(n) if a['k'] == 'CXXForRangeStmt'][:1]
    ct = [n for n in mw.calls() if (n.get('cs') or '').endswith('CreateTranslator') and n.get('args')]
    tr = [n for n in mw.calls() if n.get('cs') == S + 'RSCore::Translate']
    if not copy_loops or not ct or not tr:
        r5.violation('MergeWith:shape', '%s:%d' % (mw.file, mw.line), 'MergeWith no longer copies the constituents in a loop, builds a translator from the alias map and translates the copies')
        return
    loop = copy_loops[0]
    amap = mw.strip(mw.stmts[ct[0]['args'][0]]).get('did')
    ret = [r for p, r in mw.return_sites() if 'value' in r]
    result = mw.strip(mw.stmts[ret[0]['value']]).get('did') if ret else None
    while result is None and ret:       # return std::move(x) / copy construction
        v = mw.strip(mw.stmts[ret[0]['value']])
        inner = [x for x in mw.walk(v) if x['k'] == 'DeclRefExpr' and x.get('dk') == 'local']
        result = inner[0].get('did') if inner else False

    def fills(did):
        """unconditional fill of container `did` inside the copy loop"""
        cs = [x for x in mw.walk(mw.stmts[loop['body']]) if x['k'] == 'CXXMemberCallExpr' and 'obj' in x and mw.strip(mw.stmts[x['obj']]).get('did') == did
              and (x.get('cs') or '').split('::')[-1] in ('insert', 'emplace', 'Insert', 'emplace_back', 'push_back')]
        return cs and all(not any(a['k'] in ('IfStmt', 'ConditionalOperator') and any(y is a for y in mw.walk(mw.stmts[loop['body']])) for a in mw.ancestors(x)) for x in cs)
    if result and fills(result):
        r5.ok('MergeWith:translation', 'the returned translation is filled for every copied constituent', '%s:%d' % (mw.file, mw.line))
    else:
        r5.violation('MergeWith:translation', '%s:%d' % (mw.file, mw.line), 'the returned translation is not filled for every copied constituent (missing or conditional)')
    if amap and fills(amap):
        r5.ok('MergeWith:alias-map', 'the alias map is filled for every copied constituent', '%s:%d' % (mw.file, mw.line))
    else:
        r5.violation('MergeWith:alias-map', '%s:%d' % (mw.file, mw.line), 'the old-alias -> new-alias map is not filled for every copied constituent: mentions of that alias keep denoting a constituent of the first schema')
    # every copy is translated, and only once the alias map is complete: no alias-map insertion is reachable after a Translate call
    t0 = tr[0]
    inserts = [x for x in mw.calls() if x['k'] == 'CXXMemberCallExpr' and 'obj' in x and mw.strip(mw.stmts[x['obj']]).get('did') == amap and (x.get('cs') or '').split('::')[-1] in ('insert', 'emplace', 'insert_or_assign')]
    late = [x for x in inserts if mw.position_of(x) in mw.reach(mw.position_of(t0))]
    tloops = [a for a in mw.ancestors(t0) if a['k'] == 'CXXForRangeStmt']
    cond = any(a['k'] == 'IfStmt' for a in mw.ancestors(t0))
    covered = False
    if tloops:
        rng = mw.strip(mw.stmts[tloops[0]['range']])
        covered = (rng.get('did') is not None and (fills(rng.get('did')) or rng.get('did') == mw.strip(mw.stmts[loop['range']]).get('did')))
    if late:
        r5.violation('MergeWith:translate', mw.loc(t0), 'a copied constituent is translated while the alias map is still being filled (an insertion is reachable after the Translate call): a mention of a constituent copied later is left untranslated and captures a constituent of the first schema')
    elif cond or not covered:
        r5.violation('MergeWith:translate', mw.loc(t0), 'not every copied constituent is translated with the alias map')
    else:
        r5.ok('MergeWith:translate', 'every copy is translated after the alias map is complete', mw.loc(t0))


# ---------------------------------------------------------------------------------------------- r5: the merge, evaluated
def merge_evaluated(db, rule):
    """rsOperationFacet::MergeWith with RSForm / RSCore::InsertCopy (whichever overloads it uses) interpreted from the source on small schemas
    whose texts are sequences of name mentions. Supplied: the name registry (a new alias is the first free number of its letter), the
    storages (Load / Insert keep the record), and the effect of a translator on a text (every mention is mapped once).
    Required: every constituent of the second schema has a copy, the returned translation maps each to its copy, and each copy's texts are
    the source texts with every mention replaced by the alias of the copy of the mentioned constituent - exactly once."""
    from engine.evalmini import Interp, Obj, OutOfFragment, NOT_HANDLED
    mw = db.fn(S + 'rsOperationFacet::MergeWith', required=False)
    if mw is None:
        rule.broken('anchor vanished: rsOperationFacet::MergeWith')
        return
    FIELDS = ('definition', 'convention', 'term', 'text')

    rec_overload = [g for g in db.by_name.get(S + 'RSCore::InsertCopy', []) if g.body >= 0 and g.rec.get('params') and 'ConceptRecord' in g.rec['params'][0]['type'] and 'vector' in g.rec['params'][0]['type']]

    def scenario(dest, src, entry='merge'):
        """dest: aliases of the receiving schema, or (alias, [mentions of its definition]) pairs; src: list of (alias, [mentions]); returns (bad message or None)"""
        dmap = lambda d: {} if isinstance(d, str) else (d[1] if isinstance(d[1], dict) else {'definition': d[1]})
        dest_recs = [Obj(__cls__='cst', uid=1000 + i, alias=(d if isinstance(d, str) else d[0]).encode(), type=ord((d if isinstance(d, str) else d[0])[0]),
                         **{f_: [m.encode() for m in dmap(d).get(f_, [])] for f_ in FIELDS}) for i, d in enumerate(dest)]
        dest_aliases = [bytes(r['alias']).decode() for r in dest_recs]
        used = set(dest_aliases)
        reserved = set()
        store = {}            # new uid -> record
        next_uid = [100]
        src_recs = {}
        for i, (alias, mentions) in enumerate(src):
            src_recs[i + 1] = Obj(__cls__='cst', uid=i + 1, alias=alias.encode(), type=ord(alias[0]), **{f: [m.encode() for m in (mentions.get(f, []) if isinstance(mentions, dict) else mentions)] for f in FIELDS})
        result_tr = {}

        def apply(rec, mapping):
            for f in FIELDS:
                rec[f] = [mapping.get(m, m) for m in rec[f]]

        def on_call(it, fn, n, env):
            cs = n.get('cs') or ''
            last = cs.split('::')[-1]
            Sx = fn.stmts

            def ev(sid):
                v = it.eval(fn, Sx[sid], env)
                while isinstance(v, tuple) and len(v) == 2 and v[0] == 'ptr':
                    v = v[1]
                return v
            a = lambda: [ev(x) for x in n.get('args', [])]
            if last == 'List' and cs.startswith(S):
                return sorted(src_recs)
            if last == 'Core' and cs.startswith(S):
                o = ev(n['obj']) if 'obj' in n else None
                return Obj(__cls__='core', which='src' if isinstance(o, Obj) and o.get('which') == 'src' else 'dst')
            if last in ('GetRS', 'GetText') and cs.startswith(S):
                o = ev(n['obj']) if 'obj' in n else None
                uid = a()[0]
                if isinstance(o, Obj) and o.get('which') == 'src':
                    return src_recs[uid]
                if uid not in store:
                    raise OutOfFragment('GetRS of an unknown constituent %s' % uid)
                return store[uid]
            if last == 'RegisterID':
                uid, alias, typ = a()
                alias = bytes(alias).decode()
                new_alias = alias
                if new_alias in used:
                    k_ = 1
                    while '%s%d' % (alias[0], k_) in used:
                        k_ += 1
                    new_alias = '%s%d' % (alias[0], k_)
                used.add(new_alias)
                next_uid[0] += 1
                return Obj(uid=next_uid[0], alias=new_alias.encode())
            if last == 'ReserveAlias' and a():
                used.add(bytes(a()[-1]).decode())             # the registry is a set of taken names: reserving a taken name changes nothing ...
                return None
            if last == 'FreeAlias' and a():
                used.discard(bytes(a()[-1]).decode())         # ... and freeing a name removes it, whoever had taken it
                return None
            if last == 'ExtractUGlobals' and n.get('args'):
                v = ev(n['args'][0])
                return set(bytes(x) for x in v) if isinstance(v, list) else set()
            if last in ('At',) and cs.startswith(S + 'Thesaurus') and n.get('args'):
                u_ = ev(n['args'][0])
                hit_ = [r for r in dest_recs if r['uid'] == u_] + ([store[u_]] if u_ in store else [])
                if not hit_:
                    raise OutOfFragment('Thesaurus::At of an unknown constituent %s' % u_)
                return hit_[0]
            if last == 'Text' and 'LexicalTerm' in cs and 'obj' in n:
                return ev(n['obj'])
            if last == 'Referals' and 'obj' in n:
                m_ = fn.strip(Sx[n['obj']])
                if m_ is not None and m_['k'] == 'MemberExpr' and (m_.get('qn') or '').endswith('TextConcept::definition'):
                    return set(bytes(x) for x in ev(m_['c'][0])['text'])
                v_ = ev(n['obj'])
                return set(bytes(x) for x in v_) if isinstance(v_, list) else set()
            if last == 'FindAlias' and cs.startswith(S) and n.get('args'):
                o = ev(n['obj']) if 'obj' in n else None
                nm = bytes(ev(n['args'][-1]))
                if isinstance(o, Obj) and o.get('which') == 'src':
                    hit = [u for u, r in src_recs.items() if bytes(r['alias']) == nm]
                else:
                    hit = [r['uid'] for r in dest_recs if bytes(r['alias']) == nm] + [u for u, r in store.items() if bytes(r['alias']) == nm]
                return hit[0] if hit else None
            if last in ('SpawnRS', 'SpawnText') and 'obj' in n:
                r0 = ev(n['obj'])
                return Obj(__cls__='cst', uid=r0['uid'], alias=r0['alias'], type=r0.get('type'), **{f: list(r0[f]) for f in FIELDS})
            if last in ('Load', 'Insert') and cs.startswith((S + 'Schema::', S + 'Thesaurus::')):
                rec = a()[0]
                cur = store.setdefault(rec['uid'], Obj(__cls__='cst', uid=rec['uid'], alias=rec['alias'], type=rec.get('type'), **{f: list(rec[f]) for f in FIELDS}))
                part = ('definition', 'convention') if 'Schema' in cs else ('term', 'text')
                for f in part:
                    cur[f] = list(rec[f])
                cur['alias'] = rec['alias']
                return True
            if last == 'Insert' and 'CstList' in cs:
                return None
            if last == 'CreateTranslator':
                m = a()[0]
                return Obj(__kind__='translator', m=dict(m))
            if last in ('Translate', 'TranslateRaw', 'TranslateAll') and cs.startswith((S + 'RSConcept::', S + 'TextConcept::')):
                rec = ev(n['obj'])
                tr = a()[0]
                part = ('definition', 'convention') if 'RSConcept' in cs else ('term', 'text')
                for f in part:
                    rec[f] = [tr['m'].get(m_, m_) for m_ in rec[f]]
                return True
            if cs in (S + 'Schema::Translate', S + 'Thesaurus::Translate'):
                uid, tr = a()
                part = ('definition', 'convention') if 'Schema' in cs else ('term', 'text')
                for f in part:
                    store[uid][f] = [tr['m'].get(m_, m_) for m_ in store[uid][f]]
                return True
            if last in ('UpdateState', 'NotifyModification', 'Notify', 'reserve'):
                return None
            if cs == 'ccl::EntityTranslation::Insert' or (last == 'Insert' and 'EntityTranslation' in cs):
                k_, v_ = a()
                result_tr[k_] = v_
                return None
            if n['k'] in ('CXXConstructExpr', 'CXXTemporaryObjectExpr') and (n.get('cls') or '').endswith(('EntityTranslation',)):
                return Obj(__cls__='etr')
            if n['k'] in ('CXXConstructExpr', 'CXXTemporaryObjectExpr') and (n.get('cls') or '').endswith(('RSConcept', 'TextConcept')) and len(n.get('args', [])) == 1:
                r0 = a()[0]
                return Obj(__cls__='cst', uid=r0['uid'], alias=r0['alias'], type=r0.get('type'), **{f: list(r0[f]) for f in FIELDS})
            if last in ('size', 'ssize') and n.get('args') and cs.startswith('std::'):
                v = ev(n['args'][0])
                if isinstance(v, Obj) and v.get('__cls__') == 'core':
                    return len(src_recs)
            return NOT_HANDLED
        this = Obj(__cls__=S + 'rsOperationFacet', core=Obj(__cls__=S + 'RSForm', which='dst', core=Obj(__cls__=S + 'RSCore', which='dst', identifiers=Obj(), schema=Obj(__cls__='schema', which='dst'), thesaurus=Obj(), cstList=Obj())))
        it_ = Interp(db, on_call=on_call, max_steps=400000)

        def on_range(_it, v):
            while isinstance(v, tuple) and len(v) == 2 and v[0] == 'ptr':
                v = v[1]
            if isinstance(v, Obj) and v.get('__cls__') == 'schema':
                return list(dest_recs) + list(store.values())
            return v
        it_.on_range = on_range
        if entry == 'merge':
            it_.call(mw, [Obj(__cls__=S + 'RSForm', which='src')], this)
        else:
            # the sibling that inserts a group of records (the same register / load / collect / translate protocol, no source schema)
            got_ = it_.call(rec_overload[0], [[src_recs[u_] for u_ in sorted(src_recs)]], this['core']['core'])
            for u_, new_ in zip(sorted(src_recs), got_ or []):
                result_tr[u_] = new_
        # expectations
        if sorted(result_tr) != sorted(src_recs):
            return 'the returned translation covers %s of the constituents %s of the merged schema' % (sorted(result_tr), sorted(src_recs))
        final = {}
        for uid, rec in src_recs.items():
            new = result_tr[uid]
            if new not in store:
                return 'constituent %s is translated to %s, which is not in the result' % (bytes(rec['alias']).decode(), new)
            final[bytes(rec['alias'])] = bytes(store[new]['alias'])
        for uid, rec in src_recs.items():
            got = store[result_tr[uid]]
            for f in FIELDS:
                want = [final.get(bytes(m), bytes(m)) for m in rec[f]]
                if [bytes(x) for x in got[f]] != want:
                    return 'merging %s into a schema holding %s: the copy of %s (%s) has the %s mentions %s, every mention renamed once gives %s' % (
                        [(a_, m_) for a_, m_ in src], sorted(dest_aliases), bytes(rec['alias']).decode(), bytes(got['alias']).decode(), f,
                        [bytes(x).decode() for x in got[f]], [w.decode() for w in want])
        # the registry of taken names still holds the alias of every constituent (a name freed by mistake would be handed out a second time)
        lost = sorted(a_ for a_ in [bytes(r['alias']).decode() for r in dest_recs] + [bytes(r['alias']).decode() for r in store.values()] if a_ not in used)
        if lost:
            return ('merging %s into a schema holding %s: afterwards the name registry no longer holds %s, the alias of a living constituent (a name that was reserved although it is taken is freed with the reservations): '
                    'the next insertion is given the same alias' % ([(a_, m_) for a_, m_ in src], dest, lost))
        # a mention that denotes no constituent (of its own schema) must not be given one by a generated name
        src_aliases = {bytes(r['alias']) for r in src_recs.values()}
        fresh = {bytes(r['alias']) for r in store.values()} - {a_.encode() for a_ in dest_aliases}
        for who, recs_, own in (('merged', list(src_recs.values()), src_aliases), ('receiving', dest_recs, {a_.encode() for a_ in dest_aliases})):
            for rec in recs_:
              for f_ in FIELDS:
                for m in rec[f_]:
                    if bytes(m) not in own and bytes(m) in fresh and not (who == 'merged' and bytes(m).decode() in dest_aliases):
                        return ('merging %s into a schema holding %s: the %s of %s in the %s schema mentions %s, which denotes no constituent there; a copied constituent is given exactly this name, '
                                'so the dangling mention silently gets a meaning (an INCORRECT definition becomes VERIFIED, X1\\X2 becomes X2\\X2; a text reference to an erased constituent names another one)' % (
                                    [(a_, m_) for a_, m_ in src], dest, f_, bytes(rec['alias']).decode(), who, bytes(m).decode()))
        return None
    cases = [
        (['X1'], [('X1', ['X1', 'X2']), ('X2', ['X2'])]),                     # chain X1->X2, X2->X3 and self mentions
        (['X1', 'D1'], [('X1', []), ('D1', ['D1', 'X1']), ('D2', ['D1', 'D2'])]),
        ([], [('X1', ['X1']), ('D1', ['X1', 'D1'])]),                         # nothing renamed
        (['X1', 'X2', 'X3'], [('X1', ['X3']), ('X2', ['X1']), ('X3', ['X2', 'X9'])]),
        (['D1'], [('X1', ['D1']), ('D1', ['X1', 'D1', 'D1'])]),
        (['X1'], [('X1', {'term': ['X1'], 'text': ['X2', 'X1']}), ('X2', {'definition': ['X1'], 'text': ['X2']})]),     # a constituent with an empty formal part still has texts
        (['X1'], [('X1', {'definition': ['X1', 'X2']})]),                      # X2 is defined nowhere: the copy of X1 must not be called X2
        ([('X1', []), ('D1', ['X2', 'X2'])], [('X1', ['X1'])]),                # the receiving schema mentions the erased X2
        ([('X1', []), ('D1', ['X2'])], [('X2', ['X2']), ('X1', ['X2'])]),      # ... and the merged schema has an X2 of its own
        ([('X1', []), ('D1', {'definition': ['X1'], 'term': ['X2'], 'convention': ['X2']})], [('X1', ['X1'])]),      # only the texts of the receiving schema mention the erased X2
        (['X1'], [('X1', {'definition': ['X1'], 'text': ['X2']})]),            # a text reference of the merged schema dangles
        (['X1', 'X2'], [('D1', {'definition': ['X1'], 'term': ['X2']})]),      # the merged schema mentions names only the receiving one defines
    ]
    bad = None
    try:
        for dest, src in cases:
            bad = bad or scenario(dest, src)
    except OutOfFragment as e:
        rule.broken('MergeWith outside the evaluable fragment: %s' % e)
        return
    if bad:
        rule.violation('MergeWith:evaluated', '%s:%d' % (mw.file, mw.line), bad)
    else:
        rule.ok('MergeWith:evaluated', '%d merge scenarios: every constituent copied, recorded, and every mention in its texts renamed exactly once' % len(cases), '%s:%d' % (mw.file, mw.line))
    # the sibling group insertion of records (synthesis helpers, loading a group): same obligation on the renaming
    if len(rec_overload) == 1:
        g = rec_overload[0]
        bad2 = None
        try:
            for dest, src in cases[:6]:
                bad2 = bad2 or scenario(dest, src, entry='records')
        except OutOfFragment as e:
            rule.broken('RSCore::InsertCopy(records) outside the evaluable fragment: %s' % e)
            return
        if bad2:
            rule.violation('InsertCopy(records):evaluated', '%s:%d' % (g.file, g.line), bad2.replace('merging', 'inserting the records'))
        else:
            rule.ok('InsertCopy(records):evaluated', '6 scenarios: every record inserted and every mention renamed exactly once by the complete map', '%s:%d' % (g.file, g.line))


# ---------------------------------------------------------------------------------------------- r8: duplicate elimination, evaluated
class _LiveList(list):
    """a std::list observed while elements other than the current one are erased: iteration continues with the element that follows the
    current one in the list as it is then (erasing another element does not invalidate the iterator)"""
    def __iter__(self):
        cur = None
        while True:
            if cur is None:
                nxt = self[0] if len(self) else None
            else:
                if cur in self:
                    i = list.index(self, cur)
                    nxt = self[i + 1] if i + 1 < len(self) else None
                else:
                    nxt = None            # the current element itself was erased: the library leaves the loop before this happens
            if nxt is None:
                return
            cur = nxt
            yield nxt


def duplicates_evaluated(db, rule):
    """RSForm::DeleteDuplicatesInternal interpreted on small schemas (a constituent = alias + the sequence of names its texts mention; two
    are duplicates when the mentions are equal and not empty). Supplied: the list, record access, EraseInternal removes from the list, TranslateAll renames
    mentions everywhere. Required of the returned translation: every erased constituent is mapped, and every value is a constituent that
    still exists (an earlier survivor that is erased later must have its entries redirected)."""
    from engine.evalmini import Interp, Obj, OutOfFragment, NOT_HANDLED
    f = db.fn(S + 'RSForm::DeleteDuplicatesInternal', required=False)
    if f is None:
        rule.broken('anchor vanished: RSForm::DeleteDuplicatesInternal')
        return

    def scenario(csts):
        recs = {i + 1: Obj(__cls__='cst', uid=i + 1, alias=a.encode(), mentions=[m.encode() for m in ms]) for i, (a, ms) in enumerate(csts)}
        order = _LiveList(sorted(recs))
        tr = {}
        original_mentions = {u: [bytes(x) for x in r['mentions']] for u, r in recs.items()}

        def on_call(it, fn, n, env):
            cs = n.get('cs') or ''
            last = cs.split('::')[-1]
            Sx = fn.stmts
            ev = lambda sid: it.eval(fn, Sx[sid], env)
            a = lambda: [ev(x) for x in n.get('args', [])]
            if last == 'List':
                return order
            if last in ('GetRS', 'GetText'):
                return recs[a()[0]]
            if last == 'IsEmpty' and cs.startswith(S):
                return not ev(n['obj'])['mentions']
            if n['k'] == 'CXXOperatorCallExpr' and n.get('op') in ('!=', '==') and cs.startswith((S + 'RSConcept::', S + 'TextConcept::')):
                x, y = a()
                return (x['mentions'] == y['mentions']) == (n['op'] == '==')
            if last == 'EraseInternal':
                uid = a()[0]
                if uid in order:
                    list.remove(order, uid)
                    return True
                return False
            if last == 'CreateTranslator':
                return Obj(__kind__='translator', m=dict(a()[0]))
            if last == 'TranslateAll':
                m = a()[0]['m']
                for uid in list(order):
                    recs[uid]['mentions'] = [m.get(bytes(x), x) for x in recs[uid]['mentions']]
                return None
            if 'EntityTranslation' in cs or (n.get('cls') or '').endswith('EntityTranslation'):
                if n['k'] in ('CXXConstructExpr', 'CXXTemporaryObjectExpr'):
                    args_ = a()
                    if args_ and isinstance(args_[0], Obj) and args_[0].get('__kind__') == 'etr':
                        return args_[0]
                    return Obj(__kind__='etr', m={})
                o = ev(n['obj']) if 'obj' in n else None
                if last == 'Insert':
                    k_, v_ = a()
                    o['m'][k_] = v_
                    return None
                if last == 'SuperposeWith':
                    step = a()[0]['m']
                    for k_ in list(o['m']):
                        if o['m'][k_] in step:
                            o['m'][k_] = step[o['m'][k_]]
                    for k_, v_ in step.items():
                        o['m'].setdefault(k_, v_)
                    return None
            return NOT_HANDLED
        res = Interp(db, on_call=on_call, max_steps=600000).call(f, [], Obj(__cls__=S + 'RSForm', core=Obj()))
        m = res['m'] if isinstance(res, Obj) and 'm' in res else None
        if m is None:
            raise OutOfFragment('DeleteDuplicatesInternal returned %r' % type(res))
        erased = [u for u in recs if u not in order]
        name = lambda u: bytes(recs[u]['alias']).decode()
        for u in erased:
            if u not in m:
                return 'the erased duplicate %s is not in the returned translation' % name(u)
        for k_, v_ in m.items():
            if v_ not in order:
                return 'eliminating duplicates of %s returns the translation %s: %s is mapped to %s, which was itself erased later (the survivors are %s)' % (
                    [(a_, ms) for a_, ms in csts], {name(x): name(y) for x, y in m.items()}, name(k_), name(v_), [name(x) for x in order])
        # every mention of an erased duplicate now names its survivor, and nothing else was renamed
        image = {bytes(recs[u]['alias']): bytes(recs[m[u]]['alias']) for u in erased}
        for uid in order:
            want = [image.get(x, x) for x in original_mentions[uid]]
            for _ in range(len(recs)):
                want = [image.get(x, x) for x in want]
            got = [bytes(x) for x in recs[uid]['mentions']]
            if got != want:
                return 'eliminating duplicates of %s: %s mentioned %s and now mentions %s; with %s it should mention %s' % (
                    [(a_, ms) for a_, ms in csts], name(uid), [x.decode() for x in original_mentions[uid]], [x.decode() for x in got],
                    ', '.join('%s merged into %s' % (k_.decode(), v_.decode()) for k_, v_ in image.items()), [x.decode() for x in want])
        return None
    cases = [
        [('X1', []), ('D1', ['X1']), ('D2', ['X1'])],
        [('X1', ['base']), ('D1', ['X1']), ('X2', ['base']), ('D2', ['X2']), ('D3', ['X2'])],          # D3=D2 first, then X2->X1 makes D2=D1
        [('D1', ['X1']), ('D2', ['X2']), ('D3', ['X2']), ('X1', ['b']), ('X2', ['b'])],
        [('A1', ['q']), ('A2', ['q']), ('A3', ['q'])],
        [('X1', ['p']), ('X2', ['p']), ('D1', ['X1', 'X2']), ('D2', ['X2', 'X1']), ('D3', ['X1', 'X1'])],
    ]
    bad = None
    try:
        for c in cases:
            bad = bad or scenario(c)
    except OutOfFragment as e:
        rule.broken('DeleteDuplicatesInternal outside the evaluable fragment: %s' % e)
        return
    if bad:
        rule.violation('DeleteDuplicates:evaluated', '%s:%d' % (f.file, f.line), bad)
    else:
        rule.ok('DeleteDuplicates:evaluated', '%d schemas with chains of duplicates: every erased constituent is mapped to a surviving one' % len(cases), '%s:%d' % (f.file, f.line))


# ---------------------------------------------------------------------------------------------- r9: equation tables and dependency loops
def equation_loops_evaluated(db, rule):
    """RSEquationProcessor::ResolveCstAndPrecheck interpreted on small dependency graphs (the real CGraph code underneath) and tables of one
    or two pairs of like constituents. After an equation key -> value the key is removed and every mention of it denotes the value, so the
    table must be refused exactly when identifying each key with its value closes a dependency loop (or a trivial condition fails:
    key = value, a value that is also a key)."""
    import itertools
    from engine.evalmini import Interp, Obj, OutOfFragment, NOT_HANDLED
    G = 'ccl::graph::CGraph'
    f = db.fn(EP + '::ResolveCstAndPrecheck', required=False)
    vctor = [g for g in db.by_name.get(G + '::Vertex::Vertex', []) if len(g.rec.get('params', [])) == 1 and 'Vertex' not in g.rec['params'][0]['type']]
    if f is None or len(vctor) != 1 or db.fn(G + '::AddConnection', required=False) is None:
        rule.broken('anchor vanished: RSEquationProcessor::ResolveCstAndPrecheck / CGraph (is the CGraph unit loaded?)')
        return

    def merged_has_loop(nodes, edges, table):
        img = lambda x: table.get(x, x)
        es = {(img(a), b) for a, b in edges if b not in table}        # the definition of a removed constituent is dropped
        alive = [n for n in nodes if n not in table]
        reach = {n: set() for n in alive}
        for a, b in es:
            if a in reach and b in reach:
                reach[a].add(b)
        changed = True
        while changed:
            changed = False
            for n in alive:
                new = set(reach[n])
                for m in list(reach[n]):
                    new |= reach[m]
                if new != reach[n]:
                    reach[n] = new
                    changed = True
        return any(v in reach.get(v, ()) for v in set(table.values()))

    def run(nodes, edges, table, term_edges=(), modes=None, new_refs=None):
        modes = modes or {}
        new_refs = new_refs or {}

        def on_call(it, fn, n, env):
            cs = n.get('cs') or ''
            last = cs.split('::')[-1]
            Sx = fn.stmts
            ev = lambda sid: it.eval(fn, Sx[sid], env)
            a = lambda: [ev(x) for x in n.get('args', [])]
            if n['k'] == 'CXXMemberCallExpr' and cs == 'std::vector::emplace_back' and 'CGraph::Vertex' in (n.get('callee') or '') and len(n.get('args', [])) == 1 and 'obj' in n:
                o = ev(n['obj'])
                v = Obj(__cls__=G + '::Vertex')
                it.construct(vctor[0], v, [ev(n['args'][0])])
                o.append(v)
                return v
            if n['k'] in ('CXXConstructExpr', 'CXXTemporaryObjectExpr') and (n.get('cls') or '') == G:
                return it.default_construct(G)
            if cs.startswith(G + '::'):
                return NOT_HANDLED                              # the graph itself is interpreted
            if last in ('RSLang', 'Texts', 'Core') and cs.startswith(S):
                return Obj(__cls__='facade', which=last)
            if last == 'Graph':
                return graph
            if last == 'TermGraph':
                return term_graph
            if last == 'DefGraph':
                return empty_graph
            if last == 'PropsFor' and n.get('args'):
                k_ = ev(n['args'][-1])
                return Obj(__cls__='ccl::ops::Equation', mode=modes.get(k_, 1), arg=Obj(__kind__='newterm', refs=list(new_refs.get(k_, []))))
            if n['k'] in ('CXXConstructExpr', 'CXXTemporaryObjectExpr', 'CXXFunctionalCastExpr') and (n.get('cls') or n.get('t') or '').endswith('ManagedText') and n.get('args'):
                return ev(n['args'][0])
            if last == 'Referals':
                o = ev(n['obj']) if 'obj' in n else None
                o = o[1] if isinstance(o, tuple) and len(o) == 2 and o[0] == 'ptr' else o
                return set(('D%d' % u).encode() for u in (o['refs'] if isinstance(o, Obj) and 'refs' in o else []))
            if last == 'FindAlias' and n.get('args'):
                nm = bytes(ev(n['args'][-1])).decode()
                u = int(nm[1:]) if nm[1:].isdigit() else None
                return u if u in nodes else None
            if last == 'Contains' and cs.startswith(S):
                return a()[0] in nodes
            if last == 'GetRS':
                u = a()[0]
                return Obj(uid=u, alias=('D%d' % u).encode(), type=7)
            if last == 'GetParse':
                return Obj(exprType=Obj(__kind__='typ'))
            if cs.endswith('optional::has_value'):
                return True
            if last in ('IsRSObject',):
                return True
            if last in ('IsBaseSet', 'IsBaseNotion'):
                return False
            if 'EquationOptions' in cs or 'EntityTranslation' in cs or (n.get('cls') or '').endswith('EntityTranslation'):
                if n['k'] in ('CXXConstructExpr', 'CXXTemporaryObjectExpr'):
                    return Obj(__kind__='etr', m={})
                o = ev(n['obj']) if 'obj' in n else (ev(n['args'][0]) if n.get('args') else None)
                o = o[1] if isinstance(o, tuple) and len(o) == 2 and o[0] == 'ptr' else o
                m = o['m'] if isinstance(o, Obj) and 'm' in o else o
                if last == 'ContainsKey':
                    return a()[-1] in m
                if last == 'ContainsValue':
                    return a()[-1] in m.values()
                if last == 'Insert':
                    k_, v_ = a()[-2:]
                    m[k_] = v_
                    return None
                if last in ('begin', 'end') or n.get('op') == '()':
                    if n.get('op') == '()':
                        return m[a()[-1]]
            if n['k'] in ('CXXConstructExpr', 'CXXTemporaryObjectExpr') and (n.get('cls') or '') == G:
                return it.default_construct(G)
            return NOT_HANDLED
        it = Interp(db, on_call=on_call, max_steps=2000000)

        def on_range(it_, v):
            if isinstance(v, Obj) and v.get('__kind__') == 'etr':
                return [Obj(first=k_, second=v_) for k_, v_ in v['m'].items()]
            if isinstance(v, tuple) and len(v) == 2 and v[0] == 'ptr':
                return on_range(it_, v[1])
            if isinstance(v, Obj) and v.get('__cls__') == 'facade':
                return list(nodes)
            return v
        it.on_range = on_range
        graph = it.default_construct(G)
        empty_graph = it.default_construct(G)
        term_graph = it.default_construct(G)
        for u in nodes:
            it.call(db.fn(G + '::AddItem'), [u], graph)
            it.call(db.fn(G + '::AddItem'), [u], term_graph)
        for a_, b_ in edges:
            it.call(db.fn(G + '::AddConnection'), [a_, b_], graph)
        for a_, b_ in term_edges:
            it.call(db.fn(G + '::AddConnection'), [a_, b_], term_graph)
        this = Obj(__cls__=EP, schema=Obj(__cls__='facade', which='form'), equations=Obj(__kind__='etr', m=dict(table)), nameSubstitutes={}, translation=Obj(__kind__='etr', m={}))
        return bool(it.call(f, [], this))
    nodes = [1, 2, 3, 4]
    graphs = [
        [(1, 2), (3, 4)], [(1, 2), (2, 3)], [(2, 1), (4, 3)], [(1, 3), (2, 4)], [(3, 2), (4, 1)], [(1, 2), (2, 3), (3, 4)], [], [(1, 2), (3, 2)], [(2, 3), (4, 1)], [(2, 3), (1, 4), (4, 2)],
    ]
    bad, cases, accepted = None, 0, 0
    try:
        for edges in graphs:
            for r_ in (1, 2):
                for keys in itertools.permutations(nodes, r_):
                    for vals in itertools.product(nodes, repeat=r_):
                        table = dict(zip(keys, vals))
                        if any(k_ == v_ for k_, v_ in table.items()) or any(v_ in table for v_ in table.values()):
                            continue                     # trivial refusals are decided by r2
                        cases += 1
                        want = not merged_has_loop(nodes, edges, table)
                        got = run(nodes, edges, table)
                        accepted += 1 if got else 0
                        if got and not want and bad is None:       # a refusal of a loop-free table is conservative, not a defect
                            dep = ', '.join('D%d uses D%d' % (b_, a_) for a_, b_ in edges) or 'no dependencies'
                            tb = ', '.join('D%d -> D%d' % kv for kv in table.items())
                            bad = ('with %s the table {%s} is %s; identifying each removed constituent with its replacement %s a dependency loop' % (
                                dep, tb, 'accepted' if got else 'refused', 'closes' if not want else 'does not close'))
        # the same for term references: after key -> value the survivor carries its own term (keepHier), the term of the removed constituent
        # (keepDel) or a new one (createNew); a term whose references lead back to itself can no longer be resolved
        tbad, tcases, taccepted = None, 0, 0
        MODE = {1: 'keep the term of the replacement', 2: 'keep the term of the removed one', 3: 'new term'}
        term_graphs = [[(2, 1), (4, 3)], [(1, 2), (3, 4)], [(1, 2)], [(2, 3), (4, 1)], [(3, 1)], []]
        for tedges in term_graphs:
            for r_ in (1, 2):
                for keys in itertools.permutations(nodes, r_):
                    for vals in itertools.product(nodes, repeat=r_):
                        table = dict(zip(keys, vals))
                        if any(k_ == v_ for k_, v_ in table.items()) or any(v_ in table for v_ in table.values()) or len(set(table.values())) != len(table):
                            continue
                        for ms in itertools.product((1, 2, 3), repeat=r_):
                            modes = dict(zip(keys, ms))
                            new_refs = {k_: [table[k_]] for k_ in keys if modes[k_] == 3}      # the new term mentions the survivor itself
                            if r_ == 2 and ms[0] > ms[1]:
                                continue
                            tcases += 1
                            after = []
                            for a_, b_ in tedges:
                                if b_ in table:
                                    continue                                # the term of a removed constituent goes, unless it is kept by its survivor
                                taker = [k_ for k_, v_ in table.items() if v_ == b_]
                                if taker and modes[taker[0]] in (2, 3):
                                    continue                                # the survivor's own term is replaced
                                after.append((a_, b_))
                            for k_, v_ in table.items():
                                if modes[k_] == 2:
                                    after += [(a_, v_) for a_, b_ in tedges if b_ == k_]
                                elif modes[k_] == 3:
                                    after += [(u, v_) for u in new_refs[k_]]
                            img = lambda x: table.get(x, x)
                            after = {(img(a_), b_) for a_, b_ in after}
                            want = not merged_has_loop([n_ for n_ in nodes], [(a_, b_) for a_, b_ in after], {}) and not any(a_ == b_ for a_, b_ in after)
                            got = run(nodes, [], table, term_edges=tedges, modes=modes, new_refs=new_refs)
                            taccepted += 1 if got else 0
                            if got and not want and tbad is None:
                                dep = ', '.join('the term of D%d refers to D%d' % (b_, a_) for a_, b_ in tedges) or 'no term references'
                                tb = ', '.join('D%d -> D%d (%s)' % (k_, v_, MODE[modes[k_]]) for k_, v_ in table.items())
                                tbad = 'with %s the table {%s} is accepted; afterwards the term references are %s: a term refers to itself and cannot be resolved' % (
                                    dep, tb, ', '.join('D%d in the term of D%d' % e_ for e_ in sorted(after)))
    except OutOfFragment as e:
        rule.broken('ResolveCstAndPrecheck outside the evaluable fragment: %s' % e)
        return
    if tbad:
        rule.violation('equation-table-term-loops', '%s:%d' % (f.file, f.line), tbad)
    elif not taccepted:
        rule.broken('the interpreted precheck accepts none of %d tables with term references: the harness no longer reflects the code' % tcases)
    else:
        rule.ok('equation-table-term-loops', '%d (term references, table, term modes) cases, %d accepted: no accepted table leaves a term that refers to itself' % (tcases, taccepted), '%s:%d' % (f.file, f.line))
    if bad:
        rule.violation('equation-table-loops', '%s:%d' % (f.file, f.line), bad)
    elif not accepted:
        rule.broken('the interpreted precheck accepts none of %d tables: the harness no longer reflects the code' % cases)
    else:
        rule.ok('equation-table-loops', '%d (dependency graph, table) cases, %d accepted: no accepted table closes a dependency loop' % (cases, accepted), '%s:%d' % (f.file, f.line))


def _admissibility_total(db, rule):
    from engine.cfgq import guard_atoms
    ev = [f for f in db.methods_of(EP) if f.name.endswith('::Evaluate') and f.has_cfg() and any('EquationOptions' in p['type'] for p in f.rec.get('params', []))]
    if len(ev) != 1:
        rule.broken('anchor vanished: RSEquationProcessor::Evaluate(const EquationOptions&)')
        return
    seen, stack = {}, [ev[0]]
    while stack:
        f = stack.pop()
        if f.rec.get('mn') in seen:
            continue
        seen[f.rec.get('mn')] = f
        for n in f.calls():
            for t in db.callees(f, n):
                if t.cls == EP and t.has_cfg():
                    stack.append(t)
    n_sites = 0
    for f in sorted(seen.values(), key=lambda x: x.name):
        for n in f.calls():
            if n.get('cs') != 'std::optional::value' or 'obj' not in n:
                continue
            n_sites += 1
            root = f.root_of(f.stmts[n['obj']])
            pos = f.position_of(n)
            atoms = guard_atoms(f, pos) if pos else []
            inst = '%s:%s' % (f.name.split('::')[-1], f.stmts[n['obj']].get('txt', '')[:50].replace(' ', ''))
            if root is not None and any(a[0] == 'has_value' and a[1] == root and a[2] for a in atoms):
                rule.ok(inst, 'dominated by has_value() on the same object', f.loc(n))
            else:
                rule.violation(inst, f.loc(n), '`%s` is on the path of the admissibility test without a has_value() test of the same object (an assert is compiled out): for a table that mixes a base set with a term the rewritten typification has no type and std::bad_optional_access leaves IsEquatable / Equate / the synthesis constructor' % (n.get('txt') or '')[:80])
    # the partial accessors of a typification: B() of something that is not a collection dereferences a null pointer (Structure.hpp)
    PARTIAL = {'B': 'IsCollection', 'T': 'IsTuple', 'E': 'IsElement', 'Component': 'IsTuple', 'TupleArity': 'IsTuple'}
    squeeze = lambda t: (t or '').replace(' ', '').replace('\n', '')
    for f in sorted(seen.values(), key=lambda x: x.name):
        for n in f.calls():
            cs = n.get('cs') or ''
            if not cs.startswith(('ccl::rslang::Typification::', 'ccl::rslang::Structured::')) or cs.split('::')[-1] not in PARTIAL or 'obj' not in n or n['k'] != 'CXXMemberCallExpr':
                continue
            need = PARTIAL[cs.split('::')[-1]]
            obj = squeeze(f.stmts[n['obj']].get('txt'))
            n_sites += 1
            pos = f.position_of(n)
            atoms = guard_atoms(f, pos) if pos else []
            inst = '%s:%s.%s()' % (f.name.split('::')[-1], obj[:50], cs.split('::')[-1])
            guarded = any(a[2] and a[3]['k'] == 'CXXMemberCallExpr' and (a[3].get('cs') or '') in ('ccl::rslang::Typification::' + need, 'ccl::rslang::Structured::' + need) and 'obj' in a[3]
                          and squeeze(f.stmts[a[3]['obj']].get('txt')) == obj for a in atoms)
            if guarded:
                rule.ok(inst, 'dominated by %s() on the same typification' % need, f.loc(n))
            else:
                rule.violation(inst, f.loc(n), '`%s` is on the path of the admissibility test without a dominating %s() test of the same typification: for a table whose replacement has an element or tuple '
                               'typification (X1 -> D3 := debool(X2)) %s() dereferences a null pointer and IsEquatable / Equate / the synthesis constructor crash instead of refusing' % ((n.get('txt') or '')[:80], need, cs.split('::')[-1]))
    if not n_sites:
        rule.ok('no-optional-access', 'the admissibility test reads no optional by value()', '%s:%d' % (ev[0].file, ev[0].line), nontrivial=False)


def _handover_recreated(db, rule):
    """For every method of the operation classes that returns std::move(<unique_ptr member>): each dereference of that member inside the method
    is reached only through an assignment of the member (in the method, or a callee of the same class that assigns it on every path) or through
    the non-null branch of a test of the member. After the first call the member is empty, and the flag that guards the method (isCorrect /
    isApplicable) still says yes - the sibling operation OpRelativation creates its result anew at the start of every Execute."""
    from engine.cfgq import enumerate_paths, paths_avoiding, normalise_cond
    OPS = 'ccl::ops::'

    def member_of(f, n):
        n = f.strip(n)
        if n is not None and n['k'] == 'MemberExpr' and n.get('mk') == 'field':
            kids = f.children(n)
            if kids and f.strip(kids[0]) is not None and f.strip(kids[0])['k'] == 'CXXThisExpr':
                return n.get('member')
        return None

    def assigns(f, m):
        """positions of direct assignments / resets of this->m in f"""
        out = []
        for c in f.calls():
            if c['k'] == 'CXXOperatorCallExpr' and c.get('op') == '=' and c.get('args') and member_of(f, f.stmts[c['args'][0]]) == m:
                out.append(f.position_of(c))
        return [p for p in out if p is not None]
    memo = {}

    def must_assign(g, m, depth=0):
        key = (g.name, m)
        if key in memo:
            return memo[key]
        memo[key] = False
        if not g.has_cfg() or depth > 4:
            return False
        sites = assigns(g, m) + callee_sites(g, m, depth + 1)
        exits = [(p, w) for p, w in _all_exits(g)]
        r = bool(sites) and not paths_avoiding(g, [g.graph()[1]], sites, exits)
        memo[key] = r
        return r

    def callee_sites(f, m, depth=0):
        out = []
        for c in f.calls():
            if c['k'] != 'CXXMemberCallExpr':
                continue
            for t in db.callees(f, c):
                if t.cls == f.cls and t is not f and must_assign(t, m, depth):
                    p = f.position_of(c)
                    if p is not None:
                        out.append(p)
        return out

    def _all_exits(g):
        from engine.cfgq import success_exits
        return success_exits(g, failure_literals=())
    n_methods = 0
    for f in sorted(db.functions, key=lambda x: x.name):
        if not f.name.startswith(OPS) or f.body < 0 or not f.has_cfg() or not f.cls:
            continue
        moved = set()
        for r in f.walk():
            if r['k'] == 'ReturnStmt':
                for c in f.calls(r):
                    if (c.get('cs') or '') == 'std::move' and c.get('args'):
                        m = member_of(f, f.stmts[c['args'][0]])
                        if m and 'unique_ptr' in (f.strip(f.stmts[c['args'][0]]).get('t') or ''):
                            moved.add(m)
        for m in sorted(moved):
            n_methods += 1
            inst = '%s::%s:%s' % (f.cls.split('::')[-1], f.name.split('::')[-1], m)
            created = assigns(f, m) + callee_sites(f, m)
            bad = None
            for c in f.calls():
                if c['k'] == 'CXXOperatorCallExpr' and c.get('op') in ('->', '*') and (c.get('cs') or '').startswith('std::unique_ptr::') and c.get('args') and member_of(f, f.stmts[c['args'][0]]) == m:
                    pos = f.position_of(c)
                    if pos is None:
                        continue
                    for path in enumerate_paths(f, f.graph()[1], [pos], avoid=created, limit=200):
                        tested = False
                        for cond, pol in path:
                            work = [(cond, pol)]
                            while work:
                                c2, p2 = work.pop()
                                c2, p2 = normalise_cond(f, c2, p2)
                                if c2 is None:
                                    continue
                                if c2['k'] == 'BinaryOperator' and ((c2.get('op') == '||' and not p2) or (c2.get('op') == '&&' and p2)):
                                    work.extend((x, p2) for x in f.children(c2))
                                    continue
                                kids = [f.strip(x) for x in (f.children(c2) if c2['k'] == 'BinaryOperator' else [f.stmts[a] for a in c2.get('args', [])])] if c2.get('op') in ('==', '!=') else []
                                if len(kids) == 2 and any(x is not None and x['k'] in ('CXXNullPtrLiteralExpr', 'GNUNullExpr') for x in kids) and any(member_of(f, x) == m for x in kids if x is not None):
                                    if ((c2['op'] == '!=') == p2):
                                        tested = True
                                elif member_of(f, c2) == m and p2:
                                    tested = True
                                elif c2['k'] == 'CXXMemberCallExpr' and (c2.get('cs') or '').split('::')[-1] == 'operator bool' and 'obj' in c2 and member_of(f, f.stmts[c2['obj']]) == m and p2:
                                    tested = True
                        if not tested:
                            bad = bad or (c, 'a path from the entry reaches `%s` without creating `%s` anew and without testing it' % ((c.get('txt') or '')[:60], m))
                            break
                if bad:
                    break
            if bad:
                rule.violation(inst, f.loc(bad[0]), '%s hands `%s` over with return std::move(...) and dereferences it on its way there: %s. After the first call the member is empty while the guard of the method still '
                               'says yes, so a second call crashes (the sibling OpRelativation::Execute creates its result at the start of every call)' % (f.name.split('::')[-1], m, bad[1]))
            else:
                rule.ok(inst, 'every dereference of the handed-over member follows its creation or a non-null test', '%s:%d' % (f.file, f.line))
    if not n_methods:
        rule.broken('no operation hands a member over with return std::move(...): the rule has lost its sites')


def _clean_state(db, rule):
    from engine.cfgq import paths_avoiding, success_exits
    ex = [f for f in db.methods_of(EP) if f.name.endswith('::Execute') and f.has_cfg()]
    if len(ex) != 1:
        rule.broken('anchor vanished: RSEquationProcessor::Execute')
        return
    ex = ex[0]
    rec = db.records.get(EP) or {}
    fields = [fl['name'] for fl in rec.get('fields', []) if not fl['type'].endswith('&') and 'RSForm' not in fl['type']]
    ms = {f.name + '#' + (f.rec.get('mn') or ''): f for f in db.methods_of(EP) if f.has_cfg()}
    WR = ('Insert', 'insert', 'emplace', 'emplace_back', 'push_back', 'SuperposeWith', 'SubstituteValues', 'insert_or_assign', 'try_emplace', 'operator[]')
    RS = ('clear', 'Clear', 'reset')

    def member(f, n):
        n = f.strip(n)
        if n is not None and n['k'] == 'MemberExpr' and n.get('mk') == 'field':
            kids = f.children(n)
            if kids and (f.strip(kids[0]) or {}).get('k') == 'CXXThisExpr':
                return n.get('member')
        return None

    def direct(f, fld, names):
        out = []
        for c in f.calls():
            last = (c.get('cs') or '').split('::')[-1]
            if c['k'] == 'CXXMemberCallExpr' and last in names and 'obj' in c and member(f, f.stmts[c['obj']]) == fld:
                out.append(f.position_of(c))
            if c['k'] == 'CXXOperatorCallExpr' and c.get('op') == '=' and c.get('args') and member(f, f.stmts[c['args'][0]]) == fld and 'clear' in names:
                out.append(f.position_of(c))
        for b in f.walk():
            if b['k'] == 'BinaryOperator' and b.get('op') == '=' and member(f, f.children(b)[0]) == fld and 'clear' in names:
                out.append(f.position_of(b))
        return [p for p in out if p is not None]
    memo_r, memo_w = {}, {}

    def must_reset(f, fld, depth=0):
        key = (f.name, f.rec.get('mn'), fld)
        if key in memo_r:
            return memo_r[key]
        memo_r[key] = False
        sites = direct(f, fld, RS)
        if depth < 4:
            for c in f.calls():
                for t in db.callees(f, c):
                    if t.cls == EP and t is not f and t.has_cfg() and must_reset(t, fld, depth + 1):
                        p = f.position_of(c)
                        if p is not None:
                            sites.append(p)
        r = bool(sites) and not paths_avoiding(f, [f.graph()[1]], sites, success_exits(f, failure_literals=()) + [(q, '') for q, _ in f.return_sites()])
        memo_r[key] = r
        return r

    def may_write(f, fld, depth=0):
        key = (f.name, f.rec.get('mn'), fld)
        if key in memo_w:
            return memo_w[key]
        memo_w[key] = False
        r = bool(direct(f, fld, WR))
        if not r and depth < 4:
            for c in f.calls():
                for t in db.callees(f, c):
                    if t.cls == EP and t is not f and t.has_cfg() and may_write(t, fld, depth + 1):
                        r = True
        memo_w[key] = r
        return r
    n_f = 0
    for fld in fields:
        if not may_write(ex, fld):
            continue
        n_f += 1
        resets = direct(ex, fld, RS)
        writes = direct(ex, fld, WR)
        for c in ex.calls():
            for t in db.callees(ex, c):
                if t.cls == EP and t is not ex and t.has_cfg():
                    p = ex.position_of(c)
                    if p is None:
                        continue
                    if must_reset(t, fld):
                        resets.append(p)
                    elif may_write(t, fld):
                        writes.append(p)
        if writes and paths_avoiding(ex, [ex.graph()[1]], resets, [(w, '') for w in writes]):
            rule.violation('Execute:' + fld, '%s:%d' % (ex.file, ex.line), 'the member `%s` is filled while a table is executed and no path of Execute resets it first: the processor is a member of the schema, so the second Equate on the same schema '
                           'starts from what the first left (the returned translation still maps the constituent removed by the first table)' % fld)
        else:
            rule.ok('Execute:' + fld, 'reset before the first write of an execution', '%s:%d' % (ex.file, ex.line))
    if not n_f:
        rule.broken('RSEquationProcessor::Execute writes no member: the rule has lost its sites')
