"""C15 — structured data behaves as a finite-set algebra with value semantics.

 r1 COW-GATE    the only state of StructuredData is the shared implementation pointer; the only members that hand out a non-const
                implementation are ModifyB/UniqueData; UniqueData tests use_count() on every call and clones before returning when shared;
                SDSet copies clone the implementation.
 r2 SET-ALGEBRA membership formula of every set operation, summarised from its loop-comprehension form over the atoms a = e∈this,
                b = e∈rhs, equals the set-theoretic definition (truth table); results are built only by AddElement on a fresh
                enumerated set (a cloned lazy operand ignores AddElement); IsSubsetOrEq is ∀e∈this: rhs.Contains(e).
 r3 ORDER       operator== / operator< are derived from Compare; element comparison is a trichotomy (all order types); tuple, set and
                variant comparison compare *this* against *rhs* in that orientation, tuples lexicographically from PR_START, sets by
                cardinality first then element-wise with both iterators advanced together.
 r4 BUILDERS    every receiver of ModifyB().AddElement in the library is a value initialised from an enumerated-set factory.
 r5 LAZY-ORDER  the lazy product iterator advances the last component first (reverse walk), which is the order tuple comparison and
                enumerated storage assume; lazy sets clone as lazy sets of the same operands.
Not decided: full agreement of power-set enumeration order with the set ordering; cache reference lifetime (F-C15-1, not replayed).
"""
import itertools

from engine.cfgq import call_sites, paths_avoiding, dominating_guards, normalise_cond
from engine.evalmini import Interp, Obj, OutOfFragment
from engine.shape import Keyer
from engine.facts import AnalysisBroken

UNITS = ['RSlang2']
O = 'ccl::object::'
SD = O + 'StructuredData'
SET = O + 'SDSet'

ORACLE = {
    'Union': lambda a, b: a or b,
    'Intersect': lambda a, b: a and b,
    'Diff': lambda a, b: a and not b,
    'SymDiff': lambda a, b: a != b,
}


def check(db, rep):
    rep.explanation = ('Copy-on-write gate, set-operation membership formulas (exhaustive truth tables over the two membership atoms), derivation and orientation of '
                       'the ordering, builder discipline and lazy iteration order, all from the typed AST/CFG of StructuredData.cpp / SDImplementation.cpp.')
    # ------------------------------------------------------------------ r1
    r1 = rep.rule('r1', 'COW-GATE: single shared pointer as state; UniqueData checks use_count() on every call and clones when shared; ModifyB goes through it; SDSet copies clone', 5)
    rec = db.record(SD)
    fields = [f['name'] for f in rec['fields']]
    if fields == ['data']:
        r1.ok('state', 'StructuredData holds only `data`', '%s:%d' % (rec['file'], rec['line']))
    else:
        r1.violation('state', '%s:%d' % (rec['file'], rec['line']), 'StructuredData has members %s: any state besides the shared pointer is copied with the handle and breaks value semantics of copies' % fields)
    ud = db.fn(SD + '::UniqueData')
    uc = call_sites(ud, lambda n: (n.get('cs') or '').endswith('::use_count'))
    rets = ud.return_sites()
    entry = ud.graph()[1]
    if not uc:
        r1.violation('UniqueData', '%s:%d' % (ud.file, ud.line), 'UniqueData does not test use_count()')
    else:
        bypass = paths_avoiding(ud, [entry], [p for p, _ in uc], [(p, '') for p, _ in rets])
        # the clone happens under use_count() > 1
        clones = [n for n in ud.walk() if n['k'] in ('CXXOperatorCallExpr', 'BinaryOperator') and n.get('op') == '=' and any((c.get('cs') or '') == 'std::make_shared' for c in ud.calls(n))]
        K = Keyer(ud)
        cond_ok = False
        for n in clones:
            for c, pol in dominating_guards(ud, ud.position_of(n)):
                c2, pol2 = normalise_cond(ud, c, pol)
                kk = K.key(c2)
                if pol2 and isinstance(kk, tuple) and kk[0] == 'Bop' and kk[1] == '>' and 'use_count' in repr(kk[3]) and kk[4] == ('int', 1):
                    cond_ok = True
                if pol2 and isinstance(kk, tuple) and kk[0] == 'Bop' and kk[1] in ('!=', '>=') and 'use_count' in repr(kk[3]) and kk[4] in (('int', 1), ('int', 2)):
                    cond_ok = True
        lhs_ok = all(ud.strip((ud.children(n) if n['k'] == 'BinaryOperator' else [ud.stmts[a] for a in n['args']])[0]).get('member') == 'data' for n in clones)
        if bypass:
            r1.violation('UniqueData', '%s:%d' % (ud.file, ud.line), 'a path returns the implementation without testing use_count(): a shared implementation can be modified in place')
        elif not clones or not cond_ok or not lhs_ok:
            r1.violation('UniqueData', '%s:%d' % (ud.file, ud.line), 'the implementation is not replaced by a private copy exactly when use_count() > 1')
        else:
            r1.ok('UniqueData', 'use_count() tested on every path; private copy made when shared', '%s:%d' % (ud.file, ud.line))
    mb = db.fn(SD + '::ModifyB')
    if any(n.get('cs') == SD + '::UniqueData' for n in mb.calls()) and not any(x['k'] == 'MemberExpr' and x.get('member') == 'data' for x in mb.walk()):
        r1.ok('ModifyB', 'goes through UniqueData()', '%s:%d' % (mb.file, mb.line))
    else:
        r1.violation('ModifyB', '%s:%d' % (mb.file, mb.line), 'ModifyB hands out the implementation without UniqueData()')
    # non-const hand-outs
    hand = []
    for m in rec['methods']:
        if not m.get('const') and not m.get('static') and ('Impl &' in m['ret'] or 'SDSet &' in m['ret']) and 'const' not in m['ret']:
            hand.append(m['name'])
    if sorted(hand) == ['ModifyB', 'UniqueData']:
        r1.ok('hand-out', 'only ModifyB and UniqueData return a mutable implementation')
    else:
        r1.violation('hand-out', '%s:%d' % (rec['file'], rec['line']), 'members returning a mutable implementation: %s (expected only ModifyB, UniqueData)' % sorted(hand))
    sa = db.fn(SET + '::operator=')
    if any((n.get('cs') or '').endswith('::Clone') for n in sa.calls()):
        r1.ok('SDSet::operator=', 'clones the implementation', '%s:%d' % (sa.file, sa.line))
    else:
        r1.violation('SDSet::operator=', '%s:%d' % (sa.file, sa.line), 'copying a set shares the implementation instead of cloning it')

    # ------------------------------------------------------------------ r2
    r2 = rep.rule('r2', 'SET-ALGEBRA: membership formula of Union/Intersect/Diff/SymDiff/IsSubsetOrEq/Reduce/Projection equals the definition; results built only by AddElement on a fresh enumerated set', 7)
    for name, oracle in ORACLE.items():
        f = db.fn(SET + '::' + name)
        try:
            clauses, problems = _comprehension(db, f)
        except OutOfFragment as e:
            r2.broken('%s outside the comprehension fragment: %s' % (name, e))
            continue
        if problems:
            r2.violation(name, '%s:%d' % (f.file, f.line), '; '.join(problems))
            continue
        bad = None
        for a, b in itertools.product((False, True), repeat=2):
            got = any((a if src == 'this' else b) and _cond(cond, a, b) for src, cond in clauses)
            if got != oracle(a, b) and bad is None:
                bad = (a, b, got)
        if bad:
            r2.violation(name, '%s:%d' % (f.file, f.line), 'for an element with (e∈this, e∈rhs) = (%s, %s) the result %s it; %s requires the opposite' % (bad[0], bad[1], 'contains' if bad[2] else 'omits', name))
        else:
            r2.ok(name, 'membership formula from %d clause(s) equals the definition on all 4 cases' % len(clauses), '%s:%d' % (f.file, f.line))
    sub = db.fn(SET + '::IsSubsetOrEq')
    lam = db.lambdas_in(sub)
    ok = any(n.get('cs') == 'std::all_of' for n in sub.calls()) and len(lam) == 1
    if ok:
        lf = lam[0]
        rhs_name = sub.rec['params'][0]['name']
        el_name = lf.rec['params'][0]['name'] if lf.rec['params'] else None
        conts = [x for x in lf.walk() if x['k'] in ('CXXDependentScopeMemberExpr', 'MemberExpr') and x.get('member') == 'Contains']
        ok = len(conts) == 1
        if ok:
            base = lf.strip(lf.children(conts[0])[0]) if conts[0].get('c') else None
            call = lf.stmts.get(lf.parent.get(conts[0]['id']))
            args = [lf.strip(lf.stmts[a]) for a in (call.get('args', []) if call else [])]
            ok = base is not None and base.get('name') == rhs_name and len(args) == 1 and args[0].get('name') == el_name \
                and not any(x['k'] == 'UnaryOperator' and x.get('op') == '!' for x in lf.walk())
        rng = [n for n in sub.calls() if n.get('cs') in ('std::begin', 'std::end')]
        ok = ok and len(rng) == 2 and all(any(x['k'] == 'CXXThisExpr' for x in sub.walk(n)) for n in rng)
    if ok:
        r2.ok('IsSubsetOrEq', '∀e∈this: rhs.Contains(e)', '%s:%d' % (sub.file, sub.line))
    else:
        r2.violation('IsSubsetOrEq', '%s:%d' % (sub.file, sub.line), 'IsSubsetOrEq is not `every element of this is contained in rhs`')
    for name in ('Reduce', 'Projection'):
        f = db.fn(SET + '::' + name)
        adds = [n for n in f.calls() if n.get('cs') == SET + '::AddElement']
        outer = [n for n in f.walk() if n['k'] == 'CXXForRangeStmt' and any(x['k'] == 'CXXThisExpr' for x in f.walk(f.stmts[n['range']]))]
        fresh = any(c.get('cs') == O + 'Factory::EmptySet' for c in f.calls())
        guarded = any(x['k'] == 'IfStmt' for x in f.walk())
        if adds and outer and fresh and not guarded:
            r2.ok(name, 'every element of this contributes unconditionally to a fresh enumerated set', '%s:%d' % (f.file, f.line))
        else:
            r2.violation(name, '%s:%d' % (f.file, f.line), '%s does not map every element of this into a fresh enumerated result' % name)

    # ------------------------------------------------------------------ r3
    r3 = rep.rule('r3', 'ORDER: ==/< derived from Compare; element comparison is a trichotomy; tuple/set/variant comparison compare this against rhs, lexicographic, cardinality first', 6)
    _order(db, r3)

    # ------------------------------------------------------------------ r4
    r4 = rep.rule('r4', 'BUILDERS: every ModifyB().AddElement receiver is initialised from an enumerated-set factory', 10)
    n_sites = 0
    for f in db.functions:
        if f.rec.get('dependent'):
            continue
        for n in f.calls():
            if n.get('cs') != SET + '::AddElement' or 'obj' not in n:
                continue
            obj = f.strip(f.stmts[n['obj']])
            if obj is None or obj['k'] != 'CXXMemberCallExpr' or obj.get('cs') != SD + '::ModifyB':
                if obj is not None and obj['k'] == 'DeclRefExpr':
                    al = f.ref_aliases().get(obj.get('did'))
                    if al is not None:
                        obj = f.strip(al[1])
                if obj is None or obj.get('cs') != SD + '::ModifyB':
                    continue
            base = f.strip(f.stmts[obj['obj']]) if 'obj' in obj else None
            if base is None or base['k'] != 'DeclRefExpr':
                continue
            n_sites += 1
            init = None
            for s in f.rec['stmts']:
                if s['k'] == 'DeclStmt':
                    for d in s.get('decls', []):
                        if d.get('did') == base.get('did') and 'init' in d:
                            init = f.stmts[d['init']]
            inst = '%s:%s@%s' % (f.name.split('::')[-1], base.get('name'), n.get('line'))
            if init is None:
                if base.get('dk') == 'param':
                    continue
                r4.violation(inst, f.loc(n), 'elements are added to `%s`, which is not a local initialised from an enumerated-set factory' % base.get('name'))
                continue
            srcs = {c.get('cs') for c in f.calls(init)}
            cond = [x for x in f.walk(init) if x['k'] == 'ConditionalOperator']
            if (O + 'Factory::EmptySet') in srcs or (O + 'Factory::Set') in srcs or (O + 'Factory::Singleton') in srcs:
                if cond:
                    # conditional initialiser: the other branch copies an existing (enumerated) stored value
                    r4.ok(inst, 'starts from EmptySet() or a stored enumerated value', f.loc(n), nontrivial=False)
                else:
                    r4.ok(inst, 'starts from an enumerated-set factory', f.loc(n), nontrivial=False)
            else:
                r4.violation(inst, f.loc(n), 'elements are added to `%s` initialised from `%s`: if that value is a lazy power set or product, AddElement is silently ignored' % (base.get('name'), init.get('txt', '')[:50]))
    rep.note('addelement_sites', n_sites)

    # ------------------------------------------------------------------ r5
    r5 = rep.rule('r5', 'LAZY-ORDER: the product iterator advances the last component first; lazy sets clone as lazy sets of the same operands', 3)
    inc = db.fn(O + 'SDDecartian::Iterator::operator++')
    loops = [n for n in inc.walk() if n['k'] == 'ForStmt']
    rev = loops and any((c.get('cs') or '').endswith('::rbegin') for c in inc.calls(inc.stmts[loops[0]['init']])) if loops and 'init' in loops[0] else False
    idx_dec = loops and 'inc' in loops[0] and any(x['k'] == 'UnaryOperator' and x.get('op') == '--' for x in inc.walk(inc.stmts[loops[0]['inc']]))
    if rev and idx_dec:
        r5.ok('product-iterator', 'components are advanced from the last to the first (rbegin..rend, index descending)', '%s:%d' % (inc.file, inc.line))
    else:
        r5.violation('product-iterator', '%s:%d' % (inc.file, inc.line), 'the product iterator does not advance the last component first: tuples are enumerated in an order that differs from tuple comparison, so a lazy product and the equal enumerated set compare unequal')
    for cls, field in (('SDPowerSet', 'base'), ('SDDecartian', 'factors')):
        f = db.fn(O + cls + '::Clone')
        K = Keyer(f)
        mk = [n for n in f.calls() if n.get('cs') == 'std::make_unique']
        ok = len(mk) == 1 and cls in ' '.join(mk[0].get('targs', [])) and any(x['k'] == 'MemberExpr' and x.get('member') == field for x in f.walk(mk[0]))
        if ok:
            r5.ok(cls + '::Clone', 'clones as %s of the same %s' % (cls, field), '%s:%d' % (f.file, f.line))
        else:
            r5.violation(cls + '::Clone', '%s:%d' % (f.file, f.line), 'Clone does not produce a %s over the same %s' % (cls, field))


def _cond(cond, a, b):
    if cond is None:
        return True
    who, neg = cond
    v = a if who == 'this' else b
    return (not v) if neg else v


def _comprehension(db, f):
    """[(source, cond)] for loops `for (e : SRC) [if ([!]X.Contains(e))] result.ModifyB().AddElement(e)`; problems list"""
    problems = []
    body = f.stmts[f.body]
    stmts = [f.stmts[c] for c in body['c']]
    if not stmts or stmts[0]['k'] != 'DeclStmt':
        raise OutOfFragment('first statement is not the result declaration')
    d = stmts[0]['decls'][0]
    res = d['name']
    init = f.stmts[d['init']] if 'init' in d else None
    if init is None or not any(c.get('cs') == O + 'Factory::EmptySet' for c in f.calls(init)):
        problems.append('the result does not start from Factory::EmptySet() (`%s`): cloning an operand keeps its lazy representation, whose AddElement ignores new elements' % (init.get('txt', '')[:40] if init else ''))
    rhs = f.rec['params'][0]['name']
    clauses = []
    for st in stmts[1:]:
        if st['k'] == 'ReturnStmt':
            v = f.strip(f.stmts[st['value']])
            if not (v['k'] == 'DeclRefExpr' and v.get('name') == res):
                problems.append('does not return the built result')
            continue
        if st['k'] != 'CXXForRangeStmt':
            # any other write to the result
            problems.append('the result is modified by `%s` instead of element-wise AddElement on a fresh enumerated set' % st.get('txt', f.stmts[st['c'][0]].get('txt', '') if st.get('c') else '')[:60])
            continue
        rng = f.strip(f.stmts[st['range']])
        if any(x['k'] == 'CXXThisExpr' for x in f.walk(rng)):
            src = 'this'
        elif rng['k'] == 'DeclRefExpr' and rng.get('name') == rhs:
            src = 'rhs'
        else:
            raise OutOfFragment('loop range %s' % rng.get('txt'))
        lv = f.stmts[st['loopvar']]['decls'][0]['name']
        inner = f.stmts[st['body']]
        items = [f.stmts[c] for c in inner['c']] if inner['k'] == 'CompoundStmt' else [inner]
        if len(items) != 1:
            raise OutOfFragment('loop body with %d statements' % len(items))
        it = items[0]
        cond = None
        if it['k'] == 'IfStmt':
            if 'else' in it:
                raise OutOfFragment('else branch in comprehension')
            c = f.strip(f.stmts[it['cond']])
            neg = False
            while c['k'] == 'UnaryOperator' and c.get('op') == '!':
                neg = not neg
                c = f.strip(f.children(c)[0])
            if c['k'] != 'CXXMemberCallExpr' or c.get('cs') != SET + '::Contains':
                raise OutOfFragment('filter condition %s' % c.get('txt'))
            o = f.strip(f.stmts[c['obj']])
            who = 'this' if (o['k'] == 'CXXThisExpr' or any(x['k'] == 'CXXThisExpr' for x in f.walk(o))) else 'rhs' if o.get('name') == rhs else None
            arg = f.strip(f.stmts[c['args'][0]])
            if who is None or arg.get('name') != lv:
                raise OutOfFragment('filter %s' % c.get('txt'))
            cond = (who, neg)
            then = f.stmts[it['then']]
            tit = [f.stmts[c] for c in then['c']] if then['k'] == 'CompoundStmt' else [then]
            if len(tit) != 1:
                raise OutOfFragment('filtered body')
            it = tit[0]
        call = f.strip(it)
        if call['k'] != 'CXXMemberCallExpr' or call.get('cs') != SET + '::AddElement':
            raise OutOfFragment('loop action %s' % call.get('txt'))
        arg = f.strip(f.stmts[call['args'][0]])
        if arg.get('name') != lv:
            problems.append('the loop adds `%s`, not the iterated element' % arg.get('txt', ''))
        recv = f.strip(f.stmts[call['obj']])
        if not (recv['k'] == 'CXXMemberCallExpr' and recv.get('cs') == SD + '::ModifyB' and f.strip(f.stmts[recv['obj']]).get('name') == res):
            problems.append('elements are not added to the result')
        clauses.append((src, cond))
    return clauses, problems


def _order(db, r3):
    # operator== / operator<
    cmpv = {e['name']: e['val'] for e in db.enum('ccl::Comparison')['enumerators']}
    for name, want in (('operator==', 'EQUAL'), ('operator<', 'LESS')):
        f = db.fn(SD + '::' + name)
        cc = [n for n in f.calls() if n.get('cs') == SD + '::Compare']
        enums = [x.get('name') for x in f.walk() if x['k'] == 'DeclRefExpr' and x.get('dk') == 'enumerator']
        eqs = [x for x in f.walk() if x['k'] == 'BinaryOperator' and x.get('op') == '==']
        K = Keyer(f)
        ok = len(cc) == 1 and enums == [want] and eqs and 'obj' in cc[0] and f.strip(f.stmts[cc[0]['obj']])['k'] == 'CXXThisExpr' and K.key(f.stmts[cc[0]['args'][0]]) == ('var', f.rec['params'][0]['name'])
        if ok:
            r3.ok(name, 'this->Compare(rhs) == %s' % want, '%s:%d' % (f.file, f.line))
        else:
            r3.violation(name, '%s:%d' % (f.file, f.line), '%s is not derived as Compare(rhs) == Comparison::%s (found enumerators %s)' % (name, want, enums))
    # element trichotomy
    be = db.fn(O + 'SDBasicElement::Compare')
    try:
        bad = None
        for a, b in ((1, 1), (1, 2), (2, 1)):
            got = Interp(db).call(be, [Obj(value=b)], Obj(value=a))
            want = cmpv['EQUAL'] if a == b else cmpv['LESS'] if a < b else cmpv['GREATER']
            if got != want and bad is None:
                bad = (a, b, got, want)
        if bad:
            r3.violation('SDBasicElement::Compare', '%s:%d' % (be.file, be.line), 'Compare(%d, %d) = %d, expected %d' % bad)
        else:
            r3.ok('SDBasicElement::Compare', 'trichotomy on all three order types', '%s:%d' % (be.file, be.line))
    except OutOfFragment as e:
        r3.broken('SDBasicElement::Compare outside fragment: %s' % e)
    # orientation: receiver from this, argument from rhs
    for cls, inner_cls in ((O + 'SDTuple', SD), (SET, SD), (SD, None)):
        f = db.fn(cls + '::Compare')
        rhs = f.rec['params'][0]['name']
        inner = [n for n in f.calls() if (n.get('cs') or '').endswith('::Compare') and n['k'] == 'CXXMemberCallExpr' and n.get('cs') != f.name or (n.get('cs') == f.name and False)]
        inner = [n for n in f.calls() if n['k'] == 'CXXMemberCallExpr' and (n.get('cs') or '').split('::')[-1] == 'Compare']
        inst = cls.split('::')[-1] + '::Compare'
        if not inner:
            r3.violation(inst, '%s:%d' % (f.file, f.line), 'no component comparison found')
            continue
        bad = None
        for n in inner:
            recv_rhs = _mentions(f, f.stmts[n['obj']], rhs)
            arg_rhs = _mentions(f, f.stmts[n['args'][0]], rhs)
            if recv_rhs or not arg_rhs:
                bad = n
        if bad is not None:
            r3.violation(inst, f.loc(bad), '`%s` compares rhs against this (or this with itself): the resulting order is reversed with respect to the order in which enumerated sets store and lazy sets enumerate their elements' % bad.get('txt', '')[:70])
            continue
        extra_ok = True
        why = 'components of this compared against the matching components of rhs'
        if cls == SET:
            # cardinality first
            rets = [(p, r) for p, r in f.return_sites()]
            K = Keyer(f)
            first_if = [n for n in f.walk() if n['k'] == 'IfStmt']
            c0 = K.key(f.stmts[first_if[0]['cond']]) if first_if else None
            card = c0 is not None and c0[0] == 'Bop' and 'Cardinality' in repr(c0[3]) and 'Cardinality' in repr(c0[4])
            gt = card and ((c0[1] == '>' and _ret_enum(f, first_if[0]['then']) == 'GREATER') or (c0[1] == '<' and _ret_enum(f, first_if[0]['then']) == 'LESS'))
            both = [n for n in f.walk() if n['k'] == 'ForStmt' and 'inc' in n and len([x for x in f.walk(f.stmts[n['inc']]) if x['k'] in ('CXXOperatorCallExpr', 'UnaryOperator') and x.get('op') == '++']) == 2]
            extra_ok = bool(gt and both)
            why = 'cardinality first, then element-wise with both iterators advanced together'
            if not extra_ok:
                r3.violation(inst, '%s:%d' % (f.file, f.line), 'set comparison must order by cardinality first (larger = GREATER) and then walk both sets in step')
                continue
        if cls == O + 'SDTuple':
            lp = [n for n in f.walk() if n['k'] == 'ForStmt']
            K = Keyer(f)
            ok = len(lp) == 1 and 'PR_START' in repr(K.key(f.stmts[f.stmts[lp[0]['init']]['decls'][0]['init']])) and 'Arity' in repr(K.key(f.stmts[lp[0]['cond']]))
            if not ok:
                r3.violation(inst, '%s:%d' % (f.file, f.line), 'tuple comparison is not lexicographic over PR_START..Arity')
                continue
            why = 'lexicographic from PR_START, first unequal component decides'
        r3.ok(inst, why, '%s:%d' % (f.file, f.line))


def _ret_enum(f, sid):
    for x in f.walk(f.stmts[sid]):
        if x['k'] == 'DeclRefExpr' and x.get('dk') == 'enumerator':
            return x.get('name')
    return None


def _mentions(f, n, name):
    """does expression n depend on variable `name` (directly or through a local initialised from it)?"""
    seen = set()
    stack = [n]
    while stack:
        x = stack.pop()
        for y in f.walk(x):
            if y['k'] == 'DeclRefExpr':
                if y.get('name') == name:
                    return True
                did = y.get('did')
                if y.get('dk') == 'local' and did not in seen:
                    seen.add(did)
                    for s in f.rec['stmts']:
                        if s['k'] == 'DeclStmt':
                            for d in s.get('decls', []):
                                if d.get('did') == did and 'init' in d:
                                    stack.append(f.stmts[d['init']])
    return False
