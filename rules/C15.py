"""C15 — structured data behaves as a finite-set algebra with value semantics.

 r1 COW-GATE    the only state of StructuredData is the shared implementation pointer; the only members that hand out a non-const
                implementation are ModifyB/UniqueData; UniqueData tests use_count() on every call and clones before returning when shared;
                SDSet copies clone the implementation.
 r2 SET-ALGEBRA membership formula of every set operation, summarised from its loop-comprehension form over the atoms a = e∈this,
                b = e∈rhs, equals the set-theoretic definition (truth table); results are built only by AddElement on a fresh
                enumerated set (a cloned lazy operand ignores AddElement); IsSubsetOrEq is ∀e∈this: rhs.Contains(e).
 r3 ORDER       operator== / operator< are derived from Compare; element comparison is a trichotomy (all order types); tuple, set and
                variant comparison compare *this* against *rhs* in that orientation, tuples lexicographically from PR_START, sets by
                cardinality first then element-wise with both iterators advanced together.
 r4 BUILDERS    every receiver of ModifyB().AddElement in the library is a value initialised from an enumerated-set factory.
 r5 LAZY-ORDER  the lazy product iterator advances the last component first (reverse walk), which is the order tuple comparison and
                enumerated storage assume; lazy sets clone as lazy sets of the same operands.
Not decided: full agreement of power-set enumeration order with the set ordering; cache reference lifetime (F-C15-1, not replayed).
"""
import itertools

from engine.cfgq import call_sites, paths_avoiding, dominating_guards, normalise_cond
from engine.evalmini import Interp, Obj, OutOfFragment
from engine.shape import Keyer
from engine.facts import AnalysisBroken

UNITS = ['RSlang2']
O = 'ccl::object::'
SD = O + 'StructuredData'
SET = O + 'SDSet'

ORACLE = {
    'Union': lambda a, b: a or b,
    'Intersect': lambda a, b: a and b,
    'Diff': lambda a, b: a and not b,
    'SymDiff': lambda a, b: a != b,
}


def check(db, rep):
    rep.explanation = ('Copy-on-write gate, set-operation membership formulas (exhaustive truth tables over the two membership atoms), derivation and orientation of '
                       'the ordering, builder discipline and lazy iteration order, all from the typed AST/CFG of StructuredData.cpp / SDImplementation.cpp.')
    # ------------------------------------------------------------------ r1
    r1 = rep.rule('r1', 'COW-GATE: single shared pointer as state; UniqueData checks use_count() on every call and clones when shared; ModifyB goes through it; SDSet copies clone', 5)
    rec = db.record(SD)
    fields = [f['name'] for f in rec['fields']]
    if fields == ['data']:
        r1.ok('state', 'StructuredData holds only `data`', '%s:%d' % (rec['file'], rec['line']))
    else:
        _defer(r1, 'state', '%s:%d' % (rec['file'], rec['line']), 'StructuredData has members %s besides the shared pointer; whether copies stay independent is evaluated by r6/copies' % fields)
    ud = db.fn(SD + '::UniqueData')
    uc = call_sites(ud, lambda n: (n.get('cs') or '').endswith('::use_count'))
    rets = ud.return_sites()
    entry = ud.graph()[1]
    if not uc:
        r1.violation('UniqueData', '%s:%d' % (ud.file, ud.line), 'UniqueData does not test use_count()')
    else:
        bypass = paths_avoiding(ud, [entry], [p for p, _ in uc], [(p, '') for p, _ in rets])
        # the clone happens under use_count() > 1
        clones = [n for n in ud.walk() if n['k'] in ('CXXOperatorCallExpr', 'BinaryOperator') and n.get('op') == '=' and any((c.get('cs') or '') == 'std::make_shared' for c in ud.calls(n))]
        K = Keyer(ud)
        cond_ok = False
        for n in clones:
            for c, pol in dominating_guards(ud, ud.position_of(n)):
                c2, pol2 = normalise_cond(ud, c, pol)
                kk = K.key(c2)
                if pol2 and isinstance(kk, tuple) and kk[0] == 'Bop' and kk[1] == '>' and 'use_count' in repr(kk[3]) and kk[4] == ('int', 1):
                    cond_ok = True
                if pol2 and isinstance(kk, tuple) and kk[0] == 'Bop' and kk[1] in ('!=', '>=') and 'use_count' in repr(kk[3]) and kk[4] in (('int', 1), ('int', 2)):
                    cond_ok = True
        lhs_ok = all(ud.strip((ud.children(n) if n['k'] == 'BinaryOperator' else [ud.stmts[a] for a in n['args']])[0]).get('member') == 'data' for n in clones)
        if bypass:
            r1.violation('UniqueData', '%s:%d' % (ud.file, ud.line), 'a path returns the implementation without testing use_count(): a shared implementation can be modified in place')
        elif not clones or not cond_ok or not lhs_ok:
            r1.violation('UniqueData', '%s:%d' % (ud.file, ud.line), 'the implementation is not replaced by a private copy exactly when use_count() > 1')
        else:
            r1.ok('UniqueData', 'use_count() tested on every path; private copy made when shared', '%s:%d' % (ud.file, ud.line))
    mb = db.fn(SD + '::ModifyB')
    if any(n.get('cs') == SD + '::UniqueData' for n in mb.calls()) and not any(x['k'] == 'MemberExpr' and x.get('member') == 'data' for x in mb.walk()):
        r1.ok('ModifyB', 'goes through UniqueData()', '%s:%d' % (mb.file, mb.line))
    else:
        r1.violation('ModifyB', '%s:%d' % (mb.file, mb.line), 'ModifyB hands out the implementation without UniqueData()')
    # non-const hand-outs
    hand = []
    for m in rec['methods']:
        if not m.get('const') and not m.get('static') and ('Impl &' in m['ret'] or 'SDSet &' in m['ret']) and 'const' not in m['ret']:
            hand.append(m['name'])
    if sorted(hand) == ['ModifyB', 'UniqueData']:
        r1.ok('hand-out', 'only ModifyB and UniqueData return a mutable implementation')
    else:
        r1.violation('hand-out', '%s:%d' % (rec['file'], rec['line']), 'members returning a mutable implementation: %s (expected only ModifyB, UniqueData)' % sorted(hand))
    sa = db.fn(SET + '::operator=')
    if any((n.get('cs') or '').endswith('::Clone') for n in sa.calls()):
        r1.ok('SDSet::operator=', 'clones the implementation', '%s:%d' % (sa.file, sa.line))
    else:
        r1.violation('SDSet::operator=', '%s:%d' % (sa.file, sa.line), 'copying a set shares the implementation instead of cloning it')

    # ------------------------------------------------------------------ r2
    r2 = rep.rule('r2', 'SET-ALGEBRA: membership formula of Union/Intersect/Diff/SymDiff/IsSubsetOrEq/Reduce/Projection equals the definition; results built only by AddElement on a fresh enumerated set', 7)
    for name, oracle in ORACLE.items():
        f = db.fn(SET + '::' + name)
        try:
            clauses, problems = _comprehension(db, f)
        except OutOfFragment as e:
            _defer(r2, name, '%s:%d' % (f.file, f.line), str(e))
            continue
        if problems:
            _defer(r2, name, '%s:%d' % (f.file, f.line), '; '.join(problems))
            continue
        bad = None
        for a, b in itertools.product((False, True), repeat=2):
            got = any((a if src == 'this' else b) and _cond(cond, a, b) for src, cond in clauses)
            if got != oracle(a, b) and bad is None:
                bad = (a, b, got)
        if bad:
            r2.violation(name, '%s:%d' % (f.file, f.line), 'for an element with (e∈this, e∈rhs) = (%s, %s) the result %s it; %s requires the opposite' % (bad[0], bad[1], 'contains' if bad[2] else 'omits', name))
        else:
            r2.ok(name, 'membership formula from %d clause(s) equals the definition on all 4 cases' % len(clauses), '%s:%d' % (f.file, f.line))
    sub = db.fn(SET + '::IsSubsetOrEq')
    lam = db.lambdas_in(sub)
    ok = any(n.get('cs') == 'std::all_of' for n in sub.calls()) and len(lam) == 1
    if ok:
        lf = lam[0]
        rhs_name = sub.rec['params'][0]['name']
        el_name = lf.rec['params'][0]['name'] if lf.rec['params'] else None
        conts = [x for x in lf.walk() if x['k'] in ('CXXDependentScopeMemberExpr', 'MemberExpr') and x.get('member') == 'Contains']
        ok = len(conts) == 1
        if ok:
            base = lf.strip(lf.children(conts[0])[0]) if conts[0].get('c') else None
            call = lf.stmts.get(lf.parent.get(conts[0]['id']))
            args = [lf.strip(lf.stmts[a]) for a in (call.get('args', []) if call else [])]
            ok = base is not None and base.get('name') == rhs_name and len(args) == 1 and args[0].get('name') == el_name \
                and not any(x['k'] == 'UnaryOperator' and x.get('op') == '!' for x in lf.walk())
        rng = [n for n in sub.calls() if n.get('cs') in ('std::begin', 'std::end')]
        ok = ok and len(rng) == 2 and all(any(x['k'] == 'CXXThisExpr' for x in sub.walk(n)) for n in rng)
    if ok:
        r2.ok('IsSubsetOrEq', '∀e∈this: rhs.Contains(e)', '%s:%d' % (sub.file, sub.line))
    else:
        _defer(r2, 'IsSubsetOrEq', '%s:%d' % (sub.file, sub.line), 'not the all_of/Contains form')
    for name in ('Reduce', 'Projection'):
        f = db.fn(SET + '::' + name)
        adds = [n for n in f.calls() if n.get('cs') == SET + '::AddElement']
        outer = [n for n in f.walk() if n['k'] == 'CXXForRangeStmt' and any(x['k'] == 'CXXThisExpr' for x in f.walk(f.stmts[n['range']]))]
        fresh = any(c.get('cs') == O + 'Factory::EmptySet' for c in f.calls())
        guarded = any(x['k'] == 'IfStmt' for x in f.walk())
        if adds and outer and fresh and not guarded:
            r2.ok(name, 'every element of this contributes unconditionally to a fresh enumerated set', '%s:%d' % (f.file, f.line))
        else:
            _defer(r2, name, '%s:%d' % (f.file, f.line), 'not the unconditional map-into-fresh-set form')

    # ------------------------------------------------------------------ r3
    r3 = rep.rule('r3', 'ORDER: ==/< derived from Compare; element comparison is a trichotomy; tuple/set/variant comparison compare this against rhs, lexicographic, cardinality first', 6)
    _order(db, r3)

    # ------------------------------------------------------------------ r4
    r4 = rep.rule('r4', 'BUILDERS: every ModifyB().AddElement receiver is initialised from an enumerated-set factory', 10)
    n_sites = 0
    for f in db.functions:
        if f.rec.get('dependent'):
            continue
        for n in f.calls():
            if n.get('cs') != SET + '::AddElement' or 'obj' not in n:
                continue
            obj = f.strip(f.stmts[n['obj']])
            if obj is None or obj['k'] != 'CXXMemberCallExpr' or obj.get('cs') != SD + '::ModifyB':
                if obj is not None and obj['k'] == 'DeclRefExpr':
                    al = f.ref_aliases().get(obj.get('did'))
                    if al is not None:
                        obj = f.strip(al[1])
                if obj is None or obj.get('cs') != SD + '::ModifyB':
                    continue
            base = f.strip(f.stmts[obj['obj']]) if 'obj' in obj else None
            if base is None or base['k'] != 'DeclRefExpr':
                continue
            n_sites += 1
            init = None
            for s in f.rec['stmts']:
                if s['k'] == 'DeclStmt':
                    for d in s.get('decls', []):
                        if d.get('did') == base.get('did') and 'init' in d:
                            init = f.stmts[d['init']]
            inst = '%s:%s@%s' % (f.name.split('::')[-1], base.get('name'), n.get('line'))
            if init is None:
                if base.get('dk') == 'param':
                    continue
                r4.violation(inst, f.loc(n), 'elements are added to `%s`, which is not a local initialised from an enumerated-set factory' % base.get('name'))
                continue
            srcs = {c.get('cs') for c in f.calls(init)}
            cond = [x for x in f.walk(init) if x['k'] == 'ConditionalOperator']
            if (O + 'Factory::EmptySet') in srcs or (O + 'Factory::Set') in srcs or (O + 'Factory::Singleton') in srcs:
                if cond:
                    # conditional initialiser: the other branch copies an existing (enumerated) stored value
                    r4.ok(inst, 'starts from EmptySet() or a stored enumerated value', f.loc(n), nontrivial=False)
                else:
                    r4.ok(inst, 'starts from an enumerated-set factory', f.loc(n), nontrivial=False)
            else:
                r4.violation(inst, f.loc(n), 'elements are added to `%s` initialised from `%s`: if that value is a lazy power set or product, AddElement is silently ignored' % (base.get('name'), init.get('txt', '')[:50]))
    rep.note('addelement_sites', n_sites)

    # ------------------------------------------------------------------ r5
    r5 = rep.rule('r5', 'LAZY-ORDER: the product iterator advances the last component first; lazy sets clone as lazy sets of the same operands', 3)
    inc = db.fn(O + 'SDDecartian::Iterator::operator++')
    loops = [n for n in inc.walk() if n['k'] == 'ForStmt']
    rev = loops and any((c.get('cs') or '').endswith('::rbegin') for c in inc.calls(inc.stmts[loops[0]['init']])) if loops and 'init' in loops[0] else False
    idx_dec = loops and 'inc' in loops[0] and any(x['k'] == 'UnaryOperator' and x.get('op') == '--' for x in inc.walk(inc.stmts[loops[0]['inc']]))
    if rev and idx_dec:
        r5.ok('product-iterator', 'components are advanced from the last to the first (rbegin..rend, index descending)', '%s:%d' % (inc.file, inc.line))
    else:
        _defer(r5, 'product-iterator', '%s:%d' % (inc.file, inc.line), 'not the reverse walk over the component iterators')
    _denotation(db, rep)
    _reference_stability(db, rep)
    for cls, field in (('SDPowerSet', 'base'), ('SDDecartian', 'factors')):
        f = db.fn(O + cls + '::Clone')
        K = Keyer(f)
        mk = [n for n in f.calls() if n.get('cs') == 'std::make_unique']
        ok = len(mk) == 1 and cls in ' '.join(mk[0].get('targs', [])) and any(x['k'] == 'MemberExpr' and x.get('member') == field for x in f.walk(mk[0]))
        if ok:
            r5.ok(cls + '::Clone', 'clones as %s of the same %s' % (cls, field), '%s:%d' % (f.file, f.line))
        else:
            _defer(r5, cls + '::Clone', '%s:%d' % (f.file, f.line), 'not make_unique<%s>(%s)' % (cls, field))


def _defer(rule, inst, where, why):
    """the source is not written in the form this recogniser reads for all sizes: no verdict here, the behaviour is decided on bounded
    families by r6 (which interprets whatever form the code has)"""
    rule.ok(inst, 'form not recognised (%s): decided by r6 on bounded families' % why, where, nontrivial=False)


def _cond(cond, a, b):
    if cond is None:
        return True
    who, neg = cond
    v = a if who == 'this' else b
    return (not v) if neg else v


def _comprehension(db, f):
    """[(source, cond)] for loops `for (e : SRC) [if ([!]X.Contains(e))] result.ModifyB().AddElement(e)`; problems list"""
    problems = []
    body = f.stmts[f.body]
    stmts = [f.stmts[c] for c in body['c']]
    if not stmts or stmts[0]['k'] != 'DeclStmt':
        raise OutOfFragment('first statement is not the result declaration')
    d = stmts[0]['decls'][0]
    res = d['name']
    init = f.stmts[d['init']] if 'init' in d else None
    if init is None or not any(c.get('cs') == O + 'Factory::EmptySet' for c in f.calls(init)):
        problems.append('the result does not start from Factory::EmptySet() (`%s`): cloning an operand keeps its lazy representation, whose AddElement ignores new elements' % (init.get('txt', '')[:40] if init else ''))
    rhs = f.rec['params'][0]['name']
    clauses = []
    for st in stmts[1:]:
        if st['k'] == 'ReturnStmt':
            v = f.strip(f.stmts[st['value']])
            if not (v['k'] == 'DeclRefExpr' and v.get('name') == res):
                problems.append('does not return the built result')
            continue
        if st['k'] != 'CXXForRangeStmt':
            # any other write to the result
            problems.append('the result is modified by `%s` instead of element-wise AddElement on a fresh enumerated set' % st.get('txt', f.stmts[st['c'][0]].get('txt', '') if st.get('c') else '')[:60])
            continue
        rng = f.strip(f.stmts[st['range']])
        if any(x['k'] == 'CXXThisExpr' for x in f.walk(rng)):
            src = 'this'
        elif rng['k'] == 'DeclRefExpr' and rng.get('name') == rhs:
            src = 'rhs'
        else:
            raise OutOfFragment('loop range %s' % rng.get('txt'))
        lv = f.stmts[st['loopvar']]['decls'][0]['name']
        inner = f.stmts[st['body']]
        items = [f.stmts[c] for c in inner['c']] if inner['k'] == 'CompoundStmt' else [inner]
        if len(items) != 1:
            raise OutOfFragment('loop body with %d statements' % len(items))
        it = items[0]
        cond = None
        if it['k'] == 'IfStmt':
            if 'else' in it:
                raise OutOfFragment('else branch in comprehension')
            c = f.strip(f.stmts[it['cond']])
            neg = False
            while c['k'] == 'UnaryOperator' and c.get('op') == '!':
                neg = not neg
                c = f.strip(f.children(c)[0])
            if c['k'] != 'CXXMemberCallExpr' or c.get('cs') != SET + '::Contains':
                raise OutOfFragment('filter condition %s' % c.get('txt'))
            o = f.strip(f.stmts[c['obj']])
            who = 'this' if (o['k'] == 'CXXThisExpr' or any(x['k'] == 'CXXThisExpr' for x in f.walk(o))) else 'rhs' if o.get('name') == rhs else None
            arg = f.strip(f.stmts[c['args'][0]])
            if who is None or arg.get('name') != lv:
                raise OutOfFragment('filter %s' % c.get('txt'))
            cond = (who, neg)
            then = f.stmts[it['then']]
            tit = [f.stmts[c] for c in then['c']] if then['k'] == 'CompoundStmt' else [then]
            if len(tit) != 1:
                raise OutOfFragment('filtered body')
            it = tit[0]
        call = f.strip(it)
        if call['k'] != 'CXXMemberCallExpr' or call.get('cs') != SET + '::AddElement':
            raise OutOfFragment('loop action %s' % call.get('txt'))
        arg = f.strip(f.stmts[call['args'][0]])
        if arg.get('name') != lv:
            problems.append('the loop adds `%s`, not the iterated element' % arg.get('txt', ''))
        recv = f.strip(f.stmts[call['obj']])
        if not (recv['k'] == 'CXXMemberCallExpr' and recv.get('cs') == SD + '::ModifyB' and f.strip(f.stmts[recv['obj']]).get('name') == res):
            problems.append('elements are not added to the result')
        clauses.append((src, cond))
    return clauses, problems


def _order(db, r3):
    # operator== / operator<
    cmpv = {e['name']: e['val'] for e in db.enum('ccl::Comparison')['enumerators']}
    for name, want in (('operator==', 'EQUAL'), ('operator<', 'LESS')):
        f = db.fn(SD + '::' + name)
        cc = [n for n in f.calls() if n.get('cs') == SD + '::Compare']
        enums = [x.get('name') for x in f.walk() if x['k'] == 'DeclRefExpr' and x.get('dk') == 'enumerator']
        eqs = [x for x in f.walk() if x['k'] == 'BinaryOperator' and x.get('op') == '==']
        K = Keyer(f)
        ok = len(cc) == 1 and enums == [want] and eqs and 'obj' in cc[0] and f.strip(f.stmts[cc[0]['obj']])['k'] == 'CXXThisExpr' and K.key(f.stmts[cc[0]['args'][0]]) == ('var', f.rec['params'][0]['name'])
        if ok:
            r3.ok(name, 'this->Compare(rhs) == %s' % want, '%s:%d' % (f.file, f.line))
        else:
            _defer(r3, name, '%s:%d' % (f.file, f.line), 'not the form Compare(rhs) == Comparison::%s' % want)
    # element trichotomy
    be = db.fn(O + 'SDBasicElement::Compare')
    try:
        bad = None
        for a, b in ((1, 1), (1, 2), (2, 1)):
            got = Interp(db).call(be, [Obj(value=b)], Obj(value=a))
            want = cmpv['EQUAL'] if a == b else cmpv['LESS'] if a < b else cmpv['GREATER']
            if got != want and bad is None:
                bad = (a, b, got, want)
        if bad:
            r3.violation('SDBasicElement::Compare', '%s:%d' % (be.file, be.line), 'Compare(%d, %d) = %d, expected %d' % bad)
        else:
            r3.ok('SDBasicElement::Compare', 'trichotomy on all three order types', '%s:%d' % (be.file, be.line))
    except OutOfFragment as e:
        r3.broken('SDBasicElement::Compare outside fragment: %s' % e)
    # orientation: receiver from this, argument from rhs
    for cls, inner_cls in ((O + 'SDTuple', SD), (SET, SD), (SD, None)):
        f = db.fn(cls + '::Compare')
        rhs = f.rec['params'][0]['name']
        inner = [n for n in f.calls() if (n.get('cs') or '').endswith('::Compare') and n['k'] == 'CXXMemberCallExpr' and n.get('cs') != f.name or (n.get('cs') == f.name and False)]
        inner = [n for n in f.calls() if n['k'] == 'CXXMemberCallExpr' and (n.get('cs') or '').split('::')[-1] == 'Compare']
        inst = cls.split('::')[-1] + '::Compare'
        if not inner:
            _defer(r3, inst, '%s:%d' % (f.file, f.line), 'no direct component comparison')
            continue
        bad = None
        for n in inner:
            recv_rhs = _mentions(f, f.stmts[n['obj']], rhs)
            arg_rhs = _mentions(f, f.stmts[n['args'][0]], rhs)
            if recv_rhs or not arg_rhs:
                bad = n
        if bad is not None:
            _defer(r3, inst, f.loc(bad), '`%s` has rhs as the receiver' % bad.get('txt', '')[:70])
            continue
        extra_ok = True
        why = 'components of this compared against the matching components of rhs'
        if cls == SET:
            # cardinality first
            rets = [(p, r) for p, r in f.return_sites()]
            K = Keyer(f)
            first_if = [n for n in f.walk() if n['k'] == 'IfStmt']
            c0 = K.key(f.stmts[first_if[0]['cond']]) if first_if else None
            card = c0 is not None and c0[0] == 'Bop' and 'Cardinality' in repr(c0[3]) and 'Cardinality' in repr(c0[4])
            gt = card and ((c0[1] == '>' and _ret_enum(f, first_if[0]['then']) == 'GREATER') or (c0[1] == '<' and _ret_enum(f, first_if[0]['then']) == 'LESS'))
            both = [n for n in f.walk() if n['k'] == 'ForStmt' and 'inc' in n and len([x for x in f.walk(f.stmts[n['inc']]) if x['k'] in ('CXXOperatorCallExpr', 'UnaryOperator') and x.get('op') == '++']) == 2]
            extra_ok = bool(gt and both)
            why = 'cardinality first, then element-wise with both iterators advanced together'
            if not extra_ok:
                _defer(r3, inst, '%s:%d' % (f.file, f.line), 'not the cardinality-first, walk-in-step form')
                continue
        if cls == O + 'SDTuple':
            lp = [n for n in f.walk() if n['k'] == 'ForStmt']
            K = Keyer(f)
            ok = len(lp) == 1 and 'PR_START' in repr(K.key(f.stmts[f.stmts[lp[0]['init']]['decls'][0]['init']])) and 'Arity' in repr(K.key(f.stmts[lp[0]['cond']]))
            if not ok:
                _defer(r3, inst, '%s:%d' % (f.file, f.line), 'not a single loop over PR_START..Arity')
                continue
            why = 'lexicographic from PR_START, first unequal component decides'
        r3.ok(inst, why, '%s:%d' % (f.file, f.line))


def _ret_enum(f, sid):
    for x in f.walk(f.stmts[sid]):
        if x['k'] == 'DeclRefExpr' and x.get('dk') == 'enumerator':
            return x.get('name')
    return None


def _mentions(f, n, name):
    """does expression n depend on variable `name` (directly or through a local initialised from it)?"""
    seen = set()
    stack = [n]
    while stack:
        x = stack.pop()
        for y in f.walk(x):
            if y['k'] == 'DeclRefExpr':
                if y.get('name') == name:
                    return True
                did = y.get('did')
                if y.get('dk') == 'local' and did not in seen:
                    seen.add(did)
                    for s in f.rec['stmts']:
                        if s['k'] == 'DeclStmt':
                            for d in s.get('decls', []):
                                if d.get('did') == did and 'init' in d:
                                    stack.append(f.stmts[d['init']])
    return False


# ---------------------------------------------------------------------------------------------- r6: the algebra, evaluated
def _den(d):
    """what a descriptor denotes (the mathematical object)"""
    if isinstance(d, int):
        return d
    tag = d[0]
    if tag == 't':
        return tuple(_den(x) for x in d[1:])
    if tag == 's':
        return frozenset(_den(x) for x in d[1:])
    if tag == 'x':
        fs = [_den(x) for x in d[1:]]
        if any(len(f) == 0 for f in fs):
            return frozenset()
        return frozenset(itertools.product(*[sorted(f, key=_key) for f in fs]))
    if tag == 'b':
        base = sorted(_den(d[1]), key=_key)
        return frozenset(frozenset(c) for r in range(len(base) + 1) for c in itertools.combinations(base, r))
    raise ValueError(d)


def _key(v):
    return repr(_canon(v))


def _canon(v):
    if isinstance(v, frozenset):
        return ('set', tuple(sorted((_canon(x) for x in v), key=repr)))
    if isinstance(v, tuple):
        return ('tup', tuple(_canon(x) for x in v))
    return v


def _desc(v, flip=False):
    """an enumerated descriptor of a mathematical value; `flip` lists the elements in the opposite order"""
    if isinstance(v, int):
        return v
    if isinstance(v, tuple):
        return ('t',) + tuple(_desc(x, flip) for x in v)
    els = sorted(v, key=_key, reverse=flip)
    return ('s',) + tuple(_desc(x, flip) for x in els)


def _show_d(d):
    if isinstance(d, int):
        return str(d)
    tag = d[0]
    if tag == 't':
        return '(' + ','.join(_show_d(x) for x in d[1:]) + ')'
    if tag == 's':
        return '{' + ','.join(_show_d(x) for x in d[1:]) + '}'
    if tag == 'x':
        return '×'.join(_show_d(x) for x in d[1:])
    return 'ℬ(' + _show_d(d[1]) + ')'


def _value(r):
    """(mathematical value, the list of duplicate-carrying sets met while reading)"""
    dups = []

    def go(x):
        if isinstance(x, int):
            return x
        if isinstance(x, tuple) and x and x[0] == 'seq':
            els = [go(e) for e in x[1]]
            if len(set(els)) != len(els):
                dups.append(els)
            return frozenset(els)
        return tuple(go(e) for e in x)
    v = go(r)
    return v, dups


def _families(thorough):
    """type name -> descriptors of that one type; every family mixes representations of equal and of different values"""
    A, B2, C = ('s', 1, 2), ('s', 3, 4), ('s', 2, 3)
    ints = [1, 2, 3]
    s_int = [('s',), ('s', 1), ('s', 2), ('s', 2, 1), ('s', 1, 2, 1), ('s', 3, 1), ('s', 1, 2, 3), ('s', 3, 2, 1, 3)]
    pairs = [('t', 1, 1), ('t', 1, 2), ('t', 2, 1), ('t', 2, 2)]
    prod = ('x', A, B2)
    s_pair = [('s',), ('x', A, ('s',)), prod, _desc(_den(prod)), _desc(_den(prod), True), ('x', A, A), _desc(_den(('x', A, A)), True), ('x', ('s', 1), B2), ('s', ('t', 1, 3), ('t', 1, 4)),
              ('s', ('t', 1, 4), ('t', 1, 3), ('t', 1, 4)), ('x', B2, A), ('s', ('t', 2, 4))]
    pw = ('b', A)
    s_set = [('s',), ('b', ('s',)), ('s', ('s',)), pw, _desc(_den(pw)), _desc(_den(pw), True), ('b', ('s', 1)), ('s', ('s',), ('s', 1)), ('s', ('s', 1), ('s',)), ('b', C), ('s', ('s', 1, 2)), ('s', ('s', 2, 1), ('s', 1, 2))]
    mixed = ('x', ('b', A), A)                         # a set-typed component to the left of an element-typed one
    mixed2 = ('x', A, ('b', A))
    s_mixed = [mixed, _desc(_den(mixed)), _desc(_den(mixed), True), ('x', ('b', ('s', 1)), A), _desc(_den(('x', ('b', ('s', 1)), A)), True), ('s', ('t', ('s', 1), 2), ('t', ('s',), 1))]
    s_mixed2 = [mixed2, _desc(_den(mixed2)), _desc(_den(mixed2), True), ('x', ('s', 1), ('b', A)), _desc(_den(('x', ('s', 1), ('b', A))))]
    bp = ('b', ('x', ('s', 1, 2), ('s', 3)))
    s_setpair = [bp, _desc(_den(bp)), _desc(_den(bp), True), ('b', ('x', ('s', 1), ('s', 3))), ('s', ('s', ('t', 1, 3)), ('s',))]
    long_t = [('t', 1, 1, 1, 1, 1), ('t', 1, 1, 1, 1, 2), ('t', 1, 1, 1, 2, 1), ('t', 2, 1, 1, 1, 1), ('t', 1, 2, 1, 1, 1), ('t', 1, 1, 2, 1, 1), ('t', 1, 1, 2, 1, 1)]
    lo, hi = -2 ** 31, 2 ** 31 - 1
    wide = [lo, -1, 0, 1, hi]
    s_wide = [('s', lo, hi), ('s', hi, lo), ('s', lo, 0, hi), ('s', hi, 0, lo, 0), ('s', 1, lo), ('s', -1, hi), ('s', hi), ('s', lo)]
    nested_t = ('x', ('x', A, B2), A)                  # a tuple-typed component to the left of an element-typed one
    s_nested = [nested_t, _desc(_den(nested_t)), _desc(_den(nested_t), True), ('x', ('x', A, A), ('s', 1))]
    fam = {'ℤ (32-bit extremes)': wide, 'ℬ(ℤ) (32-bit extremes)': s_wide, 'ℬ((ℤ×ℤ)×ℤ)': s_nested, 'ℤ×ℤ×ℤ×ℤ×ℤ': long_t, 'ℤ': ints, 'ℤ×ℤ': pairs, 'ℬ(ℤ)': s_int, 'ℬ(ℤ×ℤ)': s_pair, 'ℬℬ(ℤ)': s_set, 'ℬ(ℬ(ℤ)×ℤ)': s_mixed, 'ℬ(ℤ×ℬ(ℤ))': s_mixed2, 'ℬℬ(ℤ×ℤ)': s_setpair}
    if thorough:
        t3 = ('x', A, B2, C)
        fam['ℬ(ℤ×ℤ×ℤ)'] = [t3, _desc(_den(t3)), _desc(_den(t3), True), ('x', A, A, A), _desc(_den(('x', A, A, A)), True), ('x', ('s', 1), B2, C)]
        p3 = ('b', ('s', 1, 2, 3))
        fam['ℬℬ(ℤ)'] = s_set + [p3, _desc(_den(p3)), _desc(_den(p3), True)]
        bb = ('b', ('b', A))
        fam['ℬℬℬ(ℤ)'] = [bb, _desc(_den(bb)), _desc(_den(bb), True), ('b', ('b', ('s', 1))), ('s', ('b', A), _desc(_den(('b', A)), True)), ('s', ('b', A))]
        xx = ('x', A, ('x', A, B2), A)
        fam['ℬ(ℤ×(ℤ×ℤ)×ℤ)'] = [xx, _desc(_den(xx)), _desc(_den(xx), True), ('x', ('s', 2), ('x', A, A), ('s', 1))]
        big = ('x', ('s', 1, 2, 3), ('s', 1, 2, 3))
        fam['ℬ(ℤ×ℤ)'] = s_pair + [big, _desc(_den(big)), _desc(_den(big), True)]
    return fam


def _eval_family(ev, tname, descs, thorough, fail, tick):
    EQ, LT, GT = ev.CMP['EQUAL'], ev.CMP['LESS'], ev.CMP['GREATER']
    hs = []
    for d in descs:
        h = ev.build(d)
        want = _den(d)
        got, dups = _value(ev.read(h))
        tick('iteration')
        if dups:
            fail('iteration', 'iterating %s visits an element twice: %s' % (_show_d(d), dups[0]), 'SDPowerSet::Iterator::operator++' if d and not isinstance(d, int) and d[0] == 'b' else 'SDDecartian::Iterator::operator++' if not isinstance(d, int) and d[0] == 'x' else 'SDEnumSet::AddElement')
        if got != want:
            fail('iteration', 'reading %s (type %s) gives %s, the value is %s' % (_show_d(d), tname, _show_v(got), _show_v(want)),
                 'SDPowerSet::Iterator::operator++' if not isinstance(d, int) and d[0] == 'b' else 'SDDecartian::Iterator::operator++' if not isinstance(d, int) and d[0] == 'x' else 'SDEnumSet::AddElement')
        if isinstance(want, frozenset):
            card = ev.call(ev.fn(O + 'SDSet::Cardinality'), [], ev.B(h))
            tick('cardinality')
            if card != len(want):
                fail('cardinality', 'Cardinality() of %s is %s, the set has %d elements' % (_show_d(d), card, len(want)), 'SDSet::Cardinality')
        hs.append((d, h, want))
    # equality and order over all pairs
    for (d1, h1, v1), (d2, h2, v2) in itertools.product(hs, repeat=2):
        c12 = ev.compare(h1, h2)
        c21 = ev.compare(h2, h1)
        e12 = ev.eq(h1, h2)
        tick('equality')
        if (c12 == EQ) != (v1 == v2) or e12 != (v1 == v2):
            fail('equality', '%s and %s denote %s value but Compare gives %s and operator== gives %s' % (_show_d(d1), _show_d(d2), 'the same' if v1 == v2 else 'different', _cmp_name(ev, c12), e12),
                 'SDSet::Compare' if isinstance(v1, frozenset) else 'SDTuple::Compare' if isinstance(v1, tuple) else 'StructuredData::Compare')
        l12 = ev.lt(h1, h2)
        tick('order')
        if l12 != (c12 == LT):
            fail('order', 'operator< on (%s, %s) is %s but Compare gives %s' % (_show_d(d1), _show_d(d2), l12, _cmp_name(ev, c12)), 'StructuredData::Compare')
        tick('order')
        if not ((c12 == LT and c21 == GT) or (c12 == GT and c21 == LT) or (c12 == EQ and c21 == EQ)):
            fail('order', 'Compare(%s, %s) = %s but Compare(%s, %s) = %s: not a strict order' % (_show_d(d1), _show_d(d2), _cmp_name(ev, c12), _show_d(d2), _show_d(d1), _cmp_name(ev, c21)),
                 'SDSet::Compare' if isinstance(v1, frozenset) else 'SDTuple::Compare' if isinstance(v1, tuple) else 'StructuredData::Compare')
    # transitivity on the distinct values
    cmp_cache = {}

    def less(i, j):
        if (i, j) not in cmp_cache:
            cmp_cache[(i, j)] = ev.compare(hs[i][1], hs[j][1]) == LT
        return cmp_cache[(i, j)]
    idx = range(len(hs))
    for i, j, k3 in itertools.product(idx, repeat=3):
        if less(i, j) and less(j, k3):
            tick('order')
            if not less(i, k3):
                fail('order', '%s < %s and %s < %s but not %s < %s' % (_show_d(hs[i][0]), _show_d(hs[j][0]), _show_d(hs[j][0]), _show_d(hs[k3][0]), _show_d(hs[i][0]), _show_d(hs[k3][0])),
                     'SDSet::Compare' if isinstance(hs[i][2], frozenset) else 'SDTuple::Compare')
    if not hs or not isinstance(hs[0][2], frozenset):
        return
    # a set of these sets: equal values collapse whatever their representation
    outer = ev.F('Set', [h for _, h, _ in hs])
    got, dups = _value(ev.read(outer))
    tick('nesting')
    if dups or got != frozenset(v for _, _, v in hs):
        fail('nesting', 'the enumerated set of the %d values of type %s has %d elements when read, %d distinct values were inserted' % (len(hs), tname, len(ev.read(outer)[1]), len({v for _, _, v in hs})), 'SDEnumSet::AddElement')
    # membership
    universe = {}
    for _, _, v in hs:
        for e in v:
            universe.setdefault(e, None)
    elems = [(e, ev.build(_desc(e)), ev.build(_desc(e, True))) for e in sorted(universe, key=_key)]
    for d, h, v in hs:
        for e, he, he2 in elems:
            for hx in (he, he2):
                tick('Contains')
                c = bool(ev.call(ev.fn(O + 'SDSet::Contains'), [hx], ev.B(h)))
                if c != (e in v):
                    fail('Contains', '%s.Contains(%s) = %s' % (_show_d(d), _show_v(e), c), 'SDSet::Contains')
    # binary operations (the quick tier pairs every value with the first eight of its family)
    for (d1, h1, v1), (d2, h2, v2) in itertools.product(hs, hs if thorough else hs[:8]):
        for op, fnc in (('Union', lambda a, b: a | b), ('Intersect', lambda a, b: a & b), ('Diff', lambda a, b: a - b), ('SymDiff', lambda a, b: a ^ b)):
            res = ev.setop(op, h1, ev.B(h2))
            got, dups = _value(ev.read(res))
            tick(op)
            if dups or got != fnc(v1, v2):
                fail(op, '%s.%s(%s) reads as %s, the definition gives %s' % (_show_d(d1), op, _show_d(d2), _show_v(got), _show_v(fnc(v1, v2))), 'SDSet::' + op)
            elif ev.compare(res, ev.build(_desc(fnc(v1, v2), True))) != EQ:
                fail(op, '%s.%s(%s) has the right elements but does not compare equal to the enumerated set of them' % (_show_d(d1), op, _show_d(d2)), 'SDSet::' + op)
        sub = bool(ev.setop('IsSubsetOrEq', h1, ev.B(h2)))
        tick('IsSubsetOrEq')
        if sub != (v1 <= v2):
            fail('IsSubsetOrEq', '%s.IsSubsetOrEq(%s) = %s' % (_show_d(d1), _show_d(d2), sub), 'SDSet::IsSubsetOrEq')
    # a private copy keeps the value; adding to a copy does not touch the original
    for d, h, v in hs:
        h2 = ev.copy_handle(h)
        fresh = ev.build(_desc(sorted(universe, key=_key)[0])) if universe else None
        if fresh is None:
            continue
        ev.modify_add(h2, fresh)
        got1, _ = _value(ev.read(h))
        got2, _ = _value(ev.read(h2))
        tick('copies')
        if got1 != v:
            fail('copies', 'adding an element to a copy of %s changed the original to %s' % (_show_d(d), _show_v(got1)), 'SDEnumSet::AddElement')
        lazy = not isinstance(d, int) and d[0] in ('x', 'b') and len(v) > 0
        want2 = v if lazy else v | {sorted(universe, key=_key)[0]}
        if got2 != want2:
            fail('copies', 'a modified copy of %s reads as %s (expected %s)' % (_show_d(d), _show_v(got2), _show_v(want2)), 'SDEnumSet::AddElement')
    # unary operations by element type
    for d, h, v in hs:
        if v and all(isinstance(e, frozenset) for e in v):
            res = ev.setop('Reduce', h)
            got, dups = _value(ev.read(res))
            tick('Reduce')
            want = frozenset(x for e in v for x in e)
            if dups or got != want:
                fail('Reduce', 'Reduce(%s) reads as %s, the union of its elements is %s' % (_show_d(d), _show_v(got), _show_v(want)), 'SDSet::Reduce')
        if v and all(isinstance(e, tuple) for e in v):
            ar = len(next(iter(v)))
            for ixs in [[1], [2], [2, 1], [1, 1]] + ([[1, 3]] if ar >= 3 else []):
                if max(ixs) > ar:
                    continue
                res = ev.setop('Projection', h, list(ixs))
                got, dups = _value(ev.read(res))
                tick('Projection')
                want = frozenset((e[ixs[0] - 1] if len(ixs) == 1 else tuple(e[i - 1] for i in ixs)) for e in v)
                if dups or got != want:
                    fail('Projection', 'Projection(%s, %s) reads as %s, expected %s' % (_show_d(d), ixs, _show_v(got), _show_v(want)), 'SDSet::Projection')
        if len(v) == 1:
            res = ev.setop('Debool', h)
            got, _ = _value(ev.read(res))
            tick('Debool')
            if got != next(iter(v)):
                fail('Debool', 'Debool(%s) reads as %s' % (_show_d(d), _show_v(got)), 'SDSet::Debool')


def _eval_sizes(ev, db, thorough, fail, tick):
    # sizes of lazy sets far beyond what can be enumerated: only Cardinality / IsEmpty / begin()==end() are evaluated
    INF = db.fn(O + 'StructuredData::SET_INFINITY::<init>', required=False)
    inf = ev.it.eval(INF, INF.stmts[INF.body], {}) if INF is not None else None
    if not isinstance(inf, int):
        raise OutOfFragment('SET_INFINITY not evaluable')
    base_cache = {}

    def pw(n_):
        if n_ not in base_cache:
            base_cache[n_] = ev.F('Boolean', ev.build(('s',) + tuple(range(1, n_ + 1))))
        return base_cache[n_]
    shapes = [(3,), (10,), (27,), (28,), (30,), (31,), (10, 10), (13, 14), (14, 14), (15, 16), (16, 16), (11, 11, 11), (20, 14, -3), (16, -33), (27, -2), (28, -2), (-3, 27), (1, 1, 1), (0, 5),
              (22, 22, 22), (16, 16, 16, 16), (27, 27, 27), (31, 31, 31),       # products of 2^64 and more elements: a 64-bit accumulator wraps (2^64 to exactly 0)
              (-13, -13, -97, -131, -125), (-131, -125, -97, -13, -13), (-125, -131, -13, -97, -13)]        # 268435375 elements: just below SET_INFINITY, in three factor orders
    if thorough:
        shapes += [(a, b) for a in range(8, 31, 2) for b in range(8, 31, 3)] + [(a, b, c) for a in (4, 8, 12, 16) for b in (8, 10, 12) for c in (8, 12, 16, -7)]
    for sh in shapes:
        exact = 1
        fs = []
        for e_ in sh:
            if e_ >= 0:
                exact *= 2 ** e_
                fs.append(pw(e_))
            else:
                exact *= -e_
                fs.append(ev.build(('s',) + tuple(range(1, -e_ + 1))))
        h = fs[0] if len(fs) == 1 else ev.F('Decartian', fs)
        card = ev.call(ev.fn(O + 'SDSet::Cardinality'), [], ev.B(h))
        empty = bool(ev.call(ev.fn(O + 'SDSet::IsEmpty'), [], ev.B(h)))
        b_ = ev.call(ev.fn(O + 'SDSet::begin'), [], ev.B(h))
        e2 = ev.call(ev.fn(O + 'SDSet::end'), [], ev.B(h))
        tick('cardinality')
        name = ' × '.join(('ℬ(%d elements)' % e_) if e_ >= 0 else ('{1..%d}' % -e_) for e_ in sh)
        if exact < inf and card != exact:
            fail('cardinality', 'Cardinality() of %s is %s, the set has %d elements' % (name, card, exact), 'SDSet::Cardinality')
        elif exact >= inf and not (isinstance(card, int) and inf <= card < 2 ** 31):
            fail('cardinality', 'Cardinality() of %s is %s: the set has %d elements, at least SET_INFINITY = %d must be reported' % (name, card, exact, inf), 'SDSet::Cardinality')
        elif empty or ev.iter_eq(b_, e2):
            fail('cardinality', '%s, a set of %d elements, reports IsEmpty() = %s and begin() == end() is %s' % (name, exact, empty, ev.iter_eq(b_, e2)), 'SDSet::Cardinality')


def _job(job):
    """one family (or the size arithmetic) evaluated in a worker process: (bad, counts, steps, broken)"""
    from engine.models.sdmodel import SDEval, Crash
    from engine.evalmini import SignedOverflow
    db, (kind, tname, descs, thorough) = _JOBDB[0], job
    bad, counts = {}, {}
    where = {}
    for nm in ('StructuredData::Compare', 'SDSet::Compare', 'SDTuple::Compare', 'SDSet::Union', 'SDSet::Intersect', 'SDSet::Diff', 'SDSet::SymDiff', 'SDSet::IsSubsetOrEq', 'SDSet::Contains',
               'SDSet::Cardinality', 'SDSet::Projection', 'SDSet::Reduce', 'SDSet::Debool', 'SDDecartian::Iterator::operator++', 'SDPowerSet::Iterator::operator++', 'SDEnumSet::AddElement'):
        f = db.fn(O + nm, required=False)
        where[nm] = '%s:%d' % (f.file, f.line) if f is not None else ''

    def fail(inst, msg, anchor):
        bad.setdefault(inst, (where.get(anchor, ''), msg))

    def tick(inst):
        counts[inst] = counts.get(inst, 0) + 1
    broken = None
    steps = 0
    try:
        ev = SDEval(db, max_steps=80000000 if thorough else 30000000)
        try:
            if kind == 'family':
                _eval_family(ev, tname, descs, thorough, fail, tick)
            else:
                _eval_sizes(ev, db, thorough, fail, tick)
        finally:
            steps = ev.it.steps
    except (Crash, SignedOverflow) as e:
        fail('no-undefined-behaviour', 'a sequence of public calls on well-typed values of type %s reaches undefined behaviour: %s' % (tname, e), 'StructuredData::Compare')
    except OutOfFragment as e:
        if not bad:
            broken = 'StructuredData outside the evaluable fragment (%s): %s' % (tname, e)
    return bad, counts, steps, broken


_JOBDB = [None]


def _denotation(db, rep):
    """r6: every public operation of StructuredData, interpreted from the library's own source on families of values that mix enumerated,
    power-set and product representations (and insertion orders with duplicates), against the mathematical definition."""
    thorough = rep.tier == 'thorough'
    r6 = rep.rule('r6', 'ALGEBRA-EVALUATED: equality, order, iteration, membership, cardinality and every set operation of the interpreted library agree with the mathematical value on mixed-representation families', 8)
    algebra_rule(db, rep, r6, _families(thorough), thorough)


ALL_INSTANCES = ('iteration', 'cardinality', 'equality', 'order', 'nesting', 'Contains', 'Union', 'Intersect', 'Diff', 'SymDiff', 'IsSubsetOrEq', 'copies', 'Reduce', 'Projection', 'Debool')


def algebra_rule(db, rep, rule, fam, thorough, instances=ALL_INSTANCES, sizes=True, note_prefix='r6'):
    """evaluate the families (one worker process each) and report the named instances into `rule` (shared by C01)"""
    import multiprocessing
    jobs = [('family', t, d, thorough) for t, d in fam.items()] + ([('sizes', 'sizes', None, thorough)] if sizes else [])
    _JOBDB[0] = db
    try:
        with multiprocessing.get_context('fork').Pool(min(16, len(jobs))) as pool:
            results = pool.map(_job, jobs, 1)
    finally:
        _JOBDB[0] = None
    bad, counts, steps = {}, {}, 0
    for (b_, c_, s_, br) in results:
        if br:
            rule.broken(br)
        for k_, v_ in b_.items():
            bad.setdefault(k_, v_)
        for k_, v_ in c_.items():
            counts[k_] = counts.get(k_, 0) + v_
        steps += s_
    if rule.broken_reason:
        return
    rep.note(note_prefix + '_evaluations', {k_: v_ for k_, v_ in counts.items() if k_ in instances})
    rep.note(note_prefix + '_interpreter_steps', steps)
    rep.note(note_prefix + '_families', {t: len(d) for t, d in fam.items()})
    for inst in instances:
        if inst in bad:
            rule.violation(inst, bad[inst][0], bad[inst][1])
        elif counts.get(inst):
            rule.ok(inst, '%d evaluated cases over %d type families agree with the definition' % (counts[inst], len(fam)))
    if 'no-undefined-behaviour' in bad:
        rule.violation('no-undefined-behaviour', bad['no-undefined-behaviour'][0], bad['no-undefined-behaviour'][1])


def _cmp_name(ev, c):
    for k, v in ev.CMP.items():
        if v == c:
            return k
    return str(c)


def _show_v(v):
    if isinstance(v, frozenset):
        return '{' + ', '.join(_show_v(x) for x in sorted(v, key=_key)) + '}'
    if isinstance(v, tuple):
        return '(' + ', '.join(_show_v(x) for x in v) + ')'
    return str(v)


# ---------------------------------------------------------------------------------------------- r7: references handed out stay valid
def _reference_stability(db, rep):
    """A public accessor that returns a reference to an *element of a member container* hands the client something whose lifetime is the
    container's; if a const member of that class (callable while the client only reads) clears or erases that container, every reference
    handed out earlier dangles. Origins are traced through reference-returning callees (Iterator::operator* -> CachedSD::GetCache ->
    cachedElements.at(i)); a value copied into storage owned by the accessor's own object (a member handle) is stable."""
    r7 = rep.rule('r7', 'REFERENCE-STABILITY: a reference returned by a public const accessor of the data library never points into a member container that a const member of the same object can clear or erase', 2)
    fns = [f for f in db.functions if f.name.startswith(O) and not f.rec.get('dependent') and f.body >= 0]
    by_name = {}
    for f in fns:
        by_name.setdefault(f.name, []).append(f)
    ELEM = ('at', 'operator[]', 'front', 'back', 'find', 'begin')
    INVALIDATE_ANY = ('clear', 'erase', 'swap', 'operator=', 'assign', 'extract', 'merge')
    INVALIDATE_VEC = ('push_back', 'emplace_back', 'insert', 'emplace', 'resize', 'reserve', 'pop_back', 'shrink_to_fit')
    memo = {}

    def is_ref(f):
        ret = (f.rec.get('ret') or '')
        return ret.endswith('&') or ret.endswith('::reference') or ret.endswith('::pointer') or ret.endswith('*')

    def field_of_this(f, n):
        n = f.strip(n)
        if n is not None and n['k'] == 'MemberExpr' and n.get('mk') == 'field':
            base = f.strip(f.children(n)[0]) if n.get('c') else None
            if base is None or base['k'] == 'CXXThisExpr':
                return n.get('member'), n.get('fcls') or f.cls
        return None

    def origin(f, depth=0):
        """set of ('elem', cls, field) | ('field', cls, field) the returned reference can point to"""
        if f.name in memo:
            return memo[f.name]
        memo[f.name] = set()
        out = set()
        for _, r in f.return_sites():
            if 'value' not in r:
                continue
            stack = [f.strip(f.stmts[r['value']])]
            while stack:
                e = stack.pop()
                if e is None:
                    continue
                if e['k'] == 'UnaryOperator' and e.get('op') in ('&', '*'):
                    stack.append(f.strip(f.children(e)[0]))
                    continue
                if e['k'] == 'ConditionalOperator':
                    stack += [f.strip(f.stmts[e['then']]), f.strip(f.stmts[e['else']])]
                    continue
                fo = field_of_this(f, e)
                if fo:
                    out.add(('field', fo[1], fo[0]))
                    continue
                if e['k'] in ('CXXMemberCallExpr', 'CXXOperatorCallExpr', 'CallExpr'):
                    cs = e.get('cs') or ''
                    last = cs.split('::')[-1]
                    obj = f.stmts[e['obj']] if 'obj' in e else (f.stmts[e['args'][0]] if e['k'] == 'CXXOperatorCallExpr' and e.get('args') else None)
                    if cs.startswith('std::') and obj is not None:
                        fo = field_of_this(f, obj)
                        if fo and last in ELEM:
                            out.add(('elem', fo[1], fo[0]))
                        elif fo and last in ('value', 'operator*', 'operator->', 'get'):
                            out.add(('field', fo[1], fo[0]))          # optional / smart pointer owned by this object
                        continue
                    g = db.by_mn.get(e.get('mn') or '')
                    if g is not None and g.body >= 0 and is_ref(g) and depth < 6:
                        out |= origin(g, depth + 1)
        memo[f.name] = out
        return out
    invalidators = {}
    for f in fns:
        for n in f.calls():
            cs = n.get('cs') or ''
            if not cs.startswith('std::') or 'obj' not in n and not (n['k'] == 'CXXOperatorCallExpr' and n.get('args')):
                continue
            last = cs.split('::')[-1]
            obj = f.stmts[n['obj']] if 'obj' in n else f.stmts[n['args'][0]]
            fo = field_of_this(f, obj)
            if not fo:
                continue
            vec = cs.startswith('std::vector::') or cs.startswith('std::basic_string')
            if last in INVALIDATE_ANY or (vec and last in INVALIDATE_VEC):
                if n['k'] == 'CXXOperatorCallExpr' and last == 'operator=' and False:
                    continue
                invalidators.setdefault((fo[1], fo[0]), []).append((f, n, last))
    n_pub = 0
    for f in sorted(fns, key=lambda x: x.name):
        if not is_ref(f) or f.rec.get('access', 0) != 0 or not f.rec.get('const'):
            continue
        org = origin(f)
        elems = [o for o in org if o[0] == 'elem']
        if not org:
            continue
        n_pub += 1
        inst = '::'.join(f.name.split('::')[2:])
        bad = None
        for _, cls, fld in elems:
            for g, n, last in invalidators.get((cls, fld), []):
                if g.rec.get('const') and last != 'operator=':
                    bad = (cls, fld, g, n, last)
                    break
            if bad:
                break
        if bad:
            cls, fld, g, n, last = bad
            r7.violation(inst, '%s:%d' % (f.file, f.line), 'returns a reference to an element of %s::%s, and the const member %s does `%s` (%s): a reference handed out earlier - by any iterator over the same set - dangles once it runs' % (
                cls.split('::')[-1], fld, g.name.split('::')[-1], (n.get('txt') or last)[:40], g.loc(n)))
        else:
            r7.ok(inst, 'points to %s' % ', '.join(sorted('%s %s::%s' % (k, c.split('::')[-1], fl) for k, c, fl in org)) + ('; no const member invalidates it' if elems else ''), '%s:%d' % (f.file, f.line), nontrivial=bool(elems) or any(o[0] == 'field' for o in org))
    rep.note('r7_public_reference_accessors', n_pub)
