"""C03 — type checker verdict and typification follow the RSLang typing rules.

The typing rules themselves are not re-derived (no independent specification). Decided:
 r1 LOUD-REJECT   every refusing return of TypeAuditor / ValueAuditor / SchemaAuditor is either reached only after an OnError call with
                  a critical code, or is the propagation of a refusing callee that is itself loud (fixpoint over the call graph,
                  through the visitor dispatch): a rejected expression always carries at least one critical error.
 r2 POSITION      the position argument of every OnError in the auditors is derived from the visited node (iter->pos / iter(k).pos / a
                  position parameter); SchemaAuditor reports whole-constituent errors at position 0.
 r3 SCOPES        every method that opens a scope closes it on every success path after its last child visit; declaration-mode flags
                  are changed only through RAII guards.
 r4 RESULTS       declared arguments are collected only while visiting a function definition; Schema::SaveInfoTo copies type, arguments,
                  value class and tree from the same auditor run (shared with C07 r4).
 r5 KINDS         constituent-kind constraints: CheckConstituenta tests base-set/empty, callable/arguments, logical/typed against the CstType
                  predicate tables, and those tables partition the 8 kinds consistently.
Not decided: principal types, template instantiation, value-class rules as mathematics.
"""
from engine.cfgq import call_sites, paths_avoiding, dominating_guards, normalise_cond, success_exits, cond_edges
from engine.evalmini import Interp, OutOfFragment, enum_values
from engine.facts import AnalysisBroken

UNITS = ['RSlang', 'CCL']
R = 'ccl::rslang::'
AUDITORS = [R + 'TypeAuditor', R + 'ValueAuditor', 'ccl::semantic::SchemaAuditor']

# branches that cannot be taken because every caller has already tested the same member flag (checked, not assumed: see _dead_edges)
CALLER_TESTED_FLAGS = ('isArgDeclaration', 'isLocalDeclaration')


def _dead_edges(db, f, fns):
    """{(from, to)}: edges on which a flag is true although every call site of f in the auditors is dominated by that flag being false"""
    callers = []
    for g in fns.values():
        for p, n in call_sites(g, lambda n: n.get('mn') == f.mn):
            callers.append((g, p))
    if not callers:
        return {}
    false_flags = None
    for g, p in callers:
        here = set()
        for c, pol in dominating_guards(g, p):
            for atom, apol in _atoms(g, c, pol):
                if _flag_of(g, atom) in CALLER_TESTED_FLAGS and apol is False:
                    here.add(_flag_of(g, atom))
        false_flags = here if false_flags is None else false_flags & here
    out = {}
    if not false_flags:
        return out
    # the flag must not be written inside f
    for bid, c, t, fl in cond_edges(f):
        c0, pol0 = normalise_cond(f, c, True)
        if c0 is not None and _flag_of(f, c0) in false_flags:
            to = t if pol0 else fl       # edge on which the flag is true
            if to is not None:
                out[((bid, len(f.blocks[bid]['el'])), (to, 0))] = _flag_of(f, c0)
    return out


def _flag_of(g, c):
    c = g.strip(c)
    if c is not None and c['k'] == 'CXXMemberCallExpr' and (c.get('cs') or '').split('::')[-1].startswith('operator bool') and 'obj' in c:
        c = g.strip(g.stmts[c['obj']])
    if c is not None and c['k'] == 'MemberExpr':
        return c.get('member')
    return None


def _atoms(g, c, pol):
    """decompose a guard into atoms that are implied by it: !(a || b) -> !a, !b ; (a && b) -> a, b"""
    c = g.strip(c)
    c, pol = normalise_cond(g, c, pol)
    if c is None:
        return []
    if c['k'] == 'BinaryOperator' and ((c.get('op') == '||' and not pol) or (c.get('op') == '&&' and pol)):
        out = []
        for k in g.children(c):
            out += _atoms(g, k, pol)
        return out
    return [(c, pol)]


def _refusing(f):
    out = [(p, r) for p, r in f.return_sites() if f.return_literal(r) in ('false', 'nullopt', 'nullptr')]
    # the bison actions refuse with YYABORT = `goto yyabortlab`
    for n in f.walk():
        if n['k'] == 'GotoStmt' and n.get('label') == 'yyabortlab' and any(a['k'] == 'SwitchStmt' and f.strip(f.stmts[a['cond']]).get('name') == 'yyn' for a in f.ancestors(n)):
            p = f.position_of(n)
            if p is not None:
                out.append((p, dict(n, txt='YYABORT')))
    return out


def _onerr_sites(f):
    out = []
    for p, n in call_sites(f, lambda n: (n.get('cs') or '').split('::')[-1] in ('OnError',) or (n.get('cs') or '') == R + 'ErrorLogger::LogError' or (n['k'] == 'CXXOperatorCallExpr' and n.get('op') == '()' and 'onError' in n.get('txt', ''))):
        out.append(p)
    return out


def _edge_callee(db, f, c, pol):
    """the callee whose refusal the branch (c, pol) tests, or None"""
    # the terminator of the block that evaluates the last operand of `a || b` / `a && b` carries the whole expression: its branch value is b's
    c = f.strip(c)
    while c is not None and c['k'] == 'BinaryOperator' and c.get('op') in ('||', '&&'):
        c = f.strip(f.children(c)[-1])
    c, pol = normalise_cond(f, c, pol)
    if c is None:
        return None
    # forms:  !g(...)  (pol False after stripping '!')   |  !x.has_value()  |  x == nullptr   |  !flag where flag = g(...)
    def callee_of_value(n):
        n = f.strip(n)
        if n is None:
            return None
        if n['k'] in ('CXXMemberCallExpr', 'CallExpr') and n.get('mn'):
            t = db.by_mn.get(n['mn'])
            return t
        if n['k'] == 'DeclRefExpr' and n.get('dk') == 'local':
            for s0 in f.rec['stmts']:
                if s0['k'] == 'DeclStmt':
                    for d in s0.get('decls', []):
                        if d.get('did') == n.get('did') and 'init' in d:
                            return callee_of_value(f.stmts[d['init']])
        if n['k'] in ('MemberExpr', 'CXXMemberCallExpr', 'CXXOperatorCallExpr') and n.get('txt'):
            # `lhs = g(...); if (!lhs) refuse;` in the same block (bison: yylhs.value = Helper(...); if (!yylhs.value) YYABORT;)
            blk = [a for a in f.ancestors(c) if a['k'] == 'CompoundStmt']
            if blk:
                for x in f.walk(blk[0]):
                    if x['k'] in ('BinaryOperator', 'CXXOperatorCallExpr') and x.get('op') == '=' and x.get('line', 0) <= c.get('line', 0):
                        kids = f.children(x) if x['k'] == 'BinaryOperator' else [f.stmts[a] for a in x.get('args', [])]
                        if len(kids) == 2 and f.strip(kids[0]).get('txt') == n.get('txt') and not any(y is c for y in f.walk(x)):
                            return callee_of_value(kids[1])
        return None
    if not pol:
        if c['k'] == 'CXXMemberCallExpr' and (c.get('cs') or '').split('::')[-1] in ('has_value', 'operator bool') and 'obj' in c:
            return callee_of_value(f.stmts[c['obj']])
        if c['k'] in ('CXXMemberCallExpr', 'CallExpr'):
            return callee_of_value(c)
        if c['k'] == 'DeclRefExpr':
            return callee_of_value(c)
        return None
    if pol and c['k'] == 'BinaryOperator' and c.get('op') == '==':
        kids = [f.strip(x) for x in f.children(c)]
        nulls = [x for x in kids if x['k'] == 'CXXNullPtrLiteralExpr']
        if len(nulls) == 1:
            other = [x for x in kids if x is not nulls[0]][0]
            return callee_of_value(other)
    return None


def _passes_other_cond(f, start, goal):
    """True if every path start -> goal crosses another conditional edge (the edge is then not the direct reason of the return)"""
    succ, _e, _x = f.graph()
    seen = set()
    stack = [start]
    while stack:
        q = stack.pop()
        if q == goal:
            return False
        if q in seen:
            continue
        seen.add(q)
        nxt = succ.get(q, [])
        if len(nxt) > 1:
            continue
        stack.extend(nxt)
    return True


def _report_faithful(db, rule, thorough):
    import itertools
    from engine.evalmini import Interp, Obj, OutOfFragment, NOT_HANDLED, enum_values
    ft = db.fn(R + 'EchelonTuple::ToString', required=False)
    fb = db.fn(R + 'EchelonBool::ToString', required=False)
    if ft is None or fb is None:
        rule.broken('anchor vanished: EchelonTuple::ToString / EchelonBool::ToString')
        return
    T = enum_values(db, R + 'TokenID')
    SIGN = {T.get('DECART'): '\u00d7', T.get('BOOLEAN'): '\u212c'}
    TY = R + 'Typification'

    def mk(t):
        if t[0] == 'base':
            return Obj(__cls__=TY, kind='base', name=t[1])
        if t[0] == 'bool':
            return Obj(__cls__=TY, kind='bool', base=mk(t[1]))
        return Obj(__cls__=TY, kind='tuple', factors=[mk(x) for x in t[1]])

    def ref(t):
        if t[0] == 'base':
            return t[1]
        if t[0] == 'bool':
            return '\u212c' + (ref(t[1]) if t[1][0] == 'bool' else '(' + ref(t[1]) + ')')
        return '\u00d7'.join('(' + ref(x) + ')' if x[0] == 'tuple' else ref(x) for x in t[1])

    def show(it, o):
        if o['kind'] == 'base':
            return bytearray(o['name'].encode())
        if o['kind'] == 'tuple':
            return it.call(ft, [], Obj(__cls__=R + 'EchelonTuple', factors=o['factors']))
        return it.call(fb, [], Obj(__cls__=R + 'EchelonBool', boolBase=('ptr', o['base'])))

    def on_call(it, fn, n, env):
        cs = n.get('cs') or ''
        last = cs.split('::')[-1]
        if cs == R + 'Token::Str' and n.get('args'):
            v = it.eval(fn, fn.stmts[n['args'][0]], env)
            if v in SIGN:
                return bytearray(SIGN[v].encode())
        if last in ('IsTuple', 'IsCollection', 'ToString') and 'obj' in n and not cs.startswith('std::'):
            o = it.eval(fn, fn.stmts[n['obj']], env)
            if isinstance(o, tuple) and len(o) == 2 and o[0] == 'ptr':
                o = o[1]
            if isinstance(o, Obj) and o.get('__cls__') == TY:
                return o['kind'] == 'tuple' if last == 'IsTuple' else o['kind'] == 'bool' if last == 'IsCollection' else show(it, o)
        return NOT_HANDLED
    bases = [('base', 'X1'), ('base', 'Z')]
    lv = [list(bases)]
    for d in range(2 if not thorough else 3):
        prev = [t for l in lv for t in l]
        small = prev if len(prev) <= 20 else prev[:20]
        new = [('bool', t) for t in prev if ('bool', t) not in prev]
        new += [('tuple', list(c)) for k in (2, 3) for c in itertools.product(small if k == 3 else prev[:60], repeat=k) if ('tuple', list(c)) not in prev]
        lv.append(new)
    types = [t for l in lv for t in l]
    bad, seen, cases = None, {}, 0
    try:
        it = Interp(db, on_call=on_call, max_steps=10 ** 9)
        for t in types:
            got = bytes(show(it, mk(t))).decode('utf-8', 'replace')
            cases += 1
            if got != ref(t) and bad is None:
                bad = 'the typification %s is reported as "%s"%s' % (ref(t), got, ': the same text as the different typification %s' % got if got in seen and seen[got] != t else '')
            seen.setdefault(got, t)
    except OutOfFragment as e:
        rule.broken('typification printing outside the evaluable fragment: %s' % e)
        return
    if bad:
        rule.violation('ToString', '%s:%d' % (ft.file, ft.line), bad)
    else:
        rule.ok('ToString:notation', '%d typifications printed in the conventional notation' % cases, '%s:%d' % (ft.file, ft.line))
        rule.ok('ToString:injective', '%d distinct texts for %d distinct typifications' % (len(seen), cases), '%s:%d' % (fb.file, fb.line))


def check(db, rep):
    rep.explanation = ('Reject => critical error as a whole-program loudness fixpoint over the auditors (every refusing return is reported or propagates a loud callee), '
                       'error positions rooted at the visited node, scope pairing, result plumbing and the constituent-kind tables. The typing rules themselves are not decided.')
    r1 = rep.rule('r1', 'LOUD-REJECT: every refusing return in the auditors is preceded by OnError or propagates the refusal of a loud callee', 100)
    loud_rule(db, rep, r1, AUDITORS, 'the expression is rejected with an empty error list')
    _rest(db, rep)


def loud_rule(db, rep, r1, classes, consequence, prefix='', defensive_variant_tests=False, extra_fns=()):
    defensive = []
    fns = {}
    for cls in classes:
        for f in db.methods_of(cls):
            if f.has_cfg():
                fns[f.name + '#' + f.mn] = f
    for f in extra_fns:
        if f.has_cfg():
            fns[f.name + '#' + f.mn] = f
    # visitor dispatch helpers count as "all Vi* of the class"
    status = {}    # key -> list of (ret node, kind, detail)
    loud = {k: True for k in fns}

    def is_dispatch(t):
        return t is not None and (t.sname.endswith('ASTVisitor::VisitChild') or t.sname.endswith('Cursor::DispatchVisit') or t.sname.endswith('ASTVisitor::VisitAllChildren'))
    changed = True
    details = {}
    dead_used = {}
    rounds = 0
    while changed and rounds < 10:
        rounds += 1
        changed = False
        for k, f in fns.items():
            sites = set(_onerr_sites(f))
            ok = True
            det = []
            succ, entry, _x = f.graph()
            blocked = {}
            for bid, c, t, fl in cond_edges(f):
                if t == fl:
                    continue
                end = (bid, len(f.blocks[bid]['el']))
                for pol, to in ((True, t), (False, fl)):
                    if to is None:
                        continue
                    if defensive_variant_tests:
                        # `!std::holds_alternative<X>(value)` on an evaluation result: a defensive test that type soundness makes unreachable
                        c0 = f.strip(c)
                        while c0 is not None and c0['k'] == 'BinaryOperator' and c0.get('op') in ('||', '&&'):
                            c0 = f.strip(f.children(c0)[-1])
                        c1, p1 = normalise_cond(f, c0, pol)
                        if c1 is not None and c1['k'] == 'CallExpr' and c1.get('cs') == 'std::holds_alternative' and p1 is False:
                            blocked[(end, (to, 0))] = (True, 'defensive variant test')
                            if f.loc(c1) not in defensive:
                                defensive.append(f.loc(c1))
                            continue
                    cal = _edge_callee(db, f, c, pol)
                    if cal is None:
                        continue
                    if is_dispatch(cal):
                        good = all(loud[k2] for k2, g in fns.items() if g.cls == f.cls and g.name.split('::')[-1].startswith('Vi'))
                        label = 'visitor dispatch'
                    else:
                        k2 = cal.name + '#' + cal.mn
                        label = cal.name.split('::')[-1]
                        if k2 in fns:
                            good = loud[k2]
                        elif cal.cls in (R + 'Auditor', R + 'Parser') or label in ('CheckType', 'Parse'):
                            good = True
                            label += ' (outside the auditors)'
                        else:
                            continue
                    blocked[(end, (to, 0))] = (good, label)
            for e, flag in _dead_edges(db, f, fns).items():
                blocked[e] = (True, 'infeasible: every caller tests !%s' % flag)
                dead_used[f.name.split('::')[-1]] = flag
            for p, r in _refusing(f):
                def search(block_all):
                    seen = set()
                    stack = [entry]
                    while stack:
                        q = stack.pop()
                        if q == p:
                            return True
                        if q in seen or q in sites:
                            continue
                        seen.add(q)
                        for nx in succ.get(q, []):
                            e = blocked.get((q, nx))
                            if e is not None and (e[0] or block_all):
                                continue
                            stack.append(nx)
                    return False
                hit = search(False)
                # which propagation edges lead straight to this return (for the report)
                labels = sorted({lab for (e0, e1), (good, lab) in blocked.items() if p in f.reach(e1) and not _passes_other_cond(f, e1, p)})
                if not hit:
                    if labels and paths_avoiding(f, [entry], list(sites), [(p, '')]):
                        det.append((r, 'propagated', ', '.join(labels)))
                    else:
                        det.append((r, 'reported', ''))
                    continue
                bad_labels = sorted({lab for (e0, e1), (good, lab) in blocked.items() if not good and p in f.reach(e1) and not _passes_other_cond(f, e1, p)})
                if bad_labels and not search(True):
                    det.append((r, 'cascade', 'propagates %s, which can refuse silently' % ', '.join(bad_labels)))
                else:
                    det.append((r, 'silent', 'a path reaches it with no OnError call and without testing the refusal of a callee'))
                ok = False
            details[k] = det
            if loud[k] != ok:
                loud[k] = ok
                changed = True
    # a function whose falsy result no caller propagates (and that is not a rule or an entry point) answers a question, it does not refuse
    propagated = set()
    tested = set()
    for k, f in fns.items():
        refusing = [p for p, r in _refusing(f)]
        for bid, c, t, fl in cond_edges(f):
            for pol, to in ((True, t), (False, fl)):
                cal = _edge_callee(db, f, c, pol) if to is not None else None
                if cal is not None:
                    tested.add(cal.name + '#' + cal.mn)
                if cal is not None and any(p in f.reach((to, 0)) and not _passes_other_cond(f, (to, 0), p) for p in refusing):
                    propagated.add(cal.name + '#' + cal.mn)
    n_ret = 0
    for k, f in sorted(fns.items()):
        short = f.name.split('::')[-1]
        if k in tested and k not in propagated and not (short.startswith('Vi') and short[2:3].isupper()) and f.rec.get('access') != 'public':
            continue
        seen_inst = {}
        for r, kind, why in sorted(details.get(k, []), key=lambda d: (d[0].get('line', 0), d[0].get('col', 0))):
            n_ret += 1
            inst = '%s::%s@%s' % ((f.cls or 'detail').split('::')[-1], f.name.split('::')[-1], (r.get('txt', '') + '|' + ' '.join(c.get('txt', '')[:40] for c, pol in sorted(dominating_guards(f, f.position_of(r)), key=lambda g: (g[0].get('line', 0), g[0].get('col', 0)))[-1:]))[:70])
            seen_inst[inst] = seen_inst.get(inst, 0) + 1
            if seen_inst[inst] > 1:
                inst += '#%d' % seen_inst[inst]
            if kind == 'cascade':
                r1.ok(inst, 'inherits: ' + why, f.loc(r), nontrivial=False)
            elif kind == 'silent':
                r1.violation(inst, f.loc(r), '`%s` refuses without a logged error (%s): %s' % (r.get('txt', ''), why, consequence))
            else:
                r1.ok(inst, kind + (': ' + why if why else ''), f.loc(r), nontrivial=(kind != 'reported'))
    rep.note(prefix + 'refusing_returns', n_ret)
    rep.note(prefix + 'infeasible_branches_proved_from_callers', dead_used)
    rep.note(prefix + 'methods', len(fns))
    if defensive_variant_tests:
        rep.note(prefix + 'defensive_variant_tests_assumed_unreachable', defensive)


def _rest(db, rep):
    fns = {}
    for cls in AUDITORS:
        for f in db.methods_of(cls):
            if f.has_cfg():
                fns[f.name + '#' + f.mn] = f

    # ------------------------------------------------------------------ r2
    r2 = rep.rule('r2', 'POSITION: the position of every reported error is derived from the visited node or a position parameter', 40)
    for k, f in sorted(fns.items()):
        if f.name.split('::')[-1] == 'OnError':
            continue
        for n in f.calls():
            if (n.get('cs') or '').split('::')[-1] != 'OnError' or len(n.get('args', [])) < 2:
                continue
            if f.cls.endswith('SchemaAuditor'):
                continue
            a = f.stmts[n['args'][1]]
            txt = a.get('txt', '')
            rooted = any(x['k'] == 'MemberExpr' and x.get('member') in ('pos', 'start', 'finish') for x in f.walk(a)) or any(x['k'] == 'DeclRefExpr' and x.get('dk') == 'param' for x in f.walk(a)) \
                or any(x['k'] == 'DeclRefExpr' and x.get('dk') == 'local' for x in f.walk(a))
            inst = '%s:%s@%d' % (f.name.split('::')[-1], f.strip(f.stmts[n['args'][0]]).get('name', '?'), n.get('line'))
            if rooted:
                r2.ok(inst, txt[:40], f.loc(n), nontrivial=False)
            else:
                r2.violation(inst, f.loc(n), 'error position `%s` is not derived from the node being checked: it may lie outside the expression' % txt[:40])

    # ------------------------------------------------------------------ r3
    r3 = rep.rule('r3', 'SCOPES: StartScope is matched by EndScope on every success path; declaration flags change only through CreateGuard', 5)
    TA = R + 'TypeAuditor'
    for f in db.methods_of(TA):
        if not f.has_cfg():
            continue
        st = call_sites(f, lambda n: n.get('cs') == TA + '::StartScope')
        if not st:
            continue
        en = [p for p, n in call_sites(f, lambda n: n.get('cs') == TA + '::EndScope')]
        exits = success_exits(f)
        bad = paths_avoiding(f, [p for p, _ in st], en, exits)
        inst = f.name.split('::')[-1]
        if bad or not en:
            r3.violation(inst, '%s:%d' % (f.file, f.line), 'a success path leaves the scope open: locals of this construct stay visible (and unused-variable warnings are lost)')
        else:
            # no child visit after the scope was closed
            visits = [p for p, n in call_sites(f, lambda n: (n.get('cs') or '').split('::')[-1] in ('VisitChild', 'ChildType', 'ChildTypeDebool', 'VisitChildDeclaration'))]
            late = [v for v in visits if any(v in f.reach(e) for e in en)]
            if late and not any(a['k'] in ('ForStmt', 'WhileStmt', 'DoStmt') for a in []):
                r3.violation(inst, '%s:%d' % (f.file, f.line), 'a child is visited after EndScope')
            else:
                r3.ok(inst, 'EndScope on every success path after the last child visit', '%s:%d' % (f.file, f.line))
    flags = ('isArgDeclaration', 'isLocalDeclaration', 'isFuncDeclaration', 'noWarnings')
    bad = []
    for f in db.methods_of(TA):
        for n in f.walk():
            if n['k'] in ('BinaryOperator', 'CXXOperatorCallExpr') and n.get('op') == '=':
                kids = f.children(n) if n['k'] == 'BinaryOperator' else [f.stmts[a] for a in n.get('args', [])]
                if kids and f.strip(kids[0]).get('member') in flags:
                    bad.append((f, n))
    if bad:
        r3.violation('flags', bad[0][0].loc(bad[0][1]), 'declaration-mode flag assigned directly (`%s`): an early return leaves it set for the rest of the check' % bad[0][1].get('txt', '')[:40])
    else:
        r3.ok('flags', 'changed only through CreateGuard()')

    # ------------------------------------------------------------------ r4
    r4 = rep.rule('r4', 'RESULTS: the declared argument list reported for a function definition is exactly the declared (name, domain type) pairs in order - the argument visitors and the scope functions interpreted on argument lists whose domains open and close scopes of their own', 1)
    declared_args_rule(db, r4)
    from rules import C07 as _C07
    _C07.reset_complete_rule(db, r4)         # the reported argument list is the one of the current definition: the record is reset completely before it is filled again

    # ------------------------------------------------------------------ r5
    r5 = rep.rule('r5', 'KINDS: CstType predicate tables partition the kinds consistently and CheckConstituenta enforces base/empty, callable/arguments, logical/typed', 4)
    _kinds(db, r5)

    r6 = rep.rule('r6', 'VALUE-RULES: every ValueAuditor rule, evaluated over all operand-class vectors, implements the value/property table', 30)
    value_rules(db, r6)

    r7 = rep.rule('r7', 'SCOPE-STATE: declaration, scope entry/exit and lookup of bound variables, evaluated over all variable states, follow the scope discipline', 4)
    scope_rules(db, r7)

    r8 = rep.rule('r8', 'TYPE-ALGEBRA: Merge is the least upper bound of the specificity order, AreCompatible its existence, CompareTemplated binds every radical to the least upper bound of its arguments', 3)
    type_algebra(db, r8)

    r10 = rep.rule('r10', 'REPORT-FAITHFUL: the text in which a typification is reported (EchelonTuple::ToString / EchelonBool::ToString, interpreted from their source on every typification of depth up to three) is the conventional notation - factors joined by the product sign with every factor that is itself a product in brackets, the power-set sign before a bracketed base or directly before another power set - so two different typifications are never reported with the same text', 2)
    _report_faithful(db, r10, rep.tier == 'thorough')
    r9 = rep.rule('r9', 'TYPING-RULES: each set-theoretic construct, evaluated over all operand-type vectors of a universe of typifications, accepts exactly the well-typed ones, reports the rule\'s type and blames the offending operand', 14)
    rep.note('typing_rule_cases', typing_rules(db, r9, rep.tier if hasattr(rep, 'tier') else 'quick'))
    recursion_typing(db, r9)


def _kinds(db, r5):
    S = 'ccl::semantic::'
    cst = {k: v for k, v in enum_values(db, S + 'CstType').items() if not k.endswith('_')}
    preds = {}
    try:
        for name in ('IsBasic', 'IsBaseSet', 'IsBaseNotion', 'IsCalculable', 'IsStatement', 'IsRSObject', 'IsCallable', 'IsLogical'):
            f = db.fn(S + name)
            preds[name] = {k for k, v in cst.items() if Interp(db).call(f, [v])}
    except OutOfFragment as e:
        r5.broken('CstType predicates outside the fragment: %s' % e)
        return
    want = {
        'IsBaseSet': {'base', 'constant'}, 'IsBaseNotion': {'base', 'constant', 'structured'}, 'IsBasic': {'base', 'constant', 'structured'},
        'IsCallable': {'function', 'predicate'}, 'IsStatement': {'axiom', 'theorem'}, 'IsLogical': {'axiom', 'theorem', 'predicate'},
        'IsRSObject': {'base', 'constant', 'structured', 'term'}, 'IsCalculable': {'axiom', 'term', 'theorem'},
    }
    bad = {k: sorted(v) for k, v in preds.items() if v != want[k]}
    if bad:
        r5.violation('predicate-tables', 'ccl/core/include/ccl/semantic/CstType.hpp', 'kind predicates differ from the definition of the eight constituent kinds: %s' % bad)
    else:
        r5.ok('predicate-tables', '8 predicates x 8 kinds')
    cc = db.fn(S + 'SchemaAuditor::CheckConstituenta')
    _check_constituenta_evaluated(db, r5, cc, cst)
    errs = [n for n in cc.calls() if (n.get('cs') or '').endswith('SchemaAuditor::OnError')]
    rets = [(p, r) for p, r in cc.return_sites() if cc.return_literal(r) == 'false']
    sites = [cc.position_of(n) for n in errs] + [p for p, n in call_sites(cc, lambda n: (n.get('cs') or '').endswith('Auditor::CheckType'))]
    silent = [r for p, r in rets if paths_avoiding(cc, [cc.graph()[1]], sites, [(p, '')])]
    if silent:
        r5.violation('CheckConstituenta:loud', cc.loc(silent[0]), 'a kind violation is refused without logging an error')
    else:
        r5.ok('CheckConstituenta:loud', 'every refusal is logged (or comes from the expression check)')


def _check_constituenta_evaluated(db, r5, cc, cst):
    """SchemaAuditor::CheckConstituenta interpreted from its source for every constituent kind, four definition texts (none, blank, blank with
    a tab and a line feed, an expression) and the four outcomes of the expression check (with / without declared arguments, typed / logical).
    Supplied: the expression check itself (it succeeds; the parsed declaration has a definition child exactly when the text after the
    definition sign is not blank - what the grammar does with blank text), the generator (alias, sign, definition) and the error sink.
    Required: base sets have no definition, every other kind has one that the parser sees, functions and predicates declare arguments and
    nothing else does, axioms / theorems / predicates are logical and nothing else is; every refusal logs an error."""
    from engine.evalmini import Obj, NOT_HANDLED
    S = 'ccl::semantic::'
    labels = {'base-empty': None, 'derived-defined': None, 'callable-args': None, 'logical-typed': None, 'loud-evaluated': None}
    n_cases = 0
    base = {'base', 'constant'}
    callable_ = {'function', 'predicate'}
    logical = {'axiom', 'theorem', 'predicate'}
    try:
        for kind, kv in sorted(cst.items()):
            for definition in (b'', b' ', b' \t\n', b'X1'):
                for has_args in (False, True):
                    for is_logic in (False, True):
                        log = []
                        blank = not definition.strip()
                        if blank and (has_args or is_logic):
                            continue                  # a declaration without a definition is typed ℬ(alias) and declares no arguments
                        ast = Obj(__kind__='ast', children=1 if blank else 2)

                        def on_call(it, fn, n, env, ast=ast, log=log, has_args=has_args, is_logic=is_logic):
                            cs = n.get('cs') or ''
                            last = cs.split('::')[-1]
                            Sx = fn.stmts
                            if last == 'GlobalDefinition':
                                a = [it.eval(fn, Sx[x], env) for x in n['args']]
                                return bytearray(bytes(a[0]) + b':==' + bytes(a[1]))
                            if last == 'Clear' and 'ErrorLogger' in cs:
                                return None
                            if last == 'CheckType' and 'Auditor' in cs:
                                return True
                            if last == 'GetDeclarationArgs':
                                return [Obj(name=b'a')] if has_args else []
                            if last == 'GetType' and 'Auditor' in cs:
                                return 'LOGIC' if is_logic else Obj(__kind__='typ')
                            if cs == 'std::holds_alternative' and n.get('args'):
                                v = it.eval(fn, Sx[n['args'][0]], env)
                                want_t = 'Typification' in (n.get('targs') or [''])[0]
                                return (v != 'LOGIC') == want_t
                            if last == 'AST' and ('Parser' in cs or 'Auditor' in cs):
                                return ast
                            if last == 'Root' and 'SyntaxTree' in cs:
                                return ast
                            if last == 'ChildrenCount':
                                return ast['children']
                            if last == 'OnError' and cs.startswith(S + 'SchemaAuditor'):
                                log.append(it.eval(fn, Sx[n['args'][0]], env))
                                return None
                            if cs == '__assert_fail':
                                return None
                            return NOT_HANDLED
                        this = Obj(__cls__=S + 'SchemaAuditor', prefixLen=0, auditor=Obj(isParsed=True, isTypeCorrect=True, isValueCorrect=True, parser=Obj(log=Obj(), syntax=0)))
                        got = bool(Interp(db, on_call=on_call, max_steps=200000).call(cc, [bytearray(b'A1'), bytearray(definition), kv], this))
                        n_cases += 1
                        show = '%s with the definition %r (%s arguments, %s result)' % (kind, definition.decode(), 'declared' if has_args else 'no', 'logical' if is_logic else 'typed')
                        if kind in base:
                            if definition == b'' and not has_args and not is_logic and not got:
                                labels['base-empty'] = labels['base-empty'] or 'a %s is refused' % show
                            if not blank and got:
                                labels['base-empty'] = labels['base-empty'] or 'a %s is accepted' % show
                        else:
                            if blank and got:
                                labels['derived-defined'] = labels['derived-defined'] or ('a %s is accepted: the parser reads the generated text `A1:==%s` as the declaration of a new base set, so the constituent is typed ℬ(A1) '
                                                                                     'and typifications are built over a name that is not a base set' % (show, definition.decode().replace('\n', '\\n').replace('\t', '\\t')))
                            if not blank:
                                want = ((kind in callable_) == has_args) and ((kind in logical) == is_logic)
                                if got != want:
                                    which = 'callable-args' if (kind in callable_) != has_args else 'logical-typed'
                                    labels[which] = labels[which] or 'a %s is %s' % (show, 'accepted' if got else 'refused')
                        if not got and not log:
                            labels['loud-evaluated'] = labels['loud-evaluated'] or 'a %s is refused without an error' % show
    except OutOfFragment as e:
        r5.broken('SchemaAuditor::CheckConstituenta outside the evaluable fragment: %s' % e)
        return
    for label, badmsg in labels.items():
        if badmsg:
            r5.violation('CheckConstituenta:' + label, '%s:%d' % (cc.file, cc.line), badmsg)
        else:
            r5.ok('CheckConstituenta:' + label, 'constraint enforced with an error on %d (kind, definition, outcome) cases' % n_cases)


# ---------------------------------------------------------------------------------------------------------------- value classes
# The value/property rules of RSLang as a table (kind, parameters). The source is evaluated over the finite domain {value, props}^n
# against it; the table is the reference confirmed by reading ValueAuditor on the pinned tree and the language description
# (a "property" set can only be tested for membership; anything that enumerates or compares a set needs a value).
VALUE_RULES = {
    'ViTuple': ('all_value', (1, 2, 3)), 'ViEnumeration': ('all_value', (1, 2, 3)), 'ViEquals': ('all_value', (2,)), 'ViRecursion': ('all_value', (3, 4)),
    'ViCard': ('child_value', 0, (1,)), 'ViBool': ('child_value', 0, (1,)), 'ViDebool': ('child_value', 0, (1,)), 'ViProjectSet': ('child_value', 0, (1,)),
    'ViProjectTuple': ('child_value', 0, (1,)), 'ViReduce': ('child_value', 0, (1,)), 'ViIterate': ('child_value', 1, (2,)), 'ViAssign': ('child_value', 1, (2,)),
    'ViArithmetic': ('const', 'value', (2,)), 'ViNegation': ('const', 'value', (1,)), 'ViLogicBinary': ('const', 'value', (2,)), 'ViIntegerPredicate': ('const', 'value', (2,)),
    'ViTupleDeclaration': ('const', 'value', (2, 3)), 'ViEnumDeclaration': ('const', 'value', (2, 3)), 'ViBoolean': ('const', 'props', (1,)),
    'ViFilter': ('last', (2, 3)), 'ViFunctionDefinition': ('last', (2,)), 'ViArgumentsEnum': ('last', (1, 2)), 'ViArgument': ('last', (2,)),
    'ViDecart': ('any_props', (2, 3)),
    'ViInteger': ('leaf', 'value'), 'ViIntegerSet': ('leaf', 'props'), 'ViEmptySet': ('leaf', 'value'), 'ViRadical': ('leaf', 'value'),
    'ViSetexprBinary': ('binary', {'UNION': 'and', 'SYMMINUS': 'and', 'INTERSECTION': 'or', 'SET_MINUS': 'first'}),
    'ViSetexprPredicate': ('predicate', {'IN': 'left', 'NOTIN': 'left', 'SUBSET_OR_EQ': 'left', 'SUBSET': 'all', 'NOTSUBSET': 'all'}),
    'ViQuantifier': ('quantifier',), 'ViDeclarative': ('declarative',), 'ViImperative': ('imperative', (2, 3)),
    'ViFunctionCall': ('call', (2, 3, 4)), 'ViGlobal': ('global',), 'ViLocal': ('local',), 'ViGlobalDeclaration': ('globaldecl',),
}


def _value_expect(name, classes, tok, func, in_props):
    """-> (ok, result, offending child or None, must-visit set)"""
    spec = VALUE_RULES[name]
    kind = spec[0]
    n = len(classes)
    allc = set(range(n))

    def first_props(order):
        for i in order:
            if classes[i] != 'value':
                return i
        return None
    if kind == 'all_value':
        b = first_props(range(n))
        return (b is None, 'value', b, allc if b is None else set())
    if kind == 'child_value':
        i = spec[1]
        return (classes[i] == 'value', 'value', None if classes[i] == 'value' else i, {i})
    if kind == 'const':
        return (True, spec[1], None, allc)
    if kind == 'last':
        return (True, classes[-1], None, allc)
    if kind == 'any_props':
        return (True, 'props' if 'props' in classes else 'value', None, allc)
    if kind == 'leaf':
        return (True, spec[1], None, set())
    if kind == 'binary':
        a, b = classes[0] == 'value', classes[1] == 'value'
        v = {'and': a and b, 'or': a or b, 'first': a}[spec[1][tok]]
        return (True, 'value' if v else 'props', None, allc)
    if kind == 'predicate':
        if spec[1][tok] == 'left':
            return (classes[0] == 'value', 'value', None if classes[0] == 'value' else 0, {0, 1} if classes[0] == 'value' else {0})
        b = first_props(range(n))
        return (b is None, 'value', b, allc if b is None else set())
    if kind == 'quantifier':
        return (classes[1] == 'value', classes[2], None if classes[1] == 'value' else 1, {1, 2} if classes[1] == 'value' else {1})
    if kind == 'declarative':
        return (True, classes[1], None, {1, 2})
    if kind == 'imperative':
        return (classes[0] == 'value', 'value', None if classes[0] == 'value' else 0, allc)
    if kind == 'call':
        if func == 'invalid':
            return (False, None, 'self', set())
        if all(c == 'value' for c in classes[1:]):
            return (True, func, None, allc - {0})
        return (True, ('BODY', tuple(classes[1:])), None, allc - {0})
    if kind == 'global':
        return (func != 'invalid', func, None if func != 'invalid' else 'self', set())
    if kind == 'local':
        return (True, 'props' if in_props else 'value', None, set())
    if kind == 'globaldecl':
        if tok == 'PUNC_STRUCT':
            return (True, 'value', None, {1})
        if n == 1:
            return (True, 'value', None, set())
        return (True, classes[1], None, {1})
    raise AnalysisBroken('value rule kind %s' % kind)


def _value_run(db, VC, TOK, f, classes, tok, func, in_props):
    from engine.evalmini import Obj, NOT_HANDLED
    log = []
    this = Obj(current=VC['invalid'], localProps=[b'a'] if in_props else [b'zz'])
    node = Obj(__kind__='cursor')
    inv = {v: k for k, v in VC.items()}

    def on_call(it, fn, n, env):
        cs = n.get('cs') or ''
        last = cs.split('::')[-1]
        S = fn.stmts
        if last == 'VisitChild':
            i = it.eval(fn, S[n['args'][1]], env)
            if not (0 <= i < len(classes)):
                log.append(('oob', i))
                return False
            log.append(('visit', i))
            this['current'] = VC[classes[i]]
            return True
        if last == 'VisitAllChildren':
            for i in range(len(classes)):
                log.append(('visit', i))
                this['current'] = VC[classes[i]]
            return True
        if last == 'ChildrenCount':
            return len(classes)
        if last == 'OnError':
            log.append(('error', it.eval(fn, S[n['args'][0]], env), it.eval(fn, S[n['args'][1]], env)))
            return None
        if last == 'RunCheckOnFunc':
            vals = it.eval(fn, S[n['args'][2]], env)
            this['current'] = ('BODY', tuple(inv.get(v, v) for v in vals))
            return True
        if n['k'] == 'CXXOperatorCallExpr' and n.get('op') == '()':
            t = S[n['args'][0]].get('t', '')
            if 'Cursor' in t:
                return Obj(__kind__='node', pos=Obj(start=('pos', it.eval(fn, S[n['args'][1]], env)), finish=0), data=Obj(__kind__='data'), id=0)
            if 'globalClass' in S[n['args'][0]].get('txt', ''):
                return VC[func]
        if n['k'] == 'CXXOperatorCallExpr' and n.get('op') == '->' and 'Cursor' in S[n['args'][0]].get('t', ''):
            return ('ptr', Obj(__kind__='node', pos=Obj(start=('pos', 'self'), finish=0), data=Obj(__kind__='data'), id=TOK.get(tok, 0)))
        if last == 'ToText':
            return b'a'
        if cs == '__gnu_cxx::operator==' or cs == '__gnu_cxx::operator!=':
            a, b = (it.eval(fn, S[x], env) for x in n['args'][:2])
            return (a == b) == (cs.endswith('=='))
        return NOT_HANDLED
    it = Interp(db, on_call=on_call)
    ok = it.call(f, [node], this)
    cur = this['current']
    return bool(ok), inv.get(cur, cur), log


def value_rules(db, rule):
    import itertools
    VC = enum_values(db, R + 'ValueClass')
    TOK = enum_values(db, R + 'TokenID')
    methods = {f.name.split('::')[-1]: f for f in db.methods_of(R + 'ValueAuditor') if f.name.split('::')[-1].startswith('Vi') and f.name.split('::')[-1][2:3].isupper() and f.has_cfg()}
    missing = sorted(set(methods) - set(VALUE_RULES))
    gone = sorted(set(VALUE_RULES) - set(methods))
    if missing or gone:
        rule.broken('the value-class rule table does not match the Vi* methods of ValueAuditor: unknown %s, vanished %s' % (missing, gone))
        return
    for name, f in sorted(methods.items()):
        spec = VALUE_RULES[name]
        kind = spec[0]
        toks = sorted(spec[1]) if kind in ('binary', 'predicate') else (['PUNC_STRUCT', 'PUNC_DEFINE'] if kind == 'globaldecl' else [None])
        arities = {'binary': (2,), 'predicate': (2,), 'quantifier': (3,), 'declarative': (3,), 'leaf': (0,), 'global': (0,), 'local': (0,), 'globaldecl': (1, 2)}.get(kind) or spec[-1]
        funcs = ('value', 'props', 'invalid') if kind in ('call', 'global') else ('value',)
        cases = 0
        bad = None
        for tok in toks:
            for n in arities:
                if kind == 'globaldecl' and tok == 'PUNC_STRUCT' and n != 2:
                    continue
                for classes in itertools.product(('value', 'props'), repeat=n):
                    for func in funcs:
                        for in_props in ((False, True) if kind == 'local' else (False,)):
                            cases += 1
                            try:
                                ok, cur, log = _value_run(db, VC, TOK, f, list(classes), tok, func, in_props)
                            except OutOfFragment as e:
                                rule.broken('%s outside the evaluable fragment: %s' % (name, e))
                                return
                            eok, eres, ebad, evisit = _value_expect(name, list(classes), tok, func, in_props)
                            visited = {x[1] for x in log if x[0] == 'visit'}
                            errs = [x for x in log if x[0] == 'error']
                            why = None
                            if ok != eok:
                                why = 'verdict %s, the rule gives %s' % (ok, eok)
                            elif ok and cur != eres:
                                why = 'class %s, the rule gives %s' % (cur, eres)
                            elif not ok and not errs:
                                why = 'refused without an error'
                            elif not ok and ebad is not None and errs[0][2] != ('pos', ebad):
                                why = 'error reported at %s, the offending operand is child %s' % (errs[0][2], ebad)
                            elif ok and errs:
                                why = 'accepted but reported an error'
                            elif ok and not evisit <= visited:
                                why = 'children %s are not audited' % sorted(evisit - visited)
                            elif any(x[0] == 'oob' for x in log):
                                why = 'visits a child that does not exist'
                            if why and bad is None:
                                bad = '%s(%s%s%s): %s' % (name, ', '.join(classes), (' ; ' + tok) if tok else '', (' ; callee class ' + func) if kind in ('call', 'global') else '', why)
        if bad:
            rule.violation(name, '%s:%d' % (f.file, f.line), 'value-class rule `%s` not implemented: %s' % (kind, bad))
        else:
            rule.ok(name, '%s over %d operand-class vectors' % (kind, cases), '%s:%d' % (f.file, f.line))


# ---------------------------------------------------------------------------------------------------------------- bound-variable scopes
def scope_rules(db, rule):
    """AddLocalVariable / StartScope / EndScope / GetLocalTypification evaluated over all (level, used, enabled, warnings) states against the
    scope discipline: shadowing is an error, reuse after the scope ended is a warning and behaves like a fresh declaration, a variable
    is visible exactly while its scope is open."""
    import itertools
    from engine.evalmini import Obj, NOT_HANDLED
    TA = R + 'TypeAuditor'
    EID = {v: k for k, v in enum_values(db, R + 'SemanticEID').items()}
    meths = {}
    for m in ('AddLocalVariable', 'StartScope', 'EndScope', 'GetLocalTypification'):
        c = [g for g in db.methods_of(TA) if g.name.endswith('::' + m) and g.has_cfg()]
        if len(c) != 1:
            rule.broken('anchor vanished: TypeAuditor::%s' % m)
            return
        meths[m] = c[0]

    def run(meth, this, args):
        log = []

        def on_call(it, fn, n, env):
            if (n.get('cs') or '').split('::')[-1] == 'OnError':
                log.append(EID.get(it.eval(fn, fn.stmts[n['args'][0]], env), '?'))
                return None
            return NOT_HANDLED
        r = Interp(db, on_call=on_call).call(meths[meth], args, this)
        return r, log

    def mk(level, use, en, name=b'a', typ='T0'):
        return Obj(arg=Obj(name=name, type=typ), level=level, useCount=use, enabled=en)

    def sig(v):
        return (v['arg']['name'], v['arg']['type'], v['level'], v['useCount'], v['enabled']) if isinstance(v, Obj) and 'arg' in v else ('?', v)

    def state(nowarn, argdecl, vars_):
        return Obj(localVars=vars_, noWarnings=Obj(value=nowarn, guardCounter=0), isArgDeclaration=Obj(value=argdecl, guardCounter=0), functionArgsID=[])
    levels = (-2, -1, 0, 1, 2)
    first = {}
    counts = {}

    def bad(inst, msg):
        first.setdefault(inst, msg)

    try:
        for level, use, en, nowarn, argdecl in itertools.product(levels, (0, 2), (False, True), (False, True), (False, True)):
            ctx = 'variable at level %d, used %d times, %s, warnings %s' % (level, use, 'visible' if en else 'out of scope', 'off' if nowarn else 'on')
            # ---- redeclaration / shadowing
            counts['AddLocalVariable'] = counts.get('AddLocalVariable', 0) + 2
            other = mk(1, 1, True, b'b', 'TB')
            th = state(nowarn, argdecl, [other, mk(level, use, en)])
            r, log = run('AddLocalVariable', th, [b'a', 'T1', 7])
            v = th['localVars'][1]
            if en:
                if r is not False or log != ['localShadowing']:
                    bad('AddLocalVariable', 'declaring a name that is still visible must be refused with localShadowing (%s): returned %s, errors %s' % (ctx, r, log))
                if (v['arg']['type'], v['level'], v['enabled']) != ('T0', level, True):
                    bad('AddLocalVariable', 'a refused declaration changed the visible variable (%s)' % ctx)
            else:
                if r is not True or log != ([] if nowarn else ['localDoubleDeclare']):
                    bad('AddLocalVariable', 're-declaring a name whose scope ended must succeed with the localDoubleDeclare warning (%s): returned %s, errors %s' % (ctx, r, log))
                elif (v['arg']['type'], v['level'], v['enabled']) != ('T1', 0, True):
                    bad('AddLocalVariable', 'a re-declared variable must start like a fresh one (new type, level 0, visible); got type %s, level %s, visible %s (%s)' % (v['arg']['type'], v['level'], v['enabled'], ctx))
            if len(th['localVars']) != 2 or sig(th['localVars'][0]) != sig(mk(1, 1, True, b'b', 'TB')):
                bad('AddLocalVariable', 'declaring `a` changed another variable or the number of variables (%s)' % ctx)
            # ---- fresh
            th = state(nowarn, argdecl, [mk(level, use, en)])
            r, log = run('AddLocalVariable', th, [b'c', 'T1', 7])
            if r is not True or log or len(th['localVars']) != 2 or sig(th['localVars'][1]) != sig(mk(0, 0, True, b'c', 'T1')) or sig(th['localVars'][0]) != sig(mk(level, use, en)):
                bad('AddLocalVariable', 'a fresh name must be appended as (type, level 0, unused, visible) leaving the others alone (%s): %s' % (ctx, [sig(x) for x in th['localVars']]))
            # (how declared arguments are collected is decided on the observable result by r4, not here)
            # ---- scopes
            counts['StartScope'] = counts.get('StartScope', 0) + 1
            th = state(nowarn, argdecl, [mk(level, use, en), mk(0, 1, True, b'b')])
            r, log = run('StartScope', th, [])
            if [(x['level'], x['enabled'], x['useCount']) for x in th['localVars']] != [(level + 1, en, use), (1, True, 1)] or log:
                bad('StartScope', 'opening a scope must raise the level of every variable by one and nothing else (%s)' % ctx)
            counts['EndScope'] = counts.get('EndScope', 0) + 1
            th = state(nowarn, argdecl, [mk(level, use, en), mk(1, 1, True, b'b')])
            r, log = run('EndScope', th, [9])
            closes = en and level - 1 < 0
            want = [(level - 1, en and not closes), (0, True)]
            if [(x['level'], x['enabled']) for x in th['localVars']] != want:
                bad('EndScope', 'closing a scope must lower every level by one and hide exactly the visible variables that drop below 0 (%s): got %s' % (ctx, [(x['level'], x['enabled']) for x in th['localVars']]))
            wantlog = ['localNotUsed'] if closes and use == 0 and not nowarn else []
            if log != wantlog:
                bad('EndScope', 'the unused-variable warning must be given exactly when an unused variable goes out of scope with warnings on (%s): got %s' % (ctx, log))
            # ---- lookup
            counts['GetLocalTypification'] = counts.get('GetLocalTypification', 0) + 2
            if not argdecl:
                th = state(nowarn, argdecl, [mk(level, use, en)])
                r, log = run('GetLocalTypification', th, [b'a', 3])
                if en:
                    if r != ('ptr', 'T0') or log or th['localVars'][0]['useCount'] != use + 1:
                        bad('GetLocalTypification', 'a visible variable must be found, typed and counted as used (%s): %s %s' % (ctx, r, log))
                elif r is not None or log != ['localOutOfScope']:
                    bad('GetLocalTypification', 'a variable whose scope ended must be refused with localOutOfScope (%s): %s %s' % (ctx, r, log))
                th = state(nowarn, argdecl, [mk(level, use, en)])
                r, log = run('GetLocalTypification', th, [b'zz', 3])
                if r is not None or log != ['localUndeclared']:
                    bad('GetLocalTypification', 'an undeclared name must be refused with localUndeclared: %s %s' % (r, log))
    except OutOfFragment as e:
        rule.broken('scope functions outside the evaluable fragment: %s' % e)
        return
    for m, f in meths.items():
        if m in first:
            rule.violation(m, '%s:%d' % (f.file, f.line), first[m])
        else:
            rule.ok(m, 'agrees with the scope discipline on %d states' % counts.get(m, 0), '%s:%d' % (f.file, f.line))


# ---------------------------------------------------------------------------------------------------------------- type algebra
# Typifications as ('e', name) | ('b', t) | ('t', (t1..tn)).  R0 is the any-type (type of the empty set's elements), Z the integers, C* constant
# sets (integers convert to them), X* nominal base sets, R1.. template radicals.
ANY, ZT = ('e', 'R0'), ('e', 'Z')


def _lub(a, b):
    """least upper bound in the specificity order (R0 below everything, Z below every constant set, structural otherwise); None if none exists"""
    if a == b:
        return a
    if a == ANY:
        return b
    if b == ANY:
        return a
    if a[0] != b[0]:
        return None
    if a[0] == 'e':
        if a == ZT and b[1].startswith('C'):
            return b
        if b == ZT and a[1].startswith('C'):
            return a
        return None
    if a[0] == 'b':
        x = _lub(a[1], b[1])
        return None if x is None else ('b', x)
    if len(a[1]) != len(b[1]):
        return None
    xs = [_lub(x, y) for x, y in zip(a[1], b[1])]
    return None if any(x is None for x in xs) else ('t', tuple(xs))


def _ref_templated(subs, arg, val):
    if arg == val:
        return True
    if arg[0] == 'e' and arg[1].startswith('R') and arg[1] != 'R0':
        if arg[1] not in subs:
            subs[arg[1]] = val
            return True
        m = _lub(subs[arg[1]], val)
        if m is None:
            return False
        subs[arg[1]] = m
        return True
    if val == ANY:
        # nothing is known about the argument: every template parameter inside the declared type that is not deduced yet is instantiated
        # by the unknown type (otherwise it stays un-instantiated in the result type of the call)
        def bind(t):
            if t[0] == 'e':
                if t[1].startswith('R') and t[1] != 'R0' and t[1] not in subs:
                    subs[t[1]] = ANY
            elif t[0] == 'b':
                bind(t[1])
            else:
                for x in t[1]:
                    bind(x)
        bind(arg)
        return True
    if arg[0] != val[0]:
        return False
    if arg[0] == 'e':
        return (arg == ZT and val[1].startswith('C')) or (val == ZT and arg[1].startswith('C'))
    if arg[0] == 'b':
        return _ref_templated(subs, arg[1], val[1])
    if len(arg[1]) != len(val[1]):
        return False
    return all(_ref_templated(subs, x, y) for x, y in zip(arg[1], val[1]))


def _show_t(t):
    if t is None:
        return 'none'
    if t[0] == 'e':
        return t[1]
    if t[0] == 'b':
        return 'B(%s)' % _show_t(t[1])
    return '(' + '*'.join(_show_t(x) for x in t[1]) + ')'


def type_hooks(db):
    from engine.evalmini import Obj, NOT_HANDLED
    ST = enum_values(db, R + 'StructureType')

    def T(v):
        return Obj(__kind__='typ', v=v)

    def kind(v):
        return {'e': 'basic', 'b': 'collection', 't': 'tuple'}[v[0]]

    def on_call(it, fn, n, env):
        cs = n.get('cs') or ''
        last = cs.split('::')[-1]
        S = fn.stmts

        def obj():
            o = it.eval(fn, S[n['obj']], env) if 'obj' in n else None
            if isinstance(o, tuple) and len(o) == 2 and o[0] == 'ptr':
                o = o[1]
            return o
        if cs.startswith((R + 'Typification::', R + 'Structured', R + 'operator')):
            if n['k'] == 'CXXOperatorCallExpr' and n.get('op') in ('==', '!='):
                a, b = (it.eval(fn, S[x], env) for x in n['args'][:2])
                if isinstance(a, Obj) and a.get('__kind__') == 'typ' and isinstance(b, Obj):
                    return (a['v'] == b['v']) == (n['op'] == '==')
            if last in ('ConstVisit', 'Visit') and 'obj' in n and n.get('args'):
                o = obj()
                vis = it.eval(fn, S[n['args'][0]], env)
                if isinstance(o, Obj) and o.get('__kind__') == 'typ':
                    def walk(t):
                        it.call_lambda(vis, [T(t)])
                        if t[0] == 'b':
                            walk(t[1])
                        elif t[0] == 't':
                            for c_ in t[1]:
                                walk(c_)
                    walk(o['v'])
                    return None
            if last == 'Integer':
                return T(ZT)
            if last == 'Tuple':
                comps = it.eval(fn, S[n['args'][0]], env)
                return T(comps[0]['v']) if len(comps) == 1 else T(('t', tuple(c['v'] for c in comps)))
            o = obj()
            if isinstance(o, Obj) and o.get('__kind__') == 'typ':
                v = o['v']
                if last == 'Structure':
                    return ST[kind(v)]
                if last == 'IsAnyType':
                    return v == ANY
                if last in ('IsElement', 'IsCollection', 'IsTuple'):
                    return kind(v) == {'IsElement': 'basic', 'IsCollection': 'collection', 'IsTuple': 'tuple'}[last]
                if last == 'E' and v[0] == 'e':
                    return Obj(baseID=v[1].encode())
                if last == 'B' and v[0] == 'b':
                    return Obj(__kind__='eb', v=v)
                if last == 'T' and v[0] == 't':
                    return Obj(__kind__='et', v=v)
                if last in ('E', 'B', 'T'):
                    raise OutOfFragment('unchecked %s() on a typification of another structure (%s) at %s' % (last, _show_t(v), fn.loc(n)))
                if last == 'ApplyBool':
                    return T(('b', v))
        if cs.startswith(R + 'EchelonBool::') and last == 'Base':
            return T(obj()['v'][1])
        if cs.startswith(R + 'EchelonTuple::'):
            o = obj()
            if last == 'Arity':
                return len(o['v'][1])
            if last == 'Component':
                i = it.eval(fn, S[n['args'][0]], env)
                if not 1 <= i <= len(o['v'][1]):
                    raise OutOfFragment('tuple component %s of %d at %s' % (i, len(o['v'][1]), fn.loc(n)))
                return T(o['v'][1][i - 1])
        if last == 'TraitsFor':
            t = it.eval(fn, S[n['args'][0]], env)['v']
            if t[0] != 'e':
                return None
            if t[1] == 'Z' or t[1].startswith('C'):
                return Obj(isIterable=False, isOrdered=True, isOperable=True, convertsFromInt=True)
            if t[1].startswith('X'):
                return Obj(isIterable=True, isOrdered=False, isOperable=False, convertsFromInt=False)
            return None
        return NOT_HANDLED
    return T, on_call


def _universe():
    X1, X2, C1, C2 = ('e', 'X1'), ('e', 'X2'), ('e', 'C1'), ('e', 'C2')
    atoms = [ANY, ZT, C1, C2, X1, X2]
    small = [ANY, ZT, C1, X1]
    u = list(atoms) + [('b', a) for a in atoms] + [('t', (a, b)) for a in small for b in small]
    u += [('b', ('b', ANY)), ('b', ('b', X1)), ('b', ('t', (X1, ANY))), ('b', ('t', (ANY, X1))), ('b', ('t', (X1, X1))), ('b', ('t', (ZT, C1))),
          ('t', (X1, ANY, ZT)), ('t', (X1, X1, C1)), ('t', (('t', (ANY, X1)), ZT)), ('t', (('t', (X1, ANY)), C1)),
          ('t', (('b', ANY), ('b', X1))), ('t', (('b', X1), ('b', ANY))), ('t', (('b', ANY), X1)), ('t', (ANY, ('b', ANY))), ('t', (X1, ('b', X1)))]
    return u


def radical_names(db, rule):
    """IsRadical (the test CompareTemplated / MangleRadicals / BindFreeRadicals use to find the template parameters of a declared type)
    interpreted on names: every R<digits> the lexers read as a radical is a template parameter, except the one name reserved for the any
    type. A parameter the test does not recognise is never instantiated: the call is refused, or the parameter leaks into the reported type."""
    f = next((g for g in db.functions if g.name.endswith('::IsRadical') and g.body >= 0 and g.name.startswith(R)), None)
    if f is None:
        rule.broken('anchor vanished: IsRadical')
        return
    anyname = 'R0'
    names = ['R0', 'R1', 'R2', 'R9', 'R10', 'R01', 'R02', 'R00', 'R007', 'R100', 'X1', 'C1', 'D1', 'Z', 'r1']
    bad = None
    try:
        for nm in names:
            got = bool(Interp(db, max_steps=20000).call(f, [bytearray(nm.encode())]))
            want = nm[0] == 'R' and nm[1:].isdigit() and nm != anyname
            if got != want and bad is None:
                bad = ('%s is %s as a template parameter; the lexers read every R<number> as a radical and only %s is the any type: [α∈%s] {α} is VERIFIED with the argument type %s, and every call of it is refused '
                       '(or reports a type that still contains %s)' % (nm, 'taken' if got else 'not taken', anyname, nm, nm, nm)) if want else '%s is taken as a template parameter' % nm
    except OutOfFragment as e:
        rule.broken('IsRadical outside the evaluable fragment: %s' % e)
        return
    if bad:
        rule.violation('IsRadical', '%s:%d' % (f.file, f.line), bad)
    else:
        rule.ok('IsRadical', '%d names: a template parameter iff R<number> other than the reserved %s' % (len(names), anyname), '%s:%d' % (f.file, f.line))


def type_algebra(db, rule):
    from engine.evalmini import Obj
    TE = R + 'details::TypeEnv'
    T, on_call = type_hooks(db)
    radical_names(db, rule)

    def pick(name, nparams):
        c = [g for g in db.methods_of(TE) if g.name.endswith('::' + name) and len(g.rec['params']) == nparams and g.has_cfg()
             and 'variant' not in g.rec['params'][-1]['type'] and 'ExpressionType' not in g.rec['params'][-1]['type']]
        if len(c) != 1:
            raise AnalysisBroken('anchor vanished: TypeEnv::%s/%d' % (name, nparams))
        return c[0]
    merge, compat, cmpt = pick('Merge', 2), pick('AreCompatible', 2), pick('CompareTemplated', 3)
    this = Obj(context=Obj())
    U = _universe()
    bad = {}
    n_pairs = 0
    try:
        for a in U:
            for b in U:
                n_pairs += 1
                want = _lub(a, b)
                it = Interp(db, on_call=on_call, max_steps=400000)
                got = it.call(merge, [T(a), T(b)], this)
                gotv = got['v'] if isinstance(got, Obj) else None
                if gotv != want:
                    bad.setdefault('Merge', 'Merge(%s, %s) = %s; the most specific common type is %s' % (_show_t(a), _show_t(b), _show_t(gotv), _show_t(want)))
                c = Interp(db, on_call=on_call, max_steps=400000).call(compat, [T(a), T(b)], this)
                if bool(c) != (want is not None):
                    bad.setdefault('AreCompatible', 'AreCompatible(%s, %s) = %s although a common type %s' % (_show_t(a), _show_t(b), c, 'exists (%s)' % _show_t(want) if want else 'does not exist'))
        R1, R2, X1 = ('e', 'R1'), ('e', 'R2'), ('e', 'X1')
        ARGS = [R1, ('b', R1), ('t', (R1, R1)), ('t', (R1, ('b', R1))), ('b', ('t', (R1, R2))), ('t', (R1, R2, R1)), ('t', (X1, R1)), ZT, ('t', (('b', R1), R1)), ('t', (('b', R1), ('b', R1))), ('t', (('t', (R1, X1)), R1))]
        n_t = 0
        for arg in ARGS:
            for val in U:
                n_t += 1
                ws, gs = {}, {}
                want = _ref_templated(ws, arg, val)
                got = Interp(db, on_call=on_call, max_steps=400000).call(cmpt, [gs, T(arg), T(val)], this)
                gsv = {k.decode(): v['v'] for k, v in gs.items()}
                if bool(got) != want:
                    bad.setdefault('CompareTemplated', 'parameter %s against argument %s: %s, expected %s' % (_show_t(arg), _show_t(val), got, want))
                elif want and gsv != ws:
                    bad.setdefault('CompareTemplated', 'parameter %s against argument %s binds %s; the most specific common instantiation is %s' % (
                        _show_t(arg), _show_t(val), {k: _show_t(v) for k, v in gsv.items()}, {k: _show_t(v) for k, v in ws.items()}))
    except OutOfFragment as e:
        rule.broken('type algebra outside the evaluable fragment: %s' % e)
        return
    for name, f, cnt in (('Merge', merge, n_pairs), ('AreCompatible', compat, n_pairs), ('CompareTemplated', cmpt, n_t)):
        if name in bad:
            rule.violation(name, '%s:%d' % (f.file, f.line), bad[name])
        else:
            rule.ok(name, 'agrees with the specificity order on %d type pairs' % cnt, '%s:%d' % (f.file, f.line))


# ---------------------------------------------------------------------------------------------------------------- typing rules
# The typing rules of the set-theoretic constructs as a reference over type terms (D = debool: the element type of a set type; lub = most
# specific common type; EMPTY = B(R0) the type of the empty set).  ('ok', type) | ('ok', 'LOGIC') | ('err', index of the operand reported).
EMPTY = ('b', ANY)


def _D(t):
    if t == ANY:
        return ANY
    return t[1] if t[0] == 'b' else None


def _tuple(ts):
    return ts[0] if len(ts) == 1 else ('t', tuple(ts))


def _arith(t):
    # an operand of unknown type (an element of the empty set) is merged with the other operand, as in every other rule
    return t == ANY or (t[0] == 'e' and (t == ZT or t[1].startswith('C')))


def _ref_rule(name, tok, ts, idx):
    """expected verdict of TypeAuditor::<name> for operand types ts (idx: projection/filter indices)"""
    if name == 'ViSetexprBinary':
        a, b = _D(ts[0]), _D(ts[1])
        if a is None:
            return ('err', 0)
        if b is None:
            return ('err', 1)
        m = _lub(a, b)
        return ('ok', ('b', m)) if m is not None else ('err', 1)
    if name == 'ViDecart':
        ds = []
        for i, t in enumerate(ts):
            d = _D(t)
            if d is None:
                return ('err', i)
            ds.append(d)
        return ('ok', ('b', _tuple(ds)))
    if name == 'ViBoolean':
        d = _D(ts[0])
        return ('ok', ('b', ('b', d))) if d is not None else ('err', 0)
    if name == 'ViTuple':
        return ('ok', _tuple(list(ts)))
    if name in ('ViEnumeration', 'ViBool'):
        m = ts[0]
        for i, t in enumerate(ts[1:], 1):
            m = _lub(m, t)
            if m is None:
                return ('err', i)
        return ('ok', ('b', m))
    if name == 'ViDebool':
        d = _D(ts[0])
        return ('ok', d) if d is not None else ('err', 0)
    if name == 'ViCard':
        return ('ok', ZT) if _D(ts[0]) is not None else ('err', 0)
    if name == 'ViReduce':
        a = ts[0]
        if a == ANY or a == EMPTY:
            return ('ok', EMPTY)
        if a[0] == 'b' and a[1][0] == 'b':
            return ('ok', a[1])
        return ('err', 0)
    if name == 'ViProjectSet':
        d = _D(ts[0])
        if d is None:
            return ('err', 0)
        if d == ANY:
            return ('ok', EMPTY) if all(i >= 1 for i in idx) else ('err', 0)      # index 0 selects a component of no tuple, whatever the unknown type is
        if d[0] != 't' or any(not (1 <= i <= len(d[1])) for i in idx):
            return ('err', 0)
        return ('ok', ('b', _tuple([d[1][i - 1] for i in idx])))
    if name == 'ViProjectTuple':
        a = ts[0]
        if a == ANY:
            return ('ok', ANY) if all(i >= 1 for i in idx) else ('err', 0)
        if a[0] != 't' or any(not (1 <= i <= len(a[1])) for i in idx):
            return ('err', 0)
        return ('ok', _tuple([a[1][i - 1] for i in idx]))
    if name == 'ViArithmetic':
        for i in (0, 1):
            if not _arith(ts[i]):
                return ('err', i)
        m = _lub(ts[0], ts[1])
        return ('ok', m) if m is not None else ('err', 1)
    if name == 'ViIntegerPredicate':
        for i in (0, 1):
            if not _arith(ts[i]):
                return ('err', i)
        return ('ok', 'LOGIC') if _lub(ts[0], ts[1]) is not None else ('err', 1)
    if name == 'ViEquals':
        return ('ok', 'LOGIC') if _lub(ts[0], ts[1]) is not None else ('err', 1)
    if name == 'ViSetexprPredicate':
        d = _D(ts[1])
        if d is None:
            return ('err', 1)
        right = ('b', d) if tok in ('SUBSET', 'SUBSET_OR_EQ', 'NOTSUBSET') else d
        return ('ok', 'LOGIC') if _lub(ts[0], right) is not None else ('err', 1)
    if name == 'ViFilter':
        arg = ts[-1]
        params = ts[:-1]
        tuple_param = len(idx) == len(params)
        if not tuple_param and len(ts) > 2:
            return ('err', 'self')
        if arg == ANY or arg == EMPTY:
            offending = set()                         # several operands can offend at once: the error may name any of them
            if any(i < 1 for i in idx):
                offending.add(len(ts) - 1)            # no tuple has a component 0
            if tuple_param:
                for i, p in enumerate(params):        # the components are unknown, but a filter parameter is a set in any case
                    if p[0] != 'b':                   # as on the typed path: a parameter of unknown type is not accepted either
                        offending.add(i)
            else:                                     # one parameter for several indices: a set of tuples of that many components
                p = params[0]
                if p[0] != 'b' or _lub(('b', ('t', tuple(ANY for _ in idx))), p) is None:
                    offending.add(0)
            return ('err', frozenset(offending)) if offending else ('ok', EMPTY)
        if arg[0] != 'b' or arg[1][0] != 't' or any(not (1 <= i <= len(arg[1][1])) for i in idx):
            return ('err', len(ts) - 1)
        bases = [arg[1][1][i - 1] for i in idx]
        if tuple_param:
            for i, p in enumerate(params):
                if p[0] != 'b' or _lub(bases[i], p[1]) is None:
                    return ('err', i)
        else:
            p = params[0]
            if p[0] != 'b' or _lub(('b', _tuple(bases)), p) is None:
                return ('err', 0)
        return ('ok', arg)
    if name == 'ViTupleDeclaration':
        t, k = ts[0], idx[0]
        if t == ANY:
            return ('ok', ANY)                        # nothing is known about the element: neither are its components (as pr_i of it)
        if t[0] == 't' and len(t[1]) == k:
            return ('ok', t)
        return ('err', 0)
    raise AnalysisBroken('no reference rule for %s' % name)


TYPING_CASES = [   # (method, token kinds it is dispatched for, operand counts, index lists)
    ('ViSetexprBinary', ['UNION', 'INTERSECTION', 'SET_MINUS', 'SYMMINUS'], (2,), [None]),
    ('ViDecart', ['DECART'], (2, 3), [None]),
    ('ViBoolean', ['BOOLEAN'], (1,), [None]),
    ('ViTuple', ['NT_TUPLE'], (2, 3), [None]),
    ('ViEnumeration', ['NT_ENUMERATION'], (1, 2, 3), [None]),
    ('ViBool', ['BOOL'], (1,), [None]),
    ('ViDebool', ['DEBOOL'], (1,), [None]),
    ('ViCard', ['CARD'], (1,), [None]),
    ('ViReduce', ['REDUCE'], (1,), [None]),
    ('ViProjectSet', ['BIGPR'], (1,), [[1], [2], [3], [1, 2], [2, 1], [1, 3], [0], [1, 0]]),
    ('ViProjectTuple', ['SMALLPR'], (1,), [[1], [2], [3], [1, 2], [2, 1], [0], [0, 1]]),
    ('ViArithmetic', ['PLUS', 'MINUS', 'MULTIPLY'], (2,), [None]),
    ('ViIntegerPredicate', ['GREATER', 'LESSER', 'GREATER_OR_EQ', 'LESSER_OR_EQ'], (2,), [None]),
    ('ViEquals', ['EQUAL', 'NOTEQUAL'], (2,), [None]),
    ('ViSetexprPredicate', ['IN', 'NOTIN', 'SUBSET', 'SUBSET_OR_EQ', 'NOTSUBSET'], (2,), [None]),
    ('ViFilter', ['FILTER'], (2, 3), [[1], [2], [1, 2], [2, 1], [3], [0]]),
    ('ViTupleDeclaration', ['NT_TUPLE_DECL'], (1,), [[2], [3]]),      # the "index" is the number of variables of the binder; the operand is the type of the bound element
]


def _small_universe():
    X1, X2, C1 = ('e', 'X1'), ('e', 'X2'), ('e', 'C1')
    B = lambda t: ('b', t)
    P = lambda *ts: ('t', tuple(ts))
    return [ANY, ZT, C1, X1, X2, B(ANY), B(ZT), B(C1), B(X1), B(X2), B(B(X1)), B(B(ANY)), P(X1, X2), P(X1, ANY), P(ZT, C1), B(P(X1, X2)), B(P(X1, ANY)), B(P(ANY, X2)),
            B(B(P(X1, X2))), P(P(X1, X2), ZT), B(P(P(X1, X2), ZT)), B(P(X1, X2, ZT)), P(B(X1), B(X2))]


def _at(got, want):
    return got in want if isinstance(want, frozenset) else got == want


def typing_rules(db, rule, tier='quick'):
    import itertools
    from engine.evalmini import Obj, NOT_HANDLED
    T, base_hook = type_hooks(db)
    TA = R + 'TypeAuditor'
    TOK = enum_values(db, R + 'TokenID')
    EID = {v: k for k, v in enum_values(db, R + 'SemanticEID').items()}
    methods = {f.name.split('::')[-1]: f for f in db.methods_of(TA) if f.has_cfg() and [p for p in f.rec['params'] if 'Cursor' in p['type']]}
    U = _universe() if tier == 'thorough' else _small_universe()
    U3 = _small_universe()[:10]

    def run(f, tok, ts, idx):
        log = []
        this = Obj(currentType=None, env=Obj(context=Obj()), noWarnings=Obj(value=False, guardCounter=0), reporter=None)
        binder = f.name.endswith('::ViTupleDeclaration')
        if binder:
            this['currentType'] = T(ts[0])
            this['isLocalDeclaration'] = Obj(value=True, guardCounter=1)
            this['isFuncDeclaration'] = Obj(value=False, guardCounter=0)
        visited.clear()

        def on_call(it, fn, n, env):
            cs = n.get('cs') or ''
            last = cs.split('::')[-1]
            S = fn.stmts
            if last == 'ChildType' and cs.startswith(TA) and len(n.get('args', [])) == 2:
                i = it.eval(fn, S[n['args'][1]], env)
                if not (0 <= i < len(ts)):
                    raise OutOfFragment('child %s of %d' % (i, len(ts)))
                if ts[i] == 'FAILS':
                    return None                      # the child is ill-typed: its own visit failed (and logged)
                v = T(ts[i])
                this['currentType'] = v
                return v
            if last == 'OnError' and cs.startswith(TA):
                args = [it.eval(fn, S[a], env) for a in n['args'][:2]]
                log.append((EID.get(args[0], args[0]), args[1]))
                return None
            if cs == '__assert_fail':
                return None                           # release semantics: asserts are compiled out
            if last == 'ChildrenCount':
                return idx[0] if binder else len(ts)
            if last == 'VisitChild' and binder:
                c_ = this['currentType']
                visited.append(c_['v'] if isinstance(c_, Obj) and c_.get('__kind__') == 'typ' else c_)
                return True
            if last == 'SetCurrent' and cs.startswith(TA):
                v = it.eval(fn, S[n['args'][0]], env)
                this['currentType'] = v
                return True
            if n['k'] == 'CXXOperatorCallExpr' and n.get('op') == '()' and 'Cursor' in S[n['args'][0]].get('t', ''):
                return Obj(pos=Obj(start=1000 * (it.eval(fn, S[n['args'][1]], env) + 1), finish=0), id=0, data=Obj())
            if n['k'] == 'CXXOperatorCallExpr' and n.get('op') == '->' and 'Cursor' in S[n['args'][0]].get('t', ''):
                return ('ptr', Obj(pos=Obj(start=0, finish=0), id=TOK[tok], data=Obj(__kind__='data')))
            if cs in ('std::holds_alternative', 'std::get') and n.get('args'):
                v = it.eval(fn, S[n['args'][0]], env)
                is_t = isinstance(v, Obj) and v.get('__kind__') == 'typ'
                want_t = 'Typification' in (n.get('targs') or [''])[0]
                if cs == 'std::holds_alternative':
                    return is_t if want_t else v == 'LOGIC'
                if is_t != want_t:
                    raise OutOfFragment('std::get on the wrong alternative (bad_variant_access) at %s' % fn.loc(n))
                return v
            if last == 'ToTuple':
                return list(idx or [])
            if last in ('ToString',) and not cs.startswith('std::'):
                return b'?'
            if cs.endswith('LogicT::LogicT') or (n['k'] in ('CXXConstructExpr', 'CXXTemporaryObjectExpr', 'InitListExpr') and n.get('t', '').endswith('LogicT')):
                return 'LOGIC'
            if cs.startswith(R + 'Typification::') or cs.startswith(R + 'Structured') or cs.startswith(R + 'Echelon'):
                if last == 'EmptySet':
                    return T(EMPTY)
                if last in ('Bool', 'ApplyBool') and 'obj' in n:
                    o = it.eval(fn, S[n['obj']], env)
                    if isinstance(o, tuple) and len(o) == 2 and o[0] == 'ptr':
                        o = o[1]
                    if isinstance(o, Obj) and o.get('__kind__') == 'typ':
                        if last == 'Bool':
                            return T(('b', o['v']))
                        o['v'] = ('b', o['v'])
                        return o
                if n['k'] in ('CXXConstructExpr', 'CXXTemporaryObjectExpr') and n.get('args'):
                    a = it.eval(fn, S[n['args'][0]], env)      # copy / move of a typification
                    if isinstance(a, Obj) and a.get('__kind__') == 'typ':
                        return T(a['v'])
            r = base_hook(it, fn, n, env)
            return r
        it = Interp(db, on_call=on_call, max_steps=400000)
        ok = it.call(f, [Obj(__kind__='cursor')], this)
        cur = this['currentType']
        if isinstance(cur, Obj) and cur.get('__kind__') == 'typ':
            cur = cur['v']
        elif cur is not None:
            cur = 'LOGIC'          # the only other alternative of ExpressionType (LogicT{} evaluates to an empty aggregate)
        return bool(ok), cur, log

    def show(x):
        return 'LOGIC' if x == 'LOGIC' else _show_t(x)
    visited = []
    total = 0
    for name, toks, arities, idxs in TYPING_CASES:
        f = methods.get(name)
        if f is None:
            rule.broken('anchor vanished: TypeAuditor::%s' % name)
            continue
        bad = None
        cases = 0
        try:
            for tok in (toks if name == 'ViSetexprPredicate' else toks[:1]):
                for n_ops in arities:
                    pool = U if n_ops <= 2 else U3
                    for ts in itertools.product(pool, repeat=n_ops):
                        for idx in idxs:
                            cases += 1
                            want = _ref_rule(name, tok, list(ts), idx)
                            ok, cur, log = run(f, tok, list(ts), idx)
                            desc = '%s(%s)%s' % (tok, ', '.join(_show_t(t) for t in ts), (' indices %s' % idx) if idx else '')
                            if want[0] == 'ok':
                                if not ok:
                                    bad = bad or '%s is well-typed (%s) but is rejected with %s' % (desc, show(want[1]), [e for e, _ in log])
                                elif cur != want[1]:
                                    bad = bad or '%s is given type %s; the typing rule gives %s' % (desc, show(cur), show(want[1]))
                                elif log:
                                    bad = bad or '%s is accepted but an error was logged: %s' % (desc, log)
                                elif name == 'ViTupleDeclaration':
                                    comps = [ANY] * idx[0] if ts[0] == ANY else list(ts[0][1])
                                    if visited != comps:
                                        bad = bad or '%s declares its variables with the types %s; the components are %s' % (desc, [show(x) for x in visited], [show(x) for x in comps])
                            else:
                                if ok:
                                    bad = bad or '%s is ill-typed but is accepted with type %s' % (desc, show(cur))
                                elif not log:
                                    bad = bad or '%s is rejected without an error' % desc
                                elif isinstance(log[0][1], int) and not _at(('self' if log[0][1] < 1000 else log[0][1] // 1000 - 1), want[1]):
                                    bad = bad or '%s: the error is reported at %s, the offending operand is child %s' % (desc, 'the construct itself' if log[0][1] < 1000 else 'child %d' % (log[0][1] // 1000 - 1), want[1])
                            if bad:
                                break
                        if bad:
                            break
                    if bad:
                        break
                if bad:
                    break
            # an ill-typed operand makes the construct ill-typed, whatever the other operands are (in particular when one of them is the
            # empty set / any-type, for which several rules return early)
            if not bad and name != 'ViTupleDeclaration':
                others = [EMPTY, ANY, ('b', ('t', (('e', 'X1'), ('e', 'X2')))), ('b', ('e', 'X1'))]
                for tok in toks[:1]:
                    for n_ops in arities:
                        for j in range(n_ops):
                            for rest in itertools.product(others, repeat=n_ops - 1):
                                ts = list(rest[:j]) + ['FAILS'] + list(rest[j:])
                                for idx in idxs[:2]:
                                    cases += 1
                                    ok, cur, log = run(f, tok, ts, idx)
                                    if ok and not bad:
                                        bad = '%s(%s)%s is accepted with type %s although operand %d has no type: the operand is never visited on this path, so nothing it contains (an undeclared name, x∈x) is checked' % (
                                            tok, ', '.join('<ill-typed>' if t == 'FAILS' else _show_t(t) for t in ts), (' indices %s' % idx) if idx else '', show(cur), j)
        except OutOfFragment as e:
            if str(e).startswith(('tuple component', 'unchecked', 'std::get on the wrong alternative')):
                rule.violation(name, '%s:%d' % (f.file, f.line), 'the rule faults instead of rejecting: %s (an exception or invalid access escapes the type check)' % e)
            else:
                rule.broken('TypeAuditor::%s outside the evaluable fragment: %s' % (name, e))
            continue
        total += cases
        if bad:
            rule.violation(name, '%s:%d' % (f.file, f.line), bad)
        else:
            rule.ok(name, 'agrees with the typing rule on %d operand-type vectors' % cases, '%s:%d' % (f.file, f.line))
    return total


def recursion_typing(db, rule):
    """TypeAuditor::ViRecursion evaluated with the step's type given as a function of the declared type of the variable: the reported type is the
    fixed point of the step's type starting from step(T(init)) (at most typeDeductionDepth rounds), the first step must be compatible with the
    initial value, and the variable is declared with the type of the current iterate in every round."""
    import itertools
    from engine.evalmini import Obj, NOT_HANDLED
    T, base_hook = type_hooks(db)
    TA = R + 'TypeAuditor'
    TOK = enum_values(db, R + 'TokenID')
    EID = {v: k for k, v in enum_values(db, R + 'SemanticEID').items()}
    f = db.fn(TA + '::ViRecursion', required=False)
    if f is None:
        rule.broken('anchor vanished: TypeAuditor::ViRecursion')
        return
    X1, Z = ('e', 'X1'), ZT
    B = lambda t: ('b', t)
    chain = [B(ANY), B(X1), B(B(X1)), X1, B(Z), B(('e', 'C1'))]
    bad, cases = None, 0
    try:
        for kind in ('NT_RECURSIVE_SHORT', 'NT_RECURSIVE_FULL'):
            idx = 3 if kind == 'NT_RECURSIVE_FULL' else 2
            for init in chain[:3] + chain[4:]:
                for step in itertools.product(chain, repeat=3):
                    table = dict(zip(chain[:3], step))
                    tab = lambda t: table.get(t, t)
                    cases += 1
                    log, declared = [], []
                    this = Obj(currentType=None, env=Obj(context=Obj()), noWarnings=Obj(value=False, guardCounter=0), reporter=None, localVars=[])

                    def on_call(it, fn, n, env):
                        cs = n.get('cs') or ''
                        last = cs.split('::')[-1]
                        S = fn.stmts
                        if last == 'VisitChild' and 'ASTVisitor' in cs:
                            return True
                        if cs.startswith(TA + '::'):
                            if last == 'ChildType':
                                k = it.eval(fn, S[n['args'][1]], env)
                                if k == 1:
                                    return T(init)
                                if k == idx:
                                    if not declared:
                                        raise OutOfFragment('the step is typed before the variable is declared')
                                    return T(tab(declared[-1]))
                                raise OutOfFragment('ChildType(%s) in a %s node' % (k, kind))
                            if last == 'VisitChildDeclaration':
                                t = it.eval(fn, S[n['args'][2]], env)
                                declared.append(t['v'])
                                return True
                            if last in ('StartScope', 'EndScope', 'ClearLocalVariables'):
                                return None
                            if last == 'OnError':
                                log.append(EID.get(it.eval(fn, S[n['args'][0]], env), '?'))
                                return None
                            if last == 'SetCurrent':
                                this['currentType'] = it.eval(fn, S[n['args'][0]], env)
                                return True
                        if cs in ('std::holds_alternative', 'std::get') and n.get('args'):
                            v = it.eval(fn, S[n['args'][0]], env)
                            is_t = isinstance(v, Obj) and v.get('__kind__') == 'typ'
                            if cs == 'std::holds_alternative':
                                return is_t == ('Typification' in (n.get('targs') or [''])[0])
                            return v
                        if n['k'] == 'CXXOperatorCallExpr' and n.get('op') == '()' and 'Cursor' in S[n['args'][0]].get('t', ''):
                            return Obj(pos=Obj(start=0, finish=0), id=0, data=Obj())
                        if n['k'] == 'CXXOperatorCallExpr' and n.get('op') == '->' and 'Cursor' in S[n['args'][0]].get('t', ''):
                            return ('ptr', Obj(pos=Obj(start=0, finish=0), id=TOK[kind], data=Obj()))
                        if last == 'CreateGuard':
                            return Obj(__kind__='guard')
                        if n['k'] in ('CXXConstructExpr', 'CXXTemporaryObjectExpr') and n.get('args') and (n.get('cls') or '').endswith(('Typification', 'optional')):
                            a = it.eval(fn, S[n['args'][0]], env)
                            if isinstance(a, Obj) and a.get('__kind__') == 'typ':
                                return T(a['v'])
                            return a
                        return base_hook(it, fn, n, env)
                    ok = Interp(db, on_call=on_call, max_steps=200000).call(f, [Obj(__kind__='cursor')], this)
                    cur = this['currentType']['v'] if isinstance(this['currentType'], Obj) and 'v' in this['currentType'] else None
                    # reference
                    # the variable holds the initial value before the first round and the result can be the initial value itself, so the type
                    # of variable and result is the least type covering the initial value and the step: the fixed point of T = lub(step(T), init)
                    below = lambda x, y: _lub(x, y) == y
                    dom = list(table) + [init]
                    if not all(below(tab(x), tab(y)) for x in dom for y in dom if below(x, y)):
                        continue            # a step whose type is not monotone in the type of the variable does not arise from an expression
                    v = _lub(tab(init), init)
                    if v is None:
                        want = ('err',)
                    else:
                        stable = False
                        for _ in range(5):
                            sv = tab(v)
                            nv = _lub(sv, init) if sv is not None else None
                            if nv is None:
                                break
                            if nv == v:
                                stable = True
                                break
                            v = nv
                        want = ('ok', v) if stable else ('err',)
                    why = None
                    if want[0] == 'err':
                        if ok or not log:
                            why = 'no type covers both the initial value %s and the step (type %s for a variable of that type; no fixed point of T = lub(step(T), init) within the deduction depth), but the recursion is %s' % (_show_t(init), _show_t(tab(init)), ('accepted with type %s' % (_show_t(cur) if cur else cur)) if ok else 'rejected without an error')
                    elif not ok:
                        why = 'well-typed recursion rejected (%s)' % log
                    elif cur != want[1]:
                        why = 'reported type %s; iterating the type of the step from %s gives %s' % (_show_t(cur) if cur else cur, _show_t(init), _show_t(want[1]))
                    elif declared and declared[0] != init:
                        why = 'the variable is first declared with %s, not with the type of the initial value' % _show_t(declared[0])
                    if why and bad is None:
                        bad = '%s, initial type %s, step type as a function of the variable type %s: %s' % (kind, _show_t(init), {_show_t(k): _show_t(x) for k, x in table.items()}, why)
    except OutOfFragment as e:
        if str(e).startswith(('call to', 'expression kind', 'statement kind', 'unbound')):
            rule.broken('ViRecursion outside the evaluable fragment: %s' % e)
            return
        bad = str(e)
        if 'budget' in bad or 'loop bound' in bad:
            bad = 'the type deduction does not terminate when the type of the step keeps changing (e.g. initial type %s with a step that nests the variable one level deeper each round): CheckType never returns' % _show_t(init)
    if bad:
        rule.violation('ViRecursion', '%s:%d' % (f.file, f.line), bad)
    else:
        rule.ok('ViRecursion', 'type deduction by iteration agrees with the reference on %d (initial type, step-type function) cases' % cases, '%s:%d' % (f.file, f.line))


def declared_args_rule(db, rule):
    """TypeAuditor::ViFunctionDefinition / ViArgument / ViLocal / AddLocalVariable / StartScope / EndScope interpreted from their source on
    argument lists whose domains contain closed binders (D{b∈X1 | ...}) that re-use later argument names, several bound variables, and a
    body that declares locals: the reported argument list must be exactly the declared (name, domain type) pairs in order. Supplied: the
    cursor (which child is which), the type of a domain / body after its own scopes were opened and closed through the interpreted scope
    functions, and the RAII release of the declaration-mode guards."""
    from engine.evalmini import Obj, NOT_HANDLED, UNKNOWN
    TA = R + 'TypeAuditor'
    need = {}
    for m in ('ViFunctionDefinition', 'ViArgument', 'ViLocal', 'AddLocalVariable', 'StartScope', 'EndScope'):
        c = [g for g in db.methods_of(TA) if g.name.endswith('::' + m) and g.has_cfg()]
        if len(c) != 1:
            rule.broken('anchor vanished: TypeAuditor::%s' % m)
            return
        need[m] = c[0]
    rec = db.record(TA)
    EID = {v: k for k, v in enum_values(db, R + 'SemanticEID').items()}

    def scenario(args, body_binders):
        """args: [(name, [names bound and closed inside the domain], type)]"""
        log = []
        this = Obj(__cls__=TA, currentType=None, localVars=[], functionArgs=[], noWarnings=Obj(value=False, guardCounter=0),
                   isArgDeclaration=Obj(value=False, guardCounter=0), isLocalDeclaration=Obj(value=False, guardCounter=0), isFuncDeclaration=Obj(value=False, guardCounter=0),
                   isTypification=False, reporter=None, env=Obj(context=Obj()))
        for fld in rec['fields']:
            if fld['name'] not in this:
                this[fld['name']] = [] if 'vector' in fld.get('type', '') else UNKNOWN
        flags = ('isArgDeclaration', 'isLocalDeclaration', 'isFuncDeclaration', 'noWarnings')

        def snap():
            return {k: this[k]['guardCounter'] for k in flags if isinstance(this.get(k), Obj)}

        def restore(s_):
            for k, v in s_.items():
                this[k]['guardCounter'] = v

        def closed_binders(it, names, pos):
            for nm in names:
                it.call(need['StartScope'], [], this)
                s_ = snap()
                this['isLocalDeclaration']['guardCounter'] += 1
                it.call(need['AddLocalVariable'], [nm.encode(), 'T_' + nm, pos], this)
                restore(s_)
                it.call(need['EndScope'], [pos], this)

        def on_call(it, fn, n, env):
            cs = n.get('cs') or ''
            last = cs.split('::')[-1]
            Sx = fn.stmts
            ev = lambda sid: it.eval(fn, Sx[sid], env)
            if last == 'CreateGuard' and 'obj' in n:
                o = ev(n['obj'])
                o['guardCounter'] += 1
                return Obj(__kind__='guard')
            if last == 'OnError' and cs.startswith(TA):
                log.append(EID.get(ev(n['args'][0]), '?'))
                return None
            if last == 'SetCurrent' and cs.startswith(TA):
                this['currentType'] = ev(n['args'][0])
                return True
            if last in ('VisitChild', 'ChildType', 'ChildTypeDebool') and (cs.startswith(TA) or 'ASTVisitor' in cs):
                cur = ev(n['args'][0])
                k_ = ev(n['args'][1])
                if cur['kind'] == 'FUNC' and k_ == 0:
                    s_ = snap()
                    ok = True
                    for i, (nm, binders, typ) in enumerate(args):
                        s2 = snap()
                        r_ = it.call(need['ViArgument'], [Obj(kind='ARG', index=i, pos=10 * (i + 1))], this)
                        restore(s2)
                        if not r_:
                            ok = False
                            break
                    restore(s_)
                    this['isFuncDeclaration']['guardCounter'] = max(0, this['isFuncDeclaration']['guardCounter'] - 1)    # the block-scoped guard ends with the block
                    return ok
                if cur['kind'] == 'FUNC' and k_ == 1:
                    closed_binders(it, body_binders, 900)
                    this['currentType'] = 'T_body'
                    return 'T_body'
                if cur['kind'] == 'ARG' and k_ == 1:
                    nm, binders, typ = args[cur['index']]
                    closed_binders(it, binders, cur['pos'] + 5)
                    this['currentType'] = typ
                    return typ
                if cur['kind'] == 'ARG' and k_ == 0:
                    return it.call(need['ViLocal'], [Obj(kind='LOCAL', index=cur['index'], pos=cur['pos'])], this)
                raise OutOfFragment('unexpected child visit %s/%s' % (cur['kind'], k_))
            if n['k'] == 'CXXOperatorCallExpr' and n.get('op') == '->' and 'Cursor' in Sx[n['args'][0]].get('t', ''):
                cur = ev(n['args'][0])
                nm = args[cur['index']][0].encode() if cur.get('kind') in ('LOCAL', 'ARG') else b''
                return ('ptr', Obj(pos=Obj(start=cur.get('pos', 0), finish=cur.get('pos', 0) + 1), id=0, data=Obj(__kind__='data', text=nm)))
            if n['k'] == 'CXXOperatorCallExpr' and n.get('op') == '()' and 'Cursor' in Sx[n['args'][0]].get('t', ''):
                cur = ev(n['args'][0])
                if cur.get('kind') == 'ARG':
                    return Obj(pos=Obj(start=cur['pos'], finish=cur['pos'] + 1), id=0, data=Obj(__kind__='data', text=args[cur['index']][0].encode()))
                raise OutOfFragment('cursor child of %s' % cur.get('kind'))
            if last == 'ChildrenCount' and 'Cursor' in cs:
                return 2
            if last == 'ToText' and 'obj' in n:
                o = ev(n['obj'])
                if isinstance(o, Obj) and 'text' in o:
                    return o['text']
            if cs == 'std::get' and n.get('args'):
                return ev(n['args'][0])
            if last == 'emplace_back' and cs.startswith('std::vector::') and len(n.get('args', [])) == 2 and 'obj' in n:
                o = ev(n['obj'])
                a0, a1 = ev(n['args'][0]), ev(n['args'][1])
                o.append(Obj(name=a0, type=a1))
                return None
            if n['k'] in ('CXXConstructExpr', 'CXXTemporaryObjectExpr') and (n.get('cls') or '').endswith('LogicT'):
                return 'LOGIC'
            return NOT_HANDLED
        it = Interp(db, on_call=on_call, max_steps=400000)
        ok = it.call(need['ViFunctionDefinition'], [Obj(kind='FUNC', pos=0)], this)
        got = []
        for a in this['functionArgs']:
            got.append((bytes(a['name']).decode() if isinstance(a.get('name'), (bytes, bytearray)) else a.get('name'), a.get('type')))
        return bool(ok), got, log
    cases = [
        ([('a', [], 'TA'), ('b', [], 'TB')], []),
        ([('a', ['b'], 'TA'), ('b', [], 'TB')], []),
        ([('a', ['t'], 'TA'), ('b', [], 'TB'), ('c', ['x'], 'TC')], []),
        ([('a', ['x', 'y', 'z'], 'TA'), ('b', [], 'TB')], []),
        ([('a', ['c'], 'TA'), ('b', ['c'], 'TB'), ('c', [], 'TC')], ['q']),
        ([('a', [], 'TA')], ['a2', 'b2']),
    ]
    bad = None
    try:
        for args, body in cases:
            ok, got, log = scenario(args, body)
            want = [(nm, typ) for nm, _, typ in args]
            desc = '[' + ', '.join('%s∈%s' % (nm, ('D{%s∈…}' % ','.join(b)) if b else typ) for nm, b, typ in args) + ']'
            if not ok:
                bad = bad or 'the definition with arguments %s is rejected (%s)' % (desc, log)
            elif got != want:
                bad = bad or 'the definition with arguments %s reports the declared arguments %s; they are %s' % (desc, got, want)
    except OutOfFragment as e:
        msg = str(e)
        if 'out of range' in msg:
            bad = 'collecting the declared arguments faults: %s' % msg
        else:
            rule.broken('ViFunctionDefinition outside the evaluable fragment: %s' % e)
            return
    f = need['ViFunctionDefinition']
    if bad:
        rule.violation('declared-arguments', '%s:%d' % (f.file, f.line), bad)
    else:
        rule.ok('declared-arguments', '%d argument lists (domains with closed binders re-using argument names, bodies declaring locals): reported = declared, in order' % len(cases), '%s:%d' % (f.file, f.line))
