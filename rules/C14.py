"""C14 — dependency-graph queries are exact for every graph and update history.

Decided: the representation invariants every query relies on, and the structural preconditions of the traversal
algorithms (DESIGN.md section 4, C14).
 r1 EDGE-PAIRING   every write to a vertex' `inputs`/`outputs` list is paired with the mirror write on the other end point:
                   push(u.outputs, v) <-> push(v.inputs, u); a list is cleared only after its vertex was removed from the
                   mirror list of every element (unlink loop), and an unlink loop is followed by the clear.
 r2 VERTEX-TABLE   uid table and vertex array change together (append+emplace, tombstone+erase, clear+clear); membership and
                   item count are answered from the uid table; index loops that emit vertices skip tombstones.
 r3 DIRECTION      each query reads the edge direction it is defined on; ExpandInputs is ExpandOutputs with the lists swapped
                   (mirror sibling), topological order is the reversed post-order.
 r4 COLOURS        three-colour DFS protocol in HasLoop / InternalOrder (grey only from white, black only on pop, cycle
                   reported only on a grey successor, post-order emitted once per vertex).
 r5 SCC-PASS       the component pass of GetAllLoopsItems seeded from a post-order must traverse reversed edges in reverse order.
 r6 UPDATER        UpdatableGraph::UpdateFor replaces the inputs from the callback exactly when the graph is not invalidated.
 r7 CLOSURE-SHAPE  worklist closures (ExpandOutputs/ExpandInputs/GetAllLoopsItems): every vertex pushed is marked in the same
                   step and only unmarked vertices are pushed; every popped vertex is emitted.
Not decided: exactness of the answers as data.
"""
from engine.cfgq import call_sites, paths_avoiding, guard_atoms, dominating_guards, normalise_cond, enumerate_paths
from engine.shape import Keyer, first_difference, short

UNITS = ['CGraph']
G = 'ccl::graph::CGraph'
MIRROR = {'inputs': 'outputs', 'outputs': 'inputs'}


def vfield(key):
    """('.', F, ('opcall','[]', ('.', 'graph', ('this',)), IDX)) -> (F, IDX)"""
    if isinstance(key, tuple) and len(key) == 3 and key[0] == '.' and isinstance(key[2], tuple) and key[2][:2] == ('opcall', '[]'):
        base = key[2]
        if len(base) == 4 and base[2] == ('.', 'graph', ('this',)):
            return key[1], base[3]
    return None


def container_events(f):
    """[(op, field, idx key, arg key, node)] for member calls on vertex lists."""
    K = Keyer(f)
    ev = []
    for n in f.calls():
        if n['k'] != 'CXXMemberCallExpr' or 'obj' not in n:
            continue
        op = (n.get('cs') or '').split('::')[-1]
        if op not in ('push_back', 'emplace_back', 'erase', 'clear', 'insert', 'emplace', 'pop_back', 'assign', 'resize'):
            continue
        vf = vfield(K.key(f.stmts[n['obj']]))
        if vf is None or vf[0] not in MIRROR:
            continue
        arg = None
        if n.get('args'):
            arg = K.key(f.stmts[n['args'][0]])
            if op == 'erase' and isinstance(arg, tuple) and arg[:2] == ('call', 'std::find'):
                arg = arg[-1]
        ev.append((op, vf[0], vf[1], arg, n))
    return ev, K


def enclosing_rangefor(f, n):
    for a in f.ancestors(n):
        if a['k'] == 'CXXForRangeStmt':
            return a
    return None


def check(db, rep):
    rep.explanation = ('C14 is decided as representation invariants (edge lists symmetric, uid table in step with the vertex array, tombstones '
                       'edge-free) plus structural preconditions of the traversals (edge direction per query, colour protocol, closure shape, '
                       'SCC pass direction). These hold on every path of every mutator, hence after every history. Exactness of answers as data is not decided.')
    methods = {f.name.split('::')[-1]: f for f in db.methods_of(G)}
    rep.note('CGraph_methods', sorted(methods))

    # ------------------------------------------------------------------ r1
    r1 = rep.rule('r1', 'EDGE-PAIRING: push(u.F, v) is paired with push(v.mirror(F), u) in the same step; a vertex list is cleared only after an unlink loop removed the vertex from the mirror list of each element; every unlink loop is followed by the clear', 6)
    writers = []
    for name, f in sorted(methods.items()):
        if not f.has_cfg():
            continue
        ev, K = container_events(f)
        if not ev:
            continue
        writers.append(name)
        pos = f.element_positions()
        pushes = [e for e in ev if e[0] in ('push_back', 'emplace_back', 'insert', 'emplace')]
        for op, F, idx, arg, n in pushes:
            mate = [e for e in pushes if e[1] == MIRROR[F] and e[2] == arg and e[3] == idx and f.position_of(e[4])[0] == f.position_of(n)[0]]
            inst = '%s:push-%s' % (name, F)
            if mate:
                r1.ok(inst, 'paired with `%s`' % mate[0][4].get('txt', '')[:60], f.loc(n))
            else:
                r1.violation(inst, f.loc(n), '`%s` adds an edge end to %s without the mirror entry in %s of the other end point in the same step: the two edge lists disagree' % (n.get('txt', '')[:70], F, MIRROR[F]))
        erases = [e for e in ev if e[0] == 'erase']
        loops = {}
        for op, F, idx, arg, n in erases:
            lp = enclosing_rangefor(f, n)
            inst = '%s:unlink-from-%s' % (name, F)
            if lp is None:
                r1.violation(inst, f.loc(n), 'edge end erased outside an unlink loop')
                continue
            rng = vfield(K.key(f.stmts[lp['range']]))
            lv = f.stmts[lp['loopvar']]['decls'][0]['name']
            if rng is None or rng[0] != MIRROR[F] or idx != ('var', lv) or arg != rng[1]:
                r1.violation(inst, f.loc(n), 'unlink loop over `%s` erases `%s` from %s of `%s`: it must remove the iterated vertex from the mirror list (%s) of each element' % (
                    f.stmts[lp['range']].get('txt', '')[:50], short(arg, 30), F, short(idx, 30), MIRROR[rng[0]] if rng else '?'))
                continue
            loops[(rng[0], rng[1])] = lp
            r1.ok(inst, 'loop over %s(%s) erases it from %s of each element' % (rng[0], short(rng[1], 20), F), f.loc(n))
        clears = [e for e in ev if e[0] == 'clear']
        for op, F, idx, arg, n in clears:
            inst = '%s:clear-%s' % (name, F)
            lp = loops.get((F, idx))
            if lp is None:
                r1.violation(inst, f.loc(n), '`%s` drops the %s of a vertex without first removing the vertex from the %s of each of them: dangling half-edges remain' % (n.get('txt', '')[:60], F, MIRROR[F]))
                continue
            lpos = f.position_of(f.stmts[lp['range']])
            bad = paths_avoiding(f, [f.graph()[1]], [lpos], [(f.position_of(n), '')])
            if bad:
                r1.violation(inst, f.loc(n), 'the clear can be reached without passing the unlink loop')
            else:
                r1.ok(inst, 'dominated by the unlink loop', f.loc(n))
        for (F, idx), lp in loops.items():
            inst = '%s:unlink-%s-then-clear' % (name, F)
            cl = [f.position_of(e[4]) for e in clears if e[1] == F and e[2] == idx]
            lpos = f.position_of(f.stmts[lp['range']])
            exits = [(p, d) for p, d in _all_exits(f)]
            bad = paths_avoiding(f, [lpos], cl, exits) if exits else []
            if not cl or bad:
                r1.violation(inst, f.loc(lp), 'after unlinking the vertex from the %s of its %s the list itself is not cleared on every path' % (MIRROR[F], F))
            else:
                r1.ok(inst, 'list cleared after the loop on every path', f.loc(lp))
    rep.note('edge_list_writers', writers)
    for need in ('AddConnection', 'SetItemInputs', 'EraseInternal'):
        if need not in writers:
            r1.broken('expected edge-list writer %s not found' % need)
    replace_rule(db, r1)
    # AddConnection must refuse duplicates (edge count, erase of one occurrence)
    ac = methods.get('AddConnection')
    if ac is not None:
        pushes = [n for n in ac.calls() if n['k'] == 'CXXMemberCallExpr' and (n.get('cs') or '').endswith('push_back')]
        ok = bool(pushes)
        for n in pushes:
            atoms = guard_atoms(ac, ac.position_of(n))
            if not any(a[0] == 'other' and 'ConnectionExists' in a[1] and not a[2] for a in atoms):
                ok = False
        if ok:
            r1.ok('AddConnection:no-duplicates', 'edge ends are added only when !ConnectionExists(source, dest)', '%s:%d' % (ac.file, ac.line))
        else:
            r1.violation('AddConnection:no-duplicates', '%s:%d' % (ac.file, ac.line), 'an edge can be added although it exists: lists are multisets then, the count is wrong and erasure removes one occurrence only')

    # ------------------------------------------------------------------ r2
    r2 = rep.rule('r2', 'VERTEX-TABLE: uid table and vertex array change together; membership/count come from the uid table; emitting index loops skip tombstones', 6)
    _vertex_table(db, r2, methods)

    # ------------------------------------------------------------------ r3
    r3 = rep.rule('r3', 'DIRECTION: each query reads the edge direction it is defined on; ExpandInputs mirrors ExpandOutputs; TopologicalOrder is the reversed post-order', 7)
    _direction(db, r3, methods)

    # ------------------------------------------------------------------ r4
    r4 = rep.rule('r4', 'COLOURS: white->grey on first visit only, ->black on pop only, loop reported only on a grey successor, only white successors pushed, post-order emitted once', 8)
    _colours(db, r4, methods)

    # ------------------------------------------------------------------ r5
    r5 = rep.rule('r5', 'SCC-PASS: a component pass seeded from the DFS post-order must walk reversed edges starting from the last finished vertex (Kosaraju), otherwise vertices merely reachable from a cycle are reported as lying on it', 1)
    _scc(db, r5, methods)

    # ------------------------------------------------------------------ r6
    r6 = rep.rule('r6', 'UPDATER: unless the graph is broken, UpdateFor replaces the inputs of the item by updater(item) on every path (through SetItemInputs, the only replacing writer)', 1)
    updater_rule(db, r6)

    # ------------------------------------------------------------------ r7
    r7 = rep.rule('r7', 'CLOSURE-SHAPE: in worklist closures every pushed vertex is marked in the same step, only unmarked vertices are pushed, every popped vertex is emitted', 3)
    for name in ('ExpandOutputs', 'ExpandInputs', 'GetAllLoopsItems'):
        f = methods.get(name)
        if f is None:
            r7.broken('anchor vanished: %s' % name)
            continue
        _closure(r7, f, name)
    r8 = rep.rule('r8', 'GRAPH-EVALUATED: every query of the interpreted CGraph agrees with the mathematical directed graph on all graphs over three items, named shapes on 4-6 items and histories with erasure, re-insertion and input replacement, also after every single further update', 9)
    graph_evaluated(db, rep, r8)
    # r1-r5 and r7 read the algorithms in the form they are written today and hold for graphs of any size when that form is recognised.
    # A different form is not a defect: when the evaluated rule finds every answer right, an unrecognised form is recorded as such and
    # left to r8 (bounded); when r8 reports a wrong answer the structural findings stay as additional diagnostics.
    if not r8.broken_reason and not any(i['verdict'] == 'violated' for i in r8.instances):
        for r in rep.rules:
            if r.rid in ('r1', 'r2', 'r3', 'r4', 'r5', 'r7'):
                for i in r.instances:
                    if i['verdict'] == 'violated':
                        i['verdict'] = 'holds'
                        i['nontrivial'] = False
                        i['detail'] = 'form not recognised (%s): every evaluated answer is right, decided by r8 on bounded graphs' % i['detail'][:200]


def _all_exits(f):
    out = []
    for bid, kind, node in f.exit_kinds():
        b = f.blocks[bid]
        out.append(((bid, len(b['el'])), kind))
    return out


def _member_calls(f, member, ops):
    out = []
    for n in f.calls():
        if n['k'] == 'CXXMemberCallExpr' and 'obj' in n and (n.get('cs') or '').split('::')[-1] in ops:
            root = f.root_of(f.stmts[n['obj']])
            if root[0] in ('this', 'this-field') and root[-1] == (member,):
                out.append(n)
    return out


def _vertex_table(db, r2, methods):
    ai = methods.get('AddInternal')
    ei = methods.get('EraseInternal')
    cl = methods.get('Clear')
    for need, f in (('AddInternal', ai), ('EraseInternal', ei), ('Clear', cl)):
        if f is None:
            r2.broken('anchor vanished: %s' % need)
            return
    # AddInternal: emplace_back on graph and emplace on verticies in the same block, guarded by !Contains(item)
    gpush = _member_calls(ai, 'graph', ('emplace_back', 'push_back'))
    vput = _member_calls(ai, 'verticies', ('emplace', 'insert', 'try_emplace', 'insert_or_assign'))
    if len(gpush) == 1 and len(vput) == 1 and ai.position_of(gpush[0])[0] == ai.position_of(vput[0])[0]:
        atoms = guard_atoms(ai, ai.position_of(gpush[0]))
        if any(a[0] == 'contains' and not a[2] for a in atoms) or any(a[0] == 'other' and 'Contains' in a[1] and not a[2] for a in atoms):
            # index stored = size(graph) - 1
            K = Keyer(ai)
            arg = K.key(ai.stmts[vput[0]['args'][1]]) if len(vput[0].get('args', [])) > 1 else None
            r2.ok('AddInternal', 'vertex appended and uid registered together, only for a new uid', '%s:%d' % (ai.file, ai.line))
            want_idx = any(n['k'] == 'BinaryOperator' and n.get('op') == '-' and any(c.get('cs') in ('std::size', 'std::ssize') for c in ai.calls(n)) and ai.strip(ai.children(n)[1]).get('cv') == 1 for n in ai.walk())
            if want_idx:
                r2.ok('AddInternal:index', 'registered index = size(graph) - 1 (the appended vertex)', '%s:%d' % (ai.file, ai.line))
            else:
                r2.violation('AddInternal:index', '%s:%d' % (ai.file, ai.line), 'the index registered for a new uid is not size(graph) - 1, the position of the appended vertex')
        else:
            r2.violation('AddInternal', '%s:%d' % (ai.file, ai.line), 'a vertex can be appended for a uid that is already registered (duplicate vertices for one item)')
    else:
        r2.violation('AddInternal', '%s:%d' % (ai.file, ai.line), 'vertex array and uid table are not extended together')
    # EraseInternal: isValid = false, verticies.erase(item), on every path
    inval = [n for n in ei.walk() if n['k'] == 'BinaryOperator' and n.get('op') == '=' and ei.strip(ei.children(n)[0]).get('member') == 'isValid' and ei.strip(ei.children(n)[1]).get('bv') is False]
    verase = _member_calls(ei, 'verticies', ('erase',))
    exits = _all_exits(ei)
    okp = True
    for sites in (inval, verase):
        ps = [ei.position_of(n) for n in sites]
        if not ps or paths_avoiding(ei, [ei.graph()[1]], ps, exits):
            okp = False
    if okp:
        r2.ok('EraseInternal', 'vertex tombstoned and uid unregistered on every path', '%s:%d' % (ei.file, ei.line))
    else:
        r2.violation('EraseInternal', '%s:%d' % (ei.file, ei.line), 'erasure does not both tombstone the vertex (isValid = false) and remove the uid from the table on every path')
    # Clear
    if _member_calls(cl, 'graph', ('clear',)) and _member_calls(cl, 'verticies', ('clear',)):
        r2.ok('Clear', 'both containers cleared', '%s:%d' % (cl.file, cl.line))
    else:
        r2.violation('Clear', '%s:%d' % (cl.file, cl.line), 'Clear does not clear both the vertex array and the uid table')
    # Contains / ItemsCount / IndexFor read the uid table only
    for name in ('Contains', 'ItemsCount', 'IndexFor'):
        f = methods.get(name)
        if f is None:
            r2.broken('anchor vanished: %s' % name)
            continue
        members = sorted({n.get('member') for n in f.walk() if n['k'] == 'MemberExpr' and n.get('mk') == 'field'})
        if members == ['verticies']:
            r2.ok(name, 'answered from the uid table', '%s:%d' % (f.file, f.line))
        else:
            r2.violation(name, '%s:%d' % (f.file, f.line), '%s reads %s: tombstones stay in the vertex array, so only the uid table knows the live items' % (name, members))
    # EraseItem guards
    er = methods.get('EraseItem')
    if er is not None:
        sites = call_sites(er, lambda n: n.get('cs') == G + '::EraseInternal')
        ok = sites and all(any((a[0] == 'other' and 'Contains' in a[1] and a[2]) or (a[0] == 'contains' and a[2]) for a in guard_atoms(er, p)) for p, _ in sites)
        if ok:
            r2.ok('EraseItem', 'EraseInternal only for registered items', '%s:%d' % (er.file, er.line))
        else:
            r2.violation('EraseItem', '%s:%d' % (er.file, er.line), 'EraseInternal (which indexes the table with at()) is reachable for an unregistered item')
    # emitting index loops skip tombstones
    io = methods.get('InternalOrder')
    if io is None:
        r2.broken('anchor vanished: InternalOrder')
    else:
        fors = [n for n in io.walk() if n['k'] == 'ForStmt']
        ok = False
        for lp in fors:
            body = io.stmts[lp['body']]
            for n in io.walk(body):
                if n['k'] == 'ContinueStmt':
                    atoms = guard_atoms(io, io.position_of(n) or (0, 0))
                    pass
            # the seed push must be guarded by isValid
            K = Keyer(io)
            lv = None
            if 'init' in lp and io.stmts[lp['init']]['k'] == 'DeclStmt':
                lv = io.stmts[lp['init']]['decls'][0]['name']
            for n in _member_calls_local(io, 'push_back'):
                if n.get('args') and K.key(io.stmts[n['args'][0]]) == ('var', lv):
                    conds = dominating_guards(io, io.position_of(n))
                    txt = ' '.join(c.get('txt', '') for c, pol in conds)
                    if 'isValid' in txt:
                        ok = True
        if ok:
            r2.ok('InternalOrder:tombstones', 'index loop seeds only valid vertices', '%s:%d' % (io.file, io.line))
        else:
            r2.violation('InternalOrder:tombstones', '%s:%d' % (io.file, io.line), 'the index loop can seed a tombstone: erased items would appear in the topological order')


def _member_calls_local(f, op):
    return [n for n in f.calls() if n['k'] == 'CXXMemberCallExpr' and (n.get('cs') or '').split('::')[-1] == op]


def _fields_read(f):
    return sorted({n.get('member') for n in f.walk() if n['k'] == 'MemberExpr' and n.get('mk') == 'field' and n.get('member') in MIRROR})


def _direction(db, r3, methods):
    expect = {
        'HasEdge': ['outputs'], 'InputsFor': ['inputs'], 'ConnectionsCount': None, 'HasLoop': ['outputs'],
        'ExpandOutputs': ['outputs'], 'ExpandInputs': ['inputs'], 'InternalOrder': ['outputs'],
    }
    for name, want in expect.items():
        f = methods.get(name)
        if f is None:
            r3.broken('anchor vanished: %s' % name)
            continue
        got = _fields_read(f)
        for lf in db.lambdas_in(f):
            got = sorted(set(got) | set(_fields_read(lf)))
        if want is None:
            if len(got) == 1:
                r3.ok(name, 'counts one direction (%s)' % got[0], '%s:%d' % (f.file, f.line))
            else:
                r3.violation(name, '%s:%d' % (f.file, f.line), 'edge count reads %s: each edge is stored once per direction, so exactly one list must be summed' % got)
        elif got == want:
            r3.ok(name, 'reads %s' % want[0], '%s:%d' % (f.file, f.line))
        else:
            r3.violation(name, '%s:%d' % (f.file, f.line), '%s reads %s, it is defined on %s' % (name, got, want))
    # HasEdge(source, destination): looks for destination in outputs of source
    he = methods.get('HasEdge')
    if he is not None:
        K = Keyer(he)
        ps = [p['name'] for p in he.rec['params']]
        finds = [n for n in he.calls() if n.get('cs') == 'std::find']
        ok = False
        if len(finds) == 1 and len(ps) == 2:
            k = K.key(finds[0])
            tgt = k[-1]
            lists = [vfield(x[-1]) if isinstance(x, tuple) and x[0] == 'call' else None for x in k[2:4]]
            lists = [x for x in lists if x]
            if tgt == ('var', ps[1]) and lists and all(l == ('outputs', ('var', ps[0])) for l in lists):
                ok = True
        if ok:
            r3.ok('HasEdge:operands', 'destination searched in outputs(source)', '%s:%d' % (he.file, he.line))
        else:
            r3.violation('HasEdge:operands', '%s:%d' % (he.file, he.line), 'HasEdge(source, destination) must search destination in the outputs of source')
    ce = methods.get('ConnectionExists')
    if ce is not None:
        K = Keyer(ce)
        ps = [p['name'] for p in ce.rec['params']]
        hs = [n for n in ce.calls() if n.get('cs') == G + '::HasEdge']
        ok = len(hs) == 1 and [K.key(ce.stmts[a]) for a in hs[0]['args']] == [('mcall', 'IndexFor', ('this',), ('var', ps[0])), ('mcall', 'IndexFor', ('this',), ('var', ps[1]))]
        conts = [K.key(ce.stmts[n['args'][0]]) for n in ce.calls() if n.get('cs') == G + '::Contains']
        if ok and sorted(conts) == sorted([('var', ps[0]), ('var', ps[1])]):
            r3.ok('ConnectionExists:operands', 'HasEdge(IndexFor(source), IndexFor(dest)) after both membership tests', '%s:%d' % (ce.file, ce.line))
        else:
            r3.violation('ConnectionExists:operands', '%s:%d' % (ce.file, ce.line), 'ConnectionExists must test both end points for membership and ask HasEdge(source index, dest index) in that order')
    # mirror sibling
    eo, ei = methods.get('ExpandOutputs'), methods.get('ExpandInputs')
    if eo is not None and ei is not None:
        ka = Keyer(eo, alpha=True).key(eo.stmts[eo.body])
        kb = Keyer(ei, alpha=True, member_map={'inputs': 'outputs', 'outputs': 'inputs'}).key(ei.stmts[ei.body])
        d = first_difference(ka, kb)
        if d is None:
            r3.ok('mirror:ExpandInputs~ExpandOutputs', 'bodies equal modulo inputs<->outputs', '%s:%d' % (ei.file, ei.line))
        else:
            r3.violation('mirror:ExpandInputs~ExpandOutputs', '%s:%d' % (ei.file, ei.line), 'backward closure is not the mirror image of the forward closure: %s vs %s' % (short(d[1], 80), short(d[2], 80)))
    # TopologicalOrder = reverse(InverseTopologicalOrder)
    to = methods.get('TopologicalOrder')
    if to is not None:
        cs = [n.get('cs') for n in to.calls()]
        if G + '::InverseTopologicalOrder' in cs and 'std::reverse' in cs:
            rv = [n for n in to.calls() if n.get('cs') == 'std::reverse'][0]
            K = Keyer(to)
            a = [K.key(to.stmts[x]) for x in rv['args']]
            if a[0][0] == 'call' and a[1][0] == 'call' and a[0][-1] == a[1][-1] and {a[0][1].split('::')[-1], a[1][1].split('::')[-1]} == {'begin', 'end'}:
                r3.ok('TopologicalOrder', 'whole post-order reversed', '%s:%d' % (to.file, to.line))
            else:
                r3.violation('TopologicalOrder', to.loc(rv), 'std::reverse does not cover begin..end of the order')
        else:
            r3.violation('TopologicalOrder', '%s:%d' % (to.file, to.line), 'TopologicalOrder is not the reversed post-order (InverseTopologicalOrder + std::reverse): sources would not precede their targets')
    ito = methods.get('InverseTopologicalOrder')
    if ito is not None:
        lp = [n for n in ito.walk() if n['k'] == 'CXXForRangeStmt']
        ok = len(lp) == 1 and any(c.get('cs') == G + '::InternalOrder' for c in ito.calls(ito.stmts[lp[0]['range']]))
        K = Keyer(ito)
        pb = [n for n in _member_calls_local(ito, 'push_back')]
        ok = ok and len(pb) == 1 and isinstance(K.key(ito.stmts[pb[0]['args'][0]]), tuple) and K.key(ito.stmts[pb[0]['args'][0]])[:2] == ('.', 'uid')
        if ok:
            r3.ok('InverseTopologicalOrder', 'uids of InternalOrder() in order', '%s:%d' % (ito.file, ito.line))
        else:
            r3.violation('InverseTopologicalOrder', '%s:%d' % (ito.file, ito.line), 'does not emit the uid of every vertex of InternalOrder() in order')
    # Sort -> TopologicalSort keeps topological order
    ts = [f for f in db.fns('ccl::graph::TopologicalSort') if not f.rec.get('dependent')]
    if ts:
        f = ts[0]
        lp = [n for n in f.walk() if n['k'] == 'CXXForRangeStmt']
        ok = len(lp) == 1 and any(c.get('cs') == G + '::TopologicalOrder' for c in f.calls(f.stmts[lp[0]['range']]))
        if ok:
            r3.ok('TopologicalSort', 'filters TopologicalOrder() in order', '%s:%d' % (f.file, f.line))
        else:
            r3.violation('TopologicalSort', '%s:%d' % (f.file, f.line), 'subset sort does not iterate TopologicalOrder()')
    else:
        r3.broken('no instantiation of TopologicalSort found')


def _status_writes(f):
    """assignments `status[x] = c` -> (node, index key, const)"""
    K = Keyer(f)
    out = []
    for n in f.walk():
        if n['k'] == 'BinaryOperator' and n.get('op') == '=':
            l = K.key(f.children(n)[0])
            r = f.strip(f.children(n)[1])
            if isinstance(l, tuple) and l[:2] == ('opcall', '[]') and l[2] == ('var', 'status') and 'cv' in r:
                out.append((n, l[3], r['cv']))
    return out, K


def _status_guards(f, pos, K):
    """[(index key, op, const, polarity)] from dominating conditions of the form status[x] <op> c"""
    out = []
    work = list(dominating_guards(f, pos))
    while work:
        c, pol = work.pop()
        c, pol = normalise_cond(f, c, pol)
        if c['k'] == 'BinaryOperator' and ((c.get('op') == '||' and not pol) or (c.get('op') == '&&' and pol)):
            for x in f.children(c):
                work.append((x, pol))
            continue
        if c['k'] == 'BinaryOperator' and c.get('op') in ('==', '!=', '>', '<', '>=', '<='):
            l = K.key(f.children(c)[0])
            r = f.strip(f.children(c)[1])
            if isinstance(l, tuple) and l[:2] == ('opcall', '[]') and l[2] == ('var', 'status') and 'cv' in r:
                out.append((l[3], c['op'], r['cv'], pol))
    return out


def _implies_colour(guards, idx, allowed):
    """do the guards restrict status[idx] to a subset of `allowed` (colours 0,1,2)?"""
    poss = {0, 1, 2}
    for gi, op, c, pol in guards:
        if gi != idx:
            continue
        sat = {v for v in (0, 1, 2) if {'==': v == c, '!=': v != c, '>': v > c, '<': v < c, '>=': v >= c, '<=': v <= c}[op]}
        poss &= sat if pol else ({0, 1, 2} - sat)
    return poss <= set(allowed), poss


def _colours(db, r4, methods):
    for name in ('HasLoop', 'InternalOrder'):
        f = methods.get(name)
        if f is None:
            r4.broken('anchor vanished: %s' % name)
            continue
        writes, K = _status_writes(f)
        if not writes:
            r4.broken('%s: no status[...] = c writes found (colour protocol not recognised)' % name)
            continue
        for n, idx, c in writes:
            g = _status_guards(f, f.position_of(n), K)
            if c == 1:
                ok, poss = _implies_colour(g, idx, {0})
                inst = '%s:grey-from-white' % name
                if ok:
                    r4.ok(inst, 'status = 1 only when it was 0', f.loc(n))
                else:
                    r4.violation(inst, f.loc(n), 'a vertex is coloured grey when its colour may be %s: a finished vertex re-enters the search' % sorted(poss))
            elif c == 2:
                # must be in the same block as a pop_back of the work stack
                pops = [m for m in _member_calls_local(f, 'pop_back') if f.position_of(m)[0] == f.position_of(n)[0] or _same_branch(f, m, n)]
                ok, poss = _implies_colour(g, idx, {1, 2})
                inst = '%s:black-on-pop' % name
                if pops and ok:
                    r4.ok(inst, 'status = 2 together with the pop, never for a white vertex', f.loc(n))
                else:
                    r4.violation(inst, f.loc(n), 'a vertex is coloured black %s' % ('while it may still be white (its successors were never explored)' if not ok else 'without being popped from the work stack'))
            else:
                r4.violation('%s:colour-%s' % (name, c), f.loc(n), 'unexpected colour constant %s' % c)
        # pushes of successors only when white
        lpv = None
        for lp in [x for x in f.walk() if x['k'] == 'CXXForRangeStmt']:
            lpv = f.stmts[lp['loopvar']]['decls'][0]['name']
            for n in _member_calls_local(f, 'push_back'):
                if lp in list(f.ancestors(n)) and n.get('args') and K.key(f.stmts[n['args'][0]]) == ('var', lpv):
                    g = _status_guards(f, f.position_of(n), K)
                    ok, poss = _implies_colour(g, ('var', lpv), {0})
                    inst = '%s:push-white-only' % name
                    if ok:
                        r4.ok(inst, 'successor pushed only when white', f.loc(n))
                    else:
                        r4.violation(inst, f.loc(n), 'a successor of colour %s can be pushed' % sorted(poss))
        if name == 'HasLoop':
            rets = [(p, n) for p, n in f.return_sites() if f.return_literal(n) == 'true']
            if not rets:
                r4.broken('HasLoop: no `return true`')
            for p, n in rets:
                g = _status_guards(f, p, K)
                ok, poss = _implies_colour(g, ('var', lpv), {1})
                if ok:
                    r4.ok('HasLoop:report-on-grey', 'loop reported only when a successor is grey (on the current path)', f.loc(n))
                else:
                    r4.violation('HasLoop:report-on-grey', f.loc(n), 'a loop is reported when the successor colour may be %s (a cross edge to a finished vertex is not a cycle; a white successor is not one yet)' % sorted(poss))
            falses = [(p, n) for p, n in f.return_sites() if f.return_literal(n) == 'false']
            # the final `return false` must come after the loop over all indices
            if len(falses) == 1 and len(rets) == 1:
                r4.ok('HasLoop:exits', 'one positive and one negative exit', f.loc(falses[0][1]), nontrivial=False)
            else:
                r4.violation('HasLoop:exits', '%s:%d' % (f.file, f.line), 'HasLoop has %d `return true` and %d `return false` exits' % (len(rets), len(falses)))
            # outer loop must start a search from every vertex that is not finished
            _outer_loop(r4, f, K, name, {0})
        else:
            emits = [n for n in _member_calls_local(f, 'push_back') if K.key(f.stmts[n['obj']]) == ('var', 'outOrder')]
            if len(emits) != 1:
                r4.violation('InternalOrder:emit-once', '%s:%d' % (f.file, f.line), 'post-order is appended at %d sites' % len(emits))
            else:
                n = emits[0]
                g = _status_guards(f, f.position_of(n), K)
                arg = K.key(f.stmts[n['args'][0]])
                ok, poss = _implies_colour(g, arg, {1})
                blk = [w for w, idx, c in writes if c == 2 and idx == arg and f.position_of(w)[0] == f.position_of(n)[0]]
                if ok and blk:
                    r4.ok('InternalOrder:emit-once', 'vertex appended exactly when it turns black', f.loc(n))
                else:
                    r4.violation('InternalOrder:emit-once', f.loc(n), 'a vertex is appended to the order when its colour may be %s%s: it can appear twice or before its successors' % (sorted(poss), '' if blk else ' and is not blackened in the same step'))
            _outer_loop(r4, f, K, name, {0})
            rets = f.return_sites()
            ok = len(rets) == 1 and K.key(f.stmts[rets[0][1]['value']]) == ('var', 'outOrder')
            if ok:
                r4.ok('InternalOrder:returns-order', 'returns the collected post-order', f.loc(rets[0][1]), nontrivial=False)
            else:
                r4.violation('InternalOrder:returns-order', '%s:%d' % (f.file, f.line), 'does not return the collected order')


def _same_branch(f, a, b):
    """b lies inside the innermost compound statement of a (same branch, possibly nested deeper)"""
    pa = next((x for x in f.ancestors(a) if x['k'] == 'CompoundStmt'), None)
    if pa is None:
        return False
    return any(x['id'] == pa['id'] for x in f.ancestors(b))


def _outer_loop(r4, f, K, name, must_start_from):
    """the index loop must begin a search from every vertex whose colour is in must_start_from (besides tombstones)"""
    fors = [n for n in f.walk() if n['k'] == 'ForStmt']
    inst = '%s:outer-loop' % name
    if len(fors) != 1:
        r4.broken('%s: expected one index loop' % name)
        return
    lp = fors[0]
    lv = f.stmts[lp['init']]['decls'][0]['name'] if 'init' in lp and f.stmts[lp['init']]['k'] == 'DeclStmt' else None
    cond = K.key(f.stmts[lp['cond']]) if 'cond' in lp else None
    full = cond is not None and cond[0] == 'Bop' and cond[1] == '<' and cond[3] == ('var', lv) and isinstance(cond[4], tuple) and cond[4][0] == 'call' and cond[4][1] in ('std::ssize', 'std::size') and cond[4][2] == ('.', 'graph', ('this',))
    init0 = 'init' in lp and f.strip(f.stmts[f.stmts[lp['init']]['decls'][0]['init']]).get('cv') == 0
    seeds = [n for n in _member_calls_local(f, 'push_back') if n.get('args') and K.key(f.stmts[n['args'][0]]) == ('var', lv)]
    if not (full and init0 and len(seeds) == 1):
        r4.violation(inst, f.loc(lp), 'the outer loop does not visit every index 0..size(graph) and seed the search with it')
        return
    # paths through one iteration that skip the seed, Kleene-evaluated for a live vertex of each colour
    body = f.stmts[lp['body']]
    first = None
    for x in f.walk(body):
        p0 = f.element_positions().get(x['id'])
        if p0 is not None and (first is None or x['id'] < first[1]):
            pass
    # entry of the body = target of the true edge of the loop condition
    cond_block = [b for b in f.blocks.values() if b.get('term') == lp['id'] and len(b['succ']) == 2]
    if not cond_block or 'inc' not in lp:
        r4.broken('%s: loop structure not recognised' % name)
        return
    body_entry = (cond_block[0]['succ'][0], 0)
    inc_pos = f.position_of(f.stmts[lp['inc']])
    seed_pos = f.position_of(seeds[0])
    skips = enumerate_paths(f, body_entry, [inc_pos], avoid=[seed_pos])
    missing = {}
    for colour in must_start_from:
        for path in skips:
            if all(_kleene(f, K, c, ('var', lv), colour) is not (not pol) for c, pol in path):
                missing[colour] = path
                break
    if missing:
        colour, path = sorted(missing.items())[0]
        r4.violation(inst, f.loc(seeds[0]), 'a live vertex of colour %s can be skipped without starting a search from it (when %s): part of the graph may never be explored' % (
            sorted(missing), ' and '.join('%s`%s`' % ('' if pol else 'not ', c.get('txt', '')[:50]) for c, pol in path)))
    else:
        r4.ok(inst, 'every iteration seeds the search for a live vertex of colour %s (%d skip paths examined)' % (sorted(must_start_from), len(skips)), f.loc(seeds[0]))


def _kleene(f, K, c, idx, colour):
    """three-valued value of condition c for a live vertex `idx` of the given colour; None = depends on something else"""
    c = f.strip(c)
    k = c['k']
    if k == 'UnaryOperator' and c.get('op') == '!':
        v = _kleene(f, K, f.children(c)[0], idx, colour)
        return None if v is None else (not v)
    if k == 'BinaryOperator' and c.get('op') in ('&&', '||'):
        a = _kleene(f, K, f.children(c)[0], idx, colour)
        b = _kleene(f, K, f.children(c)[1], idx, colour)
        if c['op'] == '&&':
            if a is False or b is False:
                return False
            return True if (a is True and b is True) else None
        if a is True or b is True:
            return True
        return False if (a is False and b is False) else None
    if k == 'BinaryOperator' and c.get('op') in ('==', '!=', '>', '<', '>=', '<='):
        l = K.key(f.children(c)[0])
        r = f.strip(f.children(c)[1])
        if isinstance(l, tuple) and l[:2] == ('opcall', '[]') and l[2] == ('var', 'status') and l[3] == idx and 'cv' in r:
            v, cst = colour, r['cv']
            return {'==': v == cst, '!=': v != cst, '>': v > cst, '<': v < cst, '>=': v >= cst, '<=': v <= cst}[c['op']]
        return None
    kk = K.key(c)
    if isinstance(kk, tuple) and kk[:2] == ('.', 'isValid'):
        vf = vfield(kk)
        if vf is not None and vf[1] == idx:
            return True     # live vertex
    return None


def _scc(db, r5, methods):
    f = methods.get('GetAllLoopsItems')
    if f is None:
        r5.broken('anchor vanished: GetAllLoopsItems')
        return
    loops = [n for n in f.walk() if n['k'] in ('CXXForRangeStmt', 'ForStmt')]
    outer = None
    for lp in loops:
        if not any(a['k'] in ('CXXForRangeStmt', 'ForStmt', 'WhileStmt') for a in f.ancestors(lp)):
            outer = lp
            break
    if outer is None:
        r5.broken('GetAllLoopsItems: outer loop not found')
        return
    # seed order: does the outer loop iterate InternalOrder() forwards or backwards?
    K = Keyer(f)
    seeded_from_postorder = any(c.get('cs') == G + '::InternalOrder' for c in f.calls())
    if not seeded_from_postorder:
        r5.broken('GetAllLoopsItems no longer seeds from InternalOrder(): SCC algorithm not recognised')
        return
    reverse = False
    if outer['k'] == 'CXXForRangeStmt':
        rk = K.key(f.stmts[outer['range']])
        txt = f.stmts[outer['range']].get('txt', '')
        reverse = 'reverse' in txt or 'rbegin' in txt
    else:
        txt = ' '.join(f.stmts[outer[x]].get('txt', '') for x in ('init', 'cond', 'inc') if x in outer)
        reverse = 'rbegin' in txt or 'rend' in txt or '--' in txt
    if not reverse:
        # a std::reverse applied to the order before the loop also counts
        reverse = any(c.get('cs') == 'std::reverse' for c in f.calls())
    inner_fields = sorted({n.get('member') for n in f.walk(f.stmts[outer['body']]) if n['k'] == 'MemberExpr' and n.get('member') in MIRROR})
    inst = 'GetAllLoopsItems'
    where = f.loc(outer)
    if reverse and inner_fields == ['inputs']:
        r5.ok(inst, 'reverse post-order, transposed edges (Kosaraju second pass)', where)
    elif (not reverse) and inner_fields == ['inputs']:
        # increasing finish time on the transposed graph is also wrong
        r5.violation(inst, where, 'component pass walks reversed edges but is seeded in increasing post-order: the first finished vertex need not be in a source component of the transposed graph')
    elif reverse and inner_fields == ['outputs']:
        r5.violation(inst, where, 'component pass is seeded in reverse post-order but follows forward edges: it collects everything reachable from the root component')
    else:
        r5.violation(inst, where, 'component pass is seeded from the post-order of a forward DFS and follows forward edges (%s): a vertex that is only reachable from a cycle is reported as lying on it — edges 1->3, 1->2, 2->1 give {3,1,2}' % inner_fields)
    # a component is reported only if it has more than one vertex or a self-loop
    he = [n for n in f.calls() if n.get('cs') == G + '::HasEdge']
    if he:
        a = [K.key(f.stmts[x]) for x in he[0]['args']]
        if a[0] != a[1]:
            r5.violation(inst + ':self-loop', f.loc(he[0]), 'single-vertex component test must be HasEdge(v, v)')


def _closure(r7, f, name):
    K = Keyer(f)
    whiles = [n for n in f.walk() if n['k'] == 'WhileStmt']
    if len(whiles) != 1:
        r7.broken('%s: expected one worklist loop' % name)
        return
    w = whiles[0]
    body = f.stmts[w['body']]
    # marks: marked[x] = true
    marks = []
    for n in f.walk():
        if n['k'] in ('BinaryOperator', 'CXXOperatorCallExpr') and n.get('op') == '=':
            kids = f.children(n) if n['k'] == 'BinaryOperator' else [f.stmts[a] for a in n['args']]
            l = K.key(kids[0])
            r = f.strip(kids[1])
            if isinstance(l, tuple) and l[:2] == ('opcall', '[]') and l[2] == ('var', 'marked') and r.get('bv') is True:
                marks.append((n, l[3]))
    pushes = [n for n in _member_calls_local(f, 'push_back') if K.key(f.stmts[n['obj']]) == ('var', 'toVisit')]
    problems = []
    for n in pushes:
        arg = K.key(f.stmts[n['args'][0]])
        mate = [m for m, idx in marks if idx == arg and _same_branch(f, m, n)]
        if not mate:
            problems.append('`%s` at line %s is not accompanied by marking the pushed vertex' % (n.get('txt', '')[:40], n.get('line')))
        if any(a['id'] == w['id'] for a in f.ancestors(n)):
            conds = dominating_guards(f, f.position_of(n))
            guarded = False
            for c, pol in conds:
                c2, pol2 = normalise_cond(f, c, pol)
                kk = K.key(c2)
                if isinstance(kk, tuple) and kk[:2] == ('opcall', '[]') and kk[2] == ('var', 'marked') and kk[3] == arg and pol2 is False:
                    guarded = True
            if not guarded:
                problems.append('`%s` at line %s can push a vertex that is already marked (non-termination on cycles / duplicates)' % (n.get('txt', '')[:40], n.get('line')))
    # popped vertex is emitted unconditionally in the loop body
    pops = [n for n in _member_calls_local(f, 'pop_back') if any(a['id'] == w['id'] for a in f.ancestors(n))]
    emits = [n for n in f.calls() if n['k'] == 'CXXMemberCallExpr' and (n.get('cs') or '').split('::')[-1] in ('emplace', 'insert', 'push_back', 'emplace_back')
             and K.key(f.stmts[n['obj']]) in (('var', 'result'), ('var', 'component')) and any(a['id'] == w['id'] for a in f.ancestors(n))]
    if len(pops) != 1:
        problems.append('work stack is popped at %d sites per iteration' % len(pops))
    if not emits:
        problems.append('popped vertex is not added to the result')
    else:
        for n in emits:
            parent = next((x for x in f.ancestors(n) if x['k'] == 'CompoundStmt'), None)
            if parent is None or parent['id'] != body['id']:
                problems.append('the popped vertex is added to the result only conditionally')
    if problems:
        r7.violation(name, '%s:%d' % (f.file, f.line), '; '.join(problems))
    else:
        r7.ok(name, '%d pushes marked and guarded, popped vertex emitted' % len(pushes), '%s:%d' % (f.file, f.line))


def updater_rule(db, r6):
    uf = db.fn('ccl::graph::UpdatableGraph::UpdateFor')
    sites = call_sites(uf, lambda n: n.get('cs') == G + '::SetItemInputs')
    item_did = uf.rec['params'][0]['did']

    def from_updater(n, depth=0):
        """the expression is updater(item) or a local initialised with it"""
        n = uf.strip(n)
        if n is None or depth > 3:
            return False
        if n['k'] == 'CXXOperatorCallExpr' and n.get('op') == '()' and 'updater' in uf.stmts[n['args'][0]].get('txt', '') and len(n['args']) == 2 and uf.strip(uf.stmts[n['args'][1]]).get('did') == item_did:
            return True
        if n['k'] == 'DeclRefExpr' and n.get('dk') == 'local':
            for s0 in uf.rec['stmts']:
                if s0['k'] == 'DeclStmt':
                    for d in s0.get('decls', []):
                        if d.get('did') == n.get('did') and 'init' in d:
                            return from_updater(uf.stmts[d['init']], depth + 1)
        if n['k'] in ('CXXConstructExpr', 'CallExpr') and len(n.get('args', [])) == 1:      # copy / std::move
            return from_updater(uf.stmts[n['args'][0]], depth + 1)
        return False
    good = [(p, n) for p, n in sites if len(n.get('args', [])) == 2 and uf.strip(uf.stmts[n['args'][0]]).get('did') == item_did and from_updater(uf.stmts[n['args'][1]])]
    if not good:
        r6.violation('UpdateFor', '%s:%d' % (uf.file, uf.line), 'UpdateFor does not replace the inputs of the item with updater(item) through SetItemInputs')
        return
    # every path on which IsBroken() is false reaches such a call: block the calls and the IsBroken()-true edges, then no exit may be reachable
    succ, entry, exit_ = uf.graph()
    blocked_edges = set()
    from engine.cfgq import cond_edges
    for bid, c, t, fl in cond_edges(uf):
        c2, pol2 = normalise_cond(uf, uf.strip(c), True)
        if c2 is not None and c2['k'] == 'CXXMemberCallExpr' and (c2.get('cs') or '').endswith('::IsBroken'):
            to = t if pol2 else fl       # the edge on which IsBroken() is true
            if to is not None:
                blocked_edges.add(((bid, len(uf.blocks[bid]['el'])), (to, 0)))
    stops = {p for p, n in good}
    seen, stack, leak = set(), [entry], False
    while stack:
        q = stack.pop()
        if q == exit_:
            leak = True
            break
        if q in seen or q in stops:
            continue
        seen.add(q)
        for nx in succ.get(q, []):
            if (q, nx) not in blocked_edges:
                stack.append(nx)
    if leak:
        r6.violation('UpdateFor', '%s:%d' % (uf.file, uf.line), 'on some path with a sound graph UpdateFor returns without SetItemInputs(item, updater(item)) (e.g. when the updater yields no inputs): the old edges of the item stay')
    else:
        r6.ok('UpdateFor', 'SetItemInputs(item, updater(item)) on every path with !IsBroken()', uf.loc(good[0][1]))


def replace_rule(db, r1):
    """a *replacing* writer (SetItemInputs) drops the old edges on every path, also when the new input set is empty"""
    si = [f for f in db.methods_of(G) if f.name.endswith('::SetItemInputs') and f.has_cfg()]
    if not si:
        r1.broken('anchor vanished: CGraph::SetItemInputs')
        return
    si = si[0]
    clears = [si.position_of(n) for n in si.calls() if n['k'] == 'CXXMemberCallExpr' and (n.get('cs') or '').split('::')[-1] == 'clear'
              and 'obj' in n and si.strip(si.stmts[n['obj']]).get('member') == 'inputs']
    clears = [c for c in clears if c is not None]
    succ_, entry_, exit_ = si.graph()
    exits = [(p, '') for p, r in si.return_sites()] + [(exit_, '')]
    if clears and not paths_avoiding(si, [entry_], clears, exits):
        r1.ok('SetItemInputs:replace-on-every-path', 'the old inputs are unlinked and cleared on every path, before any new edge', '%s:%d' % (si.file, si.line))
    else:
        r1.violation('SetItemInputs:replace-on-every-path', '%s:%d' % (si.file, si.line), 'some path leaves SetItemInputs without dropping the old inputs (e.g. an early return for an empty input set): replacing inputs by {} keeps stale edges')


# ---------------------------------------------------------------------------------------------- r8: the graph, evaluated
class _Ref:
    """the mathematical directed graph"""
    def __init__(self, nodes=(), edges=()):
        self.nodes = set(nodes)
        self.edges = set(edges)

    def copy(self):
        return _Ref(self.nodes, self.edges)

    def apply(self, op):
        k = op[0]
        if k == 'AddItem':
            self.nodes.add(op[1])
        elif k == 'EraseItem':
            self.nodes.discard(op[1])
            self.edges = {(a, b) for a, b in self.edges if a != op[1] and b != op[1]}
        elif k == 'AddConnection':
            self.nodes |= {op[1], op[2]}
            self.edges.add((op[1], op[2]))
        elif k == 'SetItemInputs':
            self.nodes.add(op[1])
            self.edges = {(a, b) for a, b in self.edges if b != op[1]}
            for s in op[2]:
                self.nodes.add(s)
                self.edges.add((s, op[1]))
        elif k == 'Clear':
            self.nodes, self.edges = set(), set()

    def fwd(self, seeds, back=False):
        seen = set(x for x in seeds if x in self.nodes)
        todo = list(seen)
        while todo:
            x = todo.pop()
            for a, b in self.edges:
                if back:
                    a, b = b, a
                if a == x and b not in seen:
                    seen.add(b)
                    todo.append(b)
        return seen

    def reach_plus(self, u):
        """vertices reachable from u by a path of at least one edge"""
        out = set()
        for a, b in self.edges:
            if a == u:
                out |= self.fwd([b])
        return out

    def has_loop(self):
        return any(u in self.reach_plus(u) for u in self.nodes)

    def loop_groups(self):
        groups = set()
        for u in self.nodes:
            rp = self.reach_plus(u)
            if u in rp:
                groups.add(frozenset(v for v in rp if u in self.reach_plus(v)))
        return groups


def _graph_states(thorough):
    """(name, construction history) pairs; uids 1..3 exhaustively, then named shapes on 4-6 vertices"""
    import itertools as it_
    pairs = [(a, b) for a in (1, 2, 3) for b in (1, 2, 3)]
    states = []
    for mask in range(512):
        es = [p for i, p in enumerate(pairs) if mask >> i & 1]
        hist = [('AddItem', u) for u in (1, 2, 3)] + [('AddConnection', a, b) for a, b in es]
        states.append(('G3#%03d' % mask, hist))
    shapes = {
        'cycle4': [(1, 2), (2, 3), (3, 4), (4, 1)], 'cycle5': [(1, 2), (2, 3), (3, 4), (4, 5), (5, 1)], 'chain5': [(5, 4), (4, 3), (3, 2), (2, 1)],
        'two-cycles-linked': [(1, 2), (2, 1), (2, 3), (3, 4), (4, 3)], 'cycle-with-tail': [(1, 2), (2, 3), (3, 1), (3, 4), (4, 5)], 'tail-into-cycle': [(5, 4), (4, 1), (1, 2), (2, 3), (3, 1)],
        'diamond': [(1, 2), (1, 3), (2, 4), (3, 4)], 'diamond-back': [(1, 2), (1, 3), (2, 4), (3, 4), (4, 1)], 'nested-cycles': [(1, 2), (2, 3), (3, 1), (2, 4), (4, 2)],
        'figure8': [(1, 2), (2, 1), (1, 3), (3, 1)], 'dag-wide': [(1, 4), (2, 4), (3, 4), (4, 5), (4, 6)], 'cross': [(4, 1), (3, 2), (2, 1), (4, 3), (1, 5)],
        'reach-not-on-cycle': [(1, 2), (2, 1), (2, 3), (4, 1)], 'self-and-cycle': [(1, 1), (2, 3), (3, 2), (1, 2)], 'late-source': [(3, 4), (2, 3), (1, 2), (6, 1), (5, 6)],
    }
    for nm, es in shapes.items():
        states.append((nm, [('AddConnection', a, b) for a, b in es]))
        states.append((nm + '/reversed-build', [('AddConnection', a, b) for a, b in reversed(es)]))
    # histories with erasure (tombstones), re-insertion and input replacement
    states.append(('erase-middle', [('AddConnection', 1, 2), ('AddConnection', 2, 3), ('AddConnection', 3, 1), ('EraseItem', 2), ('AddConnection', 3, 4)]))
    states.append(('erase-readd', [('AddConnection', 1, 2), ('AddConnection', 2, 3), ('EraseItem', 2), ('AddConnection', 2, 1), ('AddConnection', 3, 2)]))
    states.append(('erase-all-readd', [('AddItem', 1), ('AddItem', 2), ('EraseItem', 1), ('EraseItem', 2), ('AddConnection', 2, 1), ('AddConnection', 1, 2)]))
    states.append(('replace-inputs', [('AddConnection', 1, 3), ('AddConnection', 2, 3), ('SetItemInputs', 3, (2, 4)), ('AddConnection', 3, 1)]))
    states.append(('replace-inputs-self', [('AddConnection', 1, 2), ('SetItemInputs', 2, (2, 1)), ('SetItemInputs', 1, (2,))]))
    states.append(('clear-rebuild', [('AddConnection', 1, 2), ('AddConnection', 2, 1), ('Clear',), ('AddConnection', 2, 3), ('AddItem', 1)]))
    states.append(('duplicate-edges', [('AddConnection', 1, 2), ('AddConnection', 1, 2), ('AddItem', 1), ('AddConnection', 2, 1), ('AddConnection', 2, 1)]))
    if thorough:
        p4 = [(a, b) for a in (1, 2, 3, 4) for b in (1, 2, 3, 4) if a != b]
        for mask in range(4096):
            es = [p for i, p in enumerate(p4) if mask >> i & 1]
            states.append(('G4#%04d' % mask, [('AddItem', u) for u in (1, 2, 3, 4)] + [('AddConnection', a, b) for a, b in es]))
    return states


_GJOB = [None]


def _graph_job(chunk):
    from engine.evalmini import Interp, Obj, OutOfFragment, NOT_HANDLED, SignedOverflow
    import copy
    import itertools as it_
    db, states, thorough, light = _GJOB[0], chunk[0], chunk[1], chunk[2]
    bad, counts = {}, {}

    def fail(inst, msg, fname):
        if inst not in bad:
            f = db.fn(G + '::' + fname, required=False)
            bad[inst] = ('%s:%d' % (f.file, f.line) if f is not None else '', msg)

    def tick(inst, n=1):
        counts[inst] = counts.get(inst, 0) + n
    vctor = [f for f in db.by_name.get(G + '::Vertex::Vertex', []) if len(f.rec['params']) == 1 and 'Vertex' not in f.rec['params'][0]['type']]
    if len(vctor) != 1:
        return bad, counts, 0, 'anchor vanished: CGraph::Vertex(uid)'

    def on_call(it, fn, n, env):
        cs = n.get('cs') or ''
        if n['k'] == 'CXXMemberCallExpr' and cs == 'std::vector::emplace_back' and 'CGraph::Vertex' in (n.get('callee') or '') and len(n.get('args', [])) == 1 and 'obj' in n:
            o = it.eval(fn, fn.stmts[n['obj']], env)
            a = it.eval(fn, fn.stmts[n['args'][0]], env)
            v = Obj(__cls__=G + '::Vertex')
            it.construct(vctor[0], v, [a])
            o.append(v)
            return v
        if (n.get('callee') or '') == '__assert_fail':
            return None
        return NOT_HANDLED
    steps = 0
    broken = None
    F = {}

    def fn(name):
        if name not in F:
            F[name] = db.fn(G + '::' + name)
        return F[name]
    try:
        for rev in (False, True):
            it = Interp(db, on_call=on_call, max_steps=400000000)
            it.reverse_sets = rev

            def call(this, name, *args):
                return it.call(fn(name), list(args), this)

            def observe(this, ref, label, full):
                uids = sorted(ref.nodes | {1, 2, 9})
                for u in uids:
                    tick('membership')
                    if bool(call(this, 'Contains', u)) != (u in ref.nodes):
                        fail('membership', '%s: Contains(%d) is %s' % (label, u, not (u in ref.nodes)), 'Contains')
                    got = call(this, 'InputsFor', u)
                    tick('inputs')
                    if set(got) != {a for a, b in ref.edges if b == u}:
                        fail('inputs', '%s: InputsFor(%d) = %s, the graph has %s' % (label, u, sorted(got), sorted(a for a, b in ref.edges if b == u)), 'InputsFor')
                    for v in uids:
                        tick('edges')
                        if bool(call(this, 'ConnectionExists', u, v)) != ((u, v) in ref.edges):
                            fail('edges', '%s: ConnectionExists(%d, %d) is %s' % (label, u, v, (u, v) not in ref.edges), 'ConnectionExists')
                        tick('reachability')
                        want = v in ref.reach_plus(u)           # a path of at least one edge: the convention the self-loop case fixes
                        if bool(call(this, 'IsReachableFrom', v, u)) != want:
                            fail('reachability', '%s: IsReachableFrom(dest=%d, source=%d) is %s%s' % (label, v, u, not want, ' although the item lies on a cycle' if u == v else ''), 'IsReachableFrom')
                tick('counts')
                ic, cc = call(this, 'ItemsCount'), call(this, 'ConnectionsCount')
                if ic != len(ref.nodes) or cc != len(ref.edges):
                    fail('counts', '%s: ItemsCount/ConnectionsCount = %s/%s, the graph has %d items and %d edges' % (label, ic, cc, len(ref.nodes), len(ref.edges)), 'ConnectionsCount')
                tick('cycles')
                hl = bool(call(this, 'HasLoop'))
                if hl != ref.has_loop():
                    fail('cycles', '%s: HasLoop() is %s' % (label, hl), 'HasLoop')
                groups = call(this, 'GetAllLoopsItems')
                tick('cycle-groups')
                gs = [frozenset(g) for g in groups]
                if len(set(gs)) != len(gs) or set(gs) != ref.loop_groups():
                    fail('cycle-groups', '%s: GetAllLoopsItems() = %s, the strongly connected components containing a cycle are %s' % (label, sorted(sorted(g) for g in gs), sorted(sorted(g) for g in ref.loop_groups())), 'GetAllLoopsItems')
                order = list(call(this, 'TopologicalOrder'))
                inv = list(call(this, 'InverseTopologicalOrder'))
                tick('topological-order')
                if sorted(order) != sorted(ref.nodes) or sorted(inv) != sorted(ref.nodes):
                    fail('topological-order', '%s: TopologicalOrder() = %s does not list every live item exactly once (items %s)' % (label, order, sorted(ref.nodes)), 'TopologicalOrder')
                elif not ref.has_loop():
                    pos = {v: i for i, v in enumerate(order)}
                    ipos = {v: i for i, v in enumerate(inv)}
                    for a, b in ref.edges:
                        if pos[a] > pos[b] or ipos[a] < ipos[b]:
                            fail('topological-order', '%s: edge %d->%d but TopologicalOrder() = %s, InverseTopologicalOrder() = %s' % (label, a, b, order, inv), 'InternalOrder')
                            break
                if not full:
                    return
                pool = sorted(ref.nodes)[:4] + [9]
                for r_ in range(0, len(pool) + 1):
                    for S in it_.combinations(pool, r_):
                        S = set(S)
                        tick('closures', 2)
                        eo = set(call(this, 'ExpandOutputs', set(S)))
                        ei = set(call(this, 'ExpandInputs', set(S)))
                        if eo != ref.fwd(S):
                            fail('closures', '%s: ExpandOutputs(%s) = %s, the forward closure is %s' % (label, sorted(S), sorted(eo), sorted(ref.fwd(S))), 'ExpandOutputs')
                        if ei != ref.fwd(S, back=True):
                            fail('closures', '%s: ExpandInputs(%s) = %s, the backward closure is %s' % (label, sorted(S), sorted(ei), sorted(ref.fwd(S, back=True))), 'ExpandInputs')
                        srt = list(call(this, 'Sort', set(S)))
                        tick('sort')
                        if srt != [v for v in order if v in S]:
                            fail('sort', '%s: Sort(%s) = %s, the topological order restricted to it is %s' % (label, sorted(S), srt, [v for v in order if v in S]), 'Sort')
            for name, hist in states:
                this = it.default_construct(G)
                ref = _Ref()
                for op in hist:
                    call(this, op[0], *[set(a) if isinstance(a, tuple) else a for a in op[1:]])
                    ref.apply(op)
                label = '%s [%s]%s' % (name, ' '.join('%s(%s)' % (o[0], ','.join(str(x) for x in o[1:])) for o in hist if o[0] != 'AddItem' or name[0] != 'G'), ' (sets visited descending)' if rev else '')
                with_updates = not light and not name.startswith('G4') and not (name.startswith('G3') and int(name[3:]) % (2 if thorough else 17) != 1)
                if rev and not with_updates and name[0] == 'G' and name[1] in '34' and not thorough:
                    continue                      # the exhaustive part is observed under one visiting order in the quick tier
                observe(this, ref, label, True)
                # every mutating operation from this state
                if not with_updates:
                    continue
                nodes = sorted(ref.nodes)
                ops = [('EraseItem', u) for u in nodes + [9]] + [('AddItem', 7), ('AddItem', nodes[0] if nodes else 7)] + [('AddConnection', a, b) for a in nodes[:3] + [7] for b in nodes[:3] + [7]]
                ops += [('SetItemInputs', u, S) for u in nodes[:3] + [7] for r_ in range(0, 3) for S in it_.combinations(nodes[:3] + [8], r_)]
                if not thorough and name[0] != 'G' and nodes:
                    first, last, mid = nodes[0], nodes[-1], nodes[len(nodes) // 2]
                    ops = [('EraseItem', u) for u in nodes] + [('AddConnection', last, first), ('AddConnection', first, last), ('AddConnection', first, 7), ('AddConnection', mid, mid),
                                                             ('SetItemInputs', first, (last,)), ('SetItemInputs', last, ()), ('SetItemInputs', mid, (first, last)), ('SetItemInputs', 7, (mid, first))]
                for op in ops:
                    t2 = copy.deepcopy(this)
                    r2 = ref.copy()
                    call(t2, op[0], *[set(a) if isinstance(a, tuple) else a for a in op[1:]])
                    r2.apply(op)
                    tick('updates')
                    observe(t2, r2, '%s then %s(%s)' % (label, op[0], ','.join(str(x) for x in op[1:])), False)
            steps += it.steps
    except SignedOverflow as e:
        fail('no-undefined-behaviour', str(e), 'HasLoop')
    except OutOfFragment as e:
        msg = str(e)
        if 'undefined behaviour' in msg or 'out of range' in msg or 'missing key' in msg or 'dereference' in msg:
            fail('no-undefined-behaviour', 'a sequence of public calls reaches %s' % msg, 'EraseInternal')
        elif not bad:
            broken = 'CGraph outside the evaluable fragment: %s' % msg
    return bad, counts, steps, broken


ALL_GRAPH_INSTANCES = ('membership', 'edges', 'inputs', 'counts', 'reachability', 'cycles', 'cycle-groups', 'topological-order', 'closures', 'sort')


def graph_evaluated(db, rep, rule, instances=ALL_GRAPH_INSTANCES, light=False, note_prefix='r8'):
    """light: the construction histories only (no further updates, every eighth three-item graph) - used by properties that rely on single queries"""
    import multiprocessing
    thorough = rep.tier == 'thorough'
    states = _graph_states(thorough and not light)
    if light:
        states = [s_ for s_ in states if not s_[0].startswith('G3') or int(s_[0][3:]) % 8 == 5]
    nproc = 16
    chunks = [(states[i::nproc], thorough and not light, light) for i in range(nproc)]
    _GJOB[0] = db
    try:
        with multiprocessing.get_context('fork').Pool(nproc) as pool:
            results = pool.map(_graph_job, chunks, 1)
    finally:
        _GJOB[0] = None
    bad, counts, steps = {}, {}, 0
    for b_, c_, s_, br in results:
        if br:
            rule.broken(br)
        for k_, v_ in b_.items():
            bad.setdefault(k_, v_)
        for k_, v_ in c_.items():
            counts[k_] = counts.get(k_, 0) + v_
        steps += s_
    if rule.broken_reason:
        return
    rep.note(note_prefix + '_states', len(states))
    rep.note(note_prefix + '_evaluations', {k_: v_ for k_, v_ in counts.items() if k_ in instances})
    rep.note(note_prefix + '_interpreter_steps', steps)
    for inst in instances:
        if inst in bad:
            rule.violation(inst, bad[inst][0], bad[inst][1])
        elif counts.get(inst):
            rule.ok(inst, '%d evaluated queries on %d construction histories (both visiting orders of unordered sets), each also after every single update, agree with the mathematical graph' % (counts[inst], len(states)))
    if 'no-undefined-behaviour' in bad:
        rule.violation('no-undefined-behaviour', bad['no-undefined-behaviour'][0], bad['no-undefined-behaviour'][1])
