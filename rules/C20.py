"""C20 — UTF-8 utilities and interval algebra agree with their definitions.

Decided (DESIGN.md section 4, C20 and Appendix A):
 r1 INTERVAL-TABLE  every StrRange relation, Intersect and the Merge step, summarised from the AST and evaluated on every
                    order type of the four end points (exact for all integers when the body only compares), equals the
                    end-point definition.
 r2 LEAD-BYTE       UTF8CharSize over all 256 byte values equals the UTF-8 lead-byte classes.
 r3 ITER-STEP       UTF8Iterator::operator++ and GotoCodepoint advance the byte offset by SymbolSize() and the code-point
                    index by one, and both set endPos exactly under `size(data) <= bytePosition`; SymbolSize reads the lead
                    byte at bytePosition through UTF8CharSize; iterator equality compares the code-point index.
 r4 DERIVED         operator!= is the negation of operator==; IsAfter is the dual of IsBefore; SharesBorder and Overlaps are
                    symmetric (checked on the table of r1).
Not decided: index arithmetic of SplitBySymbol / TrimWhitespace / IsInteger / Substr / SizeInCodePoints over all strings.
"""
import itertools

from engine import evalmini
from engine.evalmini import Interp, Obj, OutOfFragment, NOT_HANDLED

UNITS = ['cclLang']   # Strings.hpp is header-only; one unit that includes it is enough

RANGE = 'ccl::StrRange'
WINDOW = range(0, 6)        # quick tier; the thorough tier widens it (see check)


def _mk(s, f):
    o = Obj(start=s, finish=f)
    o['__cls__'] = RANGE
    return o


def _comparison_only(fn, db, seen=None):
    """True when the body (and the repo functions it calls) only reads fields, compares, combines booleans, takes min/max."""
    if seen is None:
        seen = set()
    if fn.name + fn.mn in seen:
        return True
    seen.add(fn.name + fn.mn)
    for n in fn.walk():
        k = n['k']
        if k in ('BinaryOperator', 'CompoundAssignOperator') and n.get('op') not in ('==', '!=', '<', '>', '<=', '>=', '&&', '||', '='):
            return False
        if k == 'UnaryOperator' and n.get('op') not in ('!', '*', '&'):
            return False
        if k in ('IntegerLiteral',):
            return False
        if k in ('CallExpr', 'CXXMemberCallExpr', 'CXXOperatorCallExpr'):
            t = db.by_mn.get(n.get('mn') or '')
            if t is not None and t.body >= 0 and not t.rec.get('ctor'):
                if not _comparison_only(t, db, seen):
                    return False
    return True


def _interp(db):
    def on_call(it, fn, n, env):
        cs = n.get('cs')
        if cs == 'std::empty' and n.get('args'):
            v = it.eval(fn, fn.stmts[n['args'][0]], env)
            if isinstance(v, Obj):
                return it.call(db.fn(RANGE + '::empty'), [], v)
            if isinstance(v, (list, bytes, bytearray)):
                return len(v) == 0
            raise OutOfFragment('std::empty on non-range')
        return NOT_HANDLED
    return Interp(db, on_call=on_call)


# ---- oracle: end-point definitions (Appendix A of DESIGN.md). a, b are (s, f) pairs with s <= f.
def _o_contains_range(a, b):
    if b[0] == b[1]:
        return a[0] <= b[1] < a[1]      # documented position semantics for an empty argument
    return a[0] <= b[0] and b[1] <= a[1]


def _o_intersect(a, b):
    if a[1] < b[0] or b[1] < a[0]:
        return None
    return (max(a[0], b[0]), min(a[1], b[1]))


ORACLE = {
    'operator==': lambda a, b: a[0] == b[0] and a[1] == b[1],
    'operator!=': lambda a, b: not (a[0] == b[0] and a[1] == b[1]),
    'Contains#range': _o_contains_range,
    'IsBefore': lambda a, b: a[1] < b[0],
    'IsAfter': lambda a, b: b[1] < a[0],
    'Meets': lambda a, b: a[1] == b[0],
    'SharesBorder': lambda a, b: a[1] == b[0] or b[1] == a[0],
    'Starts': lambda a, b: a[0] == b[0] and a[1] < b[1],
    'Finishes': lambda a, b: a[1] == b[1] and a[0] > b[0],
    'IsDuring': lambda a, b: a[0] > b[0] and a[1] < b[1],
    'Intersect': _o_intersect,
}


def _overlaps_oracle(a, b):
    """'the half-open ranges share a position', asserted on non-empty ranges only (empty ranges: symmetric only)."""
    if a[0] == a[1] or b[0] == b[1]:
        return None
    return max(a[0], b[0]) < min(a[1], b[1])


def check(db, rep):
    global WINDOW
    WINDOW = range(0, 9) if rep.tier == 'thorough' else range(0, 6)
    rep.note('interval_window', [WINDOW.start, WINDOW.stop])
    rep.explanation = ('Interval relations are decided exactly: each method body is summarised from the typed AST and evaluated on every '
                       'order type of the end points (comparison-only code is invariant under order isomorphism, so a window containing all '
                       'weak orderings is complete for all integers); UTF8CharSize is tabulated over its whole 256-value domain; the two '
                       'iterator advance routines are compared structurally. String index arithmetic is not decided.')
    rec = db.record(RANGE)
    methods = {}
    for f in db.methods_of(RANGE):
        if f.rec.get('ctor') or f.rec.get('dtor'):
            continue
        key = f.name.split('::')[-1]
        if key == 'Contains':
            key = 'Contains#range' if 'StrRange' in f.rec['params'][0]['type'] else 'Contains#pos'
        methods[key] = f

    pairs = [((a0, a1), (b0, b1)) for a0, a1, b0, b1 in itertools.product(WINDOW, repeat=4) if a0 <= a1 and b0 <= b1]
    ordertypes = set()
    for a, b in pairs:
        vals = sorted(set(a + b))
        ordertypes.add(tuple(vals.index(x) for x in a + b))
    rep.note('range_pairs_evaluated_per_method', len(pairs))
    rep.note('order_types_covered', len(ordertypes))

    r1 = rep.rule('r1', 'INTERVAL-TABLE: each StrRange relation / Intersect / Merge, evaluated on every order type of the end points, equals its end-point definition', 12)
    tables = {}
    for name, oracle in ORACLE.items():
        f = methods.get(name)
        if f is None:
            r1.broken('anchor vanished: StrRange::%s' % name)
            continue
        exact = _comparison_only(f, db)
        bad = None
        tab = {}
        try:
            for a, b in pairs:
                it = _interp(db)
                got = it.call(f, [_mk(*b)], _mk(*a))
                if isinstance(got, Obj):
                    got = (got['start'], got['finish'])
                tab[(a, b)] = got
                want = oracle(a, b)
                if got != want and bad is None:
                    bad = (a, b, got, want)
        except OutOfFragment as e:
            r1.broken('StrRange::%s outside the summarised fragment: %s' % (name, e))
            continue
        tables[name] = tab
        if bad:
            a, b, got, want = bad
            r1.violation(name, '%s:%d' % (f.file, f.line), '[%d,%d).%s([%d,%d)) evaluates to %s, the end-point definition gives %s' % (a[0], a[1], name.split('#')[0], b[0], b[1], got, want))
        else:
            r1.ok(name, '%d pairs (%d order types)%s' % (len(pairs), len(ordertypes), ', exact for all integers: body only compares' if exact else ', bounded window: body uses arithmetic'), '%s:%d' % (f.file, f.line))

    # Contains(pos)
    f = methods.get('Contains#pos')
    if f is None:
        r1.broken('anchor vanished: StrRange::Contains(StrPos)')
    else:
        bad = None
        n = 0
        try:
            for s, e, p in itertools.product(WINDOW, repeat=3):
                if s > e:
                    continue
                n += 1
                got = _interp(db).call(f, [p], _mk(s, e))
                if got != (s <= p < e) and bad is None:
                    bad = (s, e, p, got)
            if bad:
                r1.violation('Contains#pos', '%s:%d' % (f.file, f.line), '[%d,%d).Contains(%d) evaluates to %s' % bad)
            else:
                r1.ok('Contains#pos', '%d (range,position) triples' % n, '%s:%d' % (f.file, f.line))
        except OutOfFragment as e:
            r1.broken('StrRange::Contains(pos) outside the fragment: %s' % e)

    # Overlaps
    f = methods.get('Overlaps')
    if f is None:
        r1.broken('anchor vanished: StrRange::Overlaps')
    else:
        try:
            tab = {}
            bad = None
            for a, b in pairs:
                got = _interp(db).call(f, [_mk(*b)], _mk(*a))
                tab[(a, b)] = got
                want = _overlaps_oracle(a, b)
                if want is not None and got != want and bad is None:
                    bad = (a, b, got, want)
            tables['Overlaps'] = tab
            if bad:
                a, b, got, want = bad
                r1.violation('Overlaps', '%s:%d' % (f.file, f.line), '[%d,%d).Overlaps([%d,%d)) evaluates to %s; the ranges %s a position' % (a[0], a[1], b[0], b[1], got, 'share' if want else 'do not share'))
            else:
                r1.ok('Overlaps', 'non-empty pairs agree with max(starts) < min(finishes)', '%s:%d' % (f.file, f.line))
        except OutOfFragment as e:
            r1.broken('StrRange::Overlaps outside the fragment: %s' % e)

    # Merge: the whole function on every list of up to three ranges in a small window (no assumption about how it is written)
    mf = methods.get('Merge')
    if mf is None:
        r1.broken('anchor vanished: StrRange::Merge')
    else:
        try:
            spans = [(a_, b_) for a_ in range(0, 4) for b_ in range(a_, 4)]
            badm = None
            n_l = 0
            for k_ in (0, 1, 2, 3):
                for lst in itertools.product(spans, repeat=k_):
                    n_l += 1
                    got = _interp(db).call(mf, [[_mk(*x) for x in lst]])
                    got = (got['start'], got['finish']) if isinstance(got, Obj) else got
                    want = (min(x[0] for x in lst), max(x[1] for x in lst)) if lst else (0, 0)
                    if got != want and badm is None:
                        badm = (lst, got, want)
            if badm:
                r1.violation('Merge', '%s:%d' % (mf.file, mf.line), 'Merge(%s) gives %s, the smallest covering range is %s' % (list(badm[0]), badm[1], badm[2]))
            else:
                r1.ok('Merge', 'smallest covering range on %d lists of up to three ranges' % n_l, '%s:%d' % (mf.file, mf.line))
        except OutOfFragment as e:
            r1.broken('StrRange::Merge outside the fragment: %s' % e)

    # r4 derived relations on the tables
    r4 = rep.rule('r4', 'DERIVED: != is the negation of ==, IsAfter the dual of IsBefore, SharesBorder/Overlaps/== symmetric, before/meets/after mutually exclusive, Intersect never inverted', 5)
    if all(k in tables for k in ('operator==', 'operator!=', 'IsBefore', 'IsAfter', 'SharesBorder', 'Overlaps', 'Meets', 'Intersect')):
        def law(name, pred):
            for a, b in pairs:
                if not pred(a, b):
                    r4.violation(name, '%s:%d' % (rec['file'], rec['line']), 'law fails for a=[%d,%d) b=[%d,%d)' % (a[0], a[1], b[0], b[1]))
                    return
            r4.ok(name, 'holds on all %d pairs' % len(pairs))
        T = tables
        law('neq-negates-eq', lambda a, b: T['operator!='][(a, b)] == (not T['operator=='][(a, b)]))
        law('after-dual-before', lambda a, b: T['IsAfter'][(a, b)] == T['IsBefore'][(b, a)])
        law('sharesborder-symmetric', lambda a, b: T['SharesBorder'][(a, b)] == T['SharesBorder'][(b, a)])
        law('overlaps-symmetric', lambda a, b: T['Overlaps'][(a, b)] == T['Overlaps'][(b, a)])
        law('before-meets-after-exclusive', lambda a, b: sum(1 for x in (T['IsBefore'][(a, b)], T['Meets'][(a, b)], T['IsAfter'][(a, b)]) if x) <= 1)
        law('intersect-not-inverted', lambda a, b: T['Intersect'][(a, b)] is None or T['Intersect'][(a, b)][0] <= T['Intersect'][(a, b)][1])
    else:
        r4.broken('tables of r1 incomplete')

    # r2 lead byte
    r2 = rep.rule('r2', 'LEAD-BYTE: UTF8CharSize(b) = 1/2/3/4 for b in 0xxxxxxx / 110xxxxx / 1110xxxx / 11110xxx, for all 256 byte values', 1)
    cf = db.fn('ccl::UTF8CharSize')
    try:
        bad = None
        for b in range(256):
            got = Interp(db).call(cf, [b])
            if b < 0x80:
                want = 1
            elif 0xC0 <= b < 0xE0:
                want = 2
            elif 0xE0 <= b < 0xF0:
                want = 3
            elif 0xF0 <= b < 0xF8:
                want = 4
            else:
                want = None   # continuation / invalid lead bytes: "requires UTF8 conforming input"
            if want is not None and got != want and bad is None:
                bad = (b, got, want)
        if bad:
            r2.violation('UTF8CharSize', '%s:%d' % (cf.file, cf.line), 'lead byte 0x%02X gives size %s, UTF-8 defines %d' % bad)
        else:
            r2.ok('UTF8CharSize', '248 valid lead bytes tabulated (continuation/invalid bytes excluded by the documented precondition)', '%s:%d' % (cf.file, cf.line))
    except OutOfFragment as e:
        r2.broken('UTF8CharSize outside the fragment: %s' % e)

    # r3 iterator step
    r3 = rep.rule('r3', 'ITER-STEP: operator++ and GotoCodepoint advance bytePosition by SymbolSize() and the index by one; endPos is set exactly when size(data) <= bytePosition; SymbolSize = UTF8CharSize(data[bytePosition]); equality compares the index', 5)
    IT = 'ccl::UTF8Iterator'
    inc = db.fn(IT + '::operator++')
    goto = db.fn(IT + '::GotoCodepoint')
    sym = db.fn(IT + '::SymbolSize')
    eq = db.fn(IT + '::operator==')
    for f in (inc, goto):
        _iter_step(r3, f)
    # SymbolSize
    ok = False
    for n in sym.calls():
        if n.get('cs') == 'ccl::UTF8CharSize':
            roots = [x for x in sym.walk(n) if x['k'] == 'MemberExpr' and x.get('member') in ('bytePosition', 'data')]
            names = {x['member'] for x in roots}
            sub = [x for x in sym.walk(n) if x['k'] == 'CXXOperatorCallExpr' and x.get('op') == '[]']
            if names == {'bytePosition', 'data'} and len(sub) == 1:
                idx = sym.strip(sym.stmts[sub[0]['args'][1]])
                if idx['k'] == 'MemberExpr' and idx.get('member') == 'bytePosition':
                    ok = True
    if ok:
        r3.ok('SymbolSize', 'UTF8CharSize(data[bytePosition])', '%s:%d' % (sym.file, sym.line))
    else:
        r3.violation('SymbolSize', '%s:%d' % (sym.file, sym.line), 'SymbolSize does not compute UTF8CharSize of the byte at bytePosition')
    # equality
    members = sorted({x.get('member') for x in eq.walk() if x['k'] == 'MemberExpr'})
    ops = [x.get('op') for x in eq.walk() if x['k'] == 'BinaryOperator']
    if members == ['current'] and ops == ['==']:
        r3.ok('operator==', 'compares the code-point index', '%s:%d' % (eq.file, eq.line))
    else:
        r3.violation('operator==', '%s:%d' % (eq.file, eq.line), 'iterator equality compares %s with %s; UTF8End() is recognised only through the code-point index' % (members, ops))
    # endPos constant and UTF8End
    ue = db.fn('ccl::UTF8End')
    args = [n for n in ue.walk() if n['k'] == 'DeclRefExpr' and n.get('name') == 'endPos']
    if args:
        r3.ok('UTF8End', 'constructed at endPos', '%s:%d' % (ue.file, ue.line), nontrivial=False)
    else:
        r3.violation('UTF8End', '%s:%d' % (ue.file, ue.line), 'UTF8End is not constructed at UTF8Iterator::endPos')
    _strings_rules(db, rep)
    _split_and_integer(db, rep)


def _iter_step(rule, f):
    """advance statements: bytePosition += SymbolSize(); ++current; and `if (size(data) <= bytePosition) current = endPos`."""
    name = f.name.split('::')[-1]
    where = '%s:%d' % (f.file, f.line)
    adv = [n for n in f.walk() if n['k'] == 'CompoundAssignOperator' and n.get('op') == '+=']
    good_adv = False
    for n in adv:
        l, r = (f.strip(x) for x in f.children(n))
        if l['k'] == 'MemberExpr' and l.get('member') == 'bytePosition' and any(c.get('cs') == 'ccl::UTF8Iterator::SymbolSize' for c in f.calls(r)) and r['k'] == 'CXXMemberCallExpr':
            good_adv = True
    incs = [n for n in f.walk() if n['k'] == 'UnaryOperator' and n.get('op') == '++' and f.strip(f.children(n)[0]).get('member') == 'current']
    ends = []
    for n in f.walk():
        if n['k'] == 'IfStmt':
            c = f.strip(f.stmts[n['cond']])
            then_assign = [x for x in f.walk(f.stmts[n['then']]) if x['k'] == 'BinaryOperator' and x.get('op') == '=' and f.strip(f.children(x)[0]).get('member') == 'current'
                           and any(y['k'] == 'DeclRefExpr' and y.get('name') == 'endPos' for y in f.walk(f.children(x)[1]))]
            if then_assign and 'else' not in n:
                ends.append(c)
    problems = []
    if not good_adv or len(adv) != 1:
        problems.append('byte offset is not advanced by exactly `bytePosition += SymbolSize()`')
    if len(incs) != 1:
        problems.append('code-point index is not incremented exactly once per step')
    cond_ok = False
    for c in ends:
        if c['k'] == 'BinaryOperator' and c.get('op') in ('<=', '>='):
            l, r = (f.strip(x) for x in f.children(c))
            if c['op'] == '>=':
                l, r = r, l
            lsize = l['k'] == 'CallExpr' and l.get('cs') in ('std::size', 'std::ssize') or (l['k'] == 'CXXMemberCallExpr' and (l.get('cs') or '').endswith('::size'))
            lsize = lsize and any(x['k'] == 'MemberExpr' and x.get('member') == 'data' for x in f.walk(l))
            if lsize and r['k'] == 'MemberExpr' and r.get('member') == 'bytePosition':
                cond_ok = True
    if not cond_ok:
        problems.append('end detection is not `size(data) <= bytePosition` -> current = endPos')
    # the end test must come after the advance on every path
    if not problems:
        rule.ok(name, 'advance by SymbolSize(), ++current, end test size(data) <= bytePosition', where)
    else:
        rule.violation(name, where, '; '.join(problems))


def substr_evaluated(db, r5, thorough):
    """C20 r5 (shared with C17 r18): ccl::Substr interpreted on every text of up to three (thorough: four) code points of 1 to 4 bytes and every range"""
    import itertools
    from engine.evalmini import Interp, Obj, OutOfFragment, NOT_HANDLED

    def hook(it, fn, n, env):
        if (n.get('cs') or '') == '__assert_fail':
            return None          # release semantics (NDEBUG)
        return NOT_HANDLED
    f = db.fn('ccl::Substr', required=False)
    if f is None:
        r5.broken('anchor vanished: ccl::Substr')
    else:
        units = ['a', 'b', 'б', 'ℬ', '\U0001d4d0']          # 1, 1, 2, 3 and 4 byte code points
        bad, cases = None, 0
        try:
            for n_cp in range(0, 5 if thorough else 4):
                for cps in itertools.product(units, repeat=n_cp):
                    text = ''.join(cps)
                    data = text.encode('utf-8')
                    for s0 in range(0, n_cp + 3):              # well-formed ranges (start <= finish), inside and outside the text
                        for f0 in range(s0, n_cp + 3):
                            cases += 1
                            got = Interp(db, on_call=hook).call(f, [data, Obj(start=s0, finish=f0)])
                            want = text[s0:f0].encode('utf-8') if 0 <= s0 < f0 <= n_cp else b''
                            if got is None or got == []:
                                got = b''
                            if bytes(got) != want and bad is None:
                                bad = 'Substr(%r, [%d,%d)) yields %r, the code points %d..%d are %r' % (text, s0, f0, bytes(got).decode('utf-8', 'replace'), s0, f0 - 1, want.decode('utf-8'))
        except OutOfFragment as e:
            if str(e).startswith('call to '):
                r5.broken('Substr outside the evaluable fragment: %s' % e)
                bad = None
            else:
                bad = 'Substr faults (%s)' % e
        if bad:
            r5.violation('Substr', '%s:%d' % (f.file, f.line), bad)
        else:
            r5.ok('Substr', 'agrees with code-point slicing on %d (text, range) cases over 1- to 4-byte code points' % cases, '%s:%d' % (f.file, f.line))


def _strings_rules(db, rep):
    """r5 SUBSTR / r6 TRIM / r7 MERGE: ccl::Substr, ccl::TrimWhitespace and StrRange::Merge evaluated from their AST on every small input against
    their definitions (code-point slicing with out-of-range -> empty; stripping the C whitespace set at both ends; smallest covering range)."""
    import itertools
    from engine.evalmini import Interp, Obj, OutOfFragment, NOT_HANDLED
    SPACES = (32, 9, 10, 11, 12, 13)

    def hook(it, fn, n, env):
        cs = n.get('cs') or ''
        if cs in ('std::isspace', 'isspace') and n.get('args'):
            v = it.eval(fn, fn.stmts[n['args'][0]], env)
            return 1 if v in SPACES else 0
        if cs == '__assert_fail':
            return None          # release semantics (NDEBUG): the shipped library is built without assertions
        return NOT_HANDLED
    thorough = rep.tier == 'thorough'
    # ---- Substr
    r5 = rep.rule('r5', 'SUBSTR: Substr(text, [s,f)) is the text of the code points s..f-1, and empty when the range is empty, inverted or not inside the text', 1)
    substr_evaluated(db, r5, thorough)
    # ---- TrimWhitespace
    r6 = rep.rule('r6', 'TRIM: TrimWhitespace removes exactly the leading and trailing run of C whitespace (space, \\t, \\n, \\v, \\f, \\r), also for all-whitespace and one-character strings', 1)
    g = db.fn('ccl::TrimWhitespace', required=False)
    if g is None:
        r6.broken('anchor vanished: ccl::TrimWhitespace')
    else:
        alphabet = [b' ', b'\t', b'\n', b'\v', b'\f', b'\r', b'a', b'\xd0\xb1']
        bad, cases = None, 0
        try:
            for ln in range(0, 5 if thorough else 4):
                for parts in itertools.product(alphabet, repeat=ln):
                    data = b''.join(parts)
                    cases += 1
                    it_ = Interp(db, on_call=hook)
                    it_.signed_char = True       # plain char is signed where the library is built: an ordered comparison sees the bytes of a multi-byte sequence as negative
                    got = it_.call(g, [data])
                    if isinstance(got, list) and len(got) == 2 and isinstance(got[0], tuple) and got[0][0] == 'sptr':
                        got = got[0][1][got[0][2]:got[0][2] + got[1]]
                    want = data.strip(bytes(SPACES))
                    if bytes(got or b'') != want and bad is None:
                        bad = 'TrimWhitespace(%r) yields %r, expected %r' % (data, bytes(got or b''), want)
        except OutOfFragment as e:
            if str(e).startswith('call to '):
                r6.broken('TrimWhitespace outside the evaluable fragment: %s' % e)
                bad = None
            else:
                bad = 'TrimWhitespace faults (%s)' % e
        if bad:
            r6.violation('TrimWhitespace', '%s:%d' % (g.file, g.line), bad)
        else:
            r6.ok('TrimWhitespace', 'agrees with stripping the C whitespace set on %d strings' % cases, '%s:%d' % (g.file, g.line))


def _split_and_integer(db, rep):
    """r7: SplitBySymbol = splitting at every delimiter keeping empty fields (always at least one field); IsInteger = optional '-' then >= 1 digits"""
    import itertools
    import re
    from engine.evalmini import Interp, Obj, OutOfFragment, NOT_HANDLED

    def hook(it, fn, n, env):
        cs = n.get('cs') or ''
        if cs in ('std::isdigit', 'isdigit') and n.get('args'):
            v = it.eval(fn, fn.stmts[n['args'][0]], env)
            return 1 if 48 <= v <= 57 else 0
        if cs == '__assert_fail':
            return None
        if n['k'] == 'CXXMemberCallExpr' and cs.endswith('vector::emplace_back') and len(n.get('args', [])) == 2 and 'obj' in n:
            o = it.eval(fn, fn.stmts[n['obj']], env)
            p, ln = (it.eval(fn, fn.stmts[a], env) for a in n['args'])
            if isinstance(o, list) and isinstance(p, tuple) and p[0] == 'sptr':
                if not (0 <= p[2] and ln >= 0 and p[2] + ln <= len(p[1])):
                    raise OutOfFragment('field [%d,%d) outside the text of %d bytes' % (p[2], p[2] + ln, len(p[1])))
                o.append(bytes(p[1][p[2]:p[2] + ln]))
                return None
        return NOT_HANDLED
    r7 = rep.rule('r7', 'SPLIT / INTEGER: SplitBySymbol yields the fields between delimiters (empty fields kept, one field for an empty text); IsInteger accepts exactly -?[0-9]+', 2)
    thorough = rep.tier == 'thorough'
    f = db.fn('ccl::SplitBySymbol', required=False)
    if f is None:
        r7.broken('anchor vanished: ccl::SplitBySymbol')
    else:
        bad, cases = None, 0
        try:
            for ln in range(0, 6 if thorough else 5):
                for parts in itertools.product([b'|', b'a', b'\xd0\xb1'], repeat=ln):
                    data = b''.join(parts)
                    cases += 1
                    got = Interp(db, on_call=hook).call(f, [data, ord('|')])
                    want = data.split(b'|')
                    if list(got) != want and bad is None:
                        bad = 'SplitBySymbol(%r, "|") yields %r, the fields are %r' % (data, list(got), want)
        except OutOfFragment as e:
            if str(e).startswith('call to '):
                r7.broken('SplitBySymbol outside the evaluable fragment: %s' % e)
            else:
                bad = 'SplitBySymbol faults (%s)' % e
        if bad:
            r7.violation('SplitBySymbol', '%s:%d' % (f.file, f.line), bad)
        else:
            r7.ok('SplitBySymbol', 'agrees with field splitting on %d texts (including empty and all-delimiter ones)' % cases, '%s:%d' % (f.file, f.line))
    g = db.fn('ccl::IsInteger', required=False)
    if g is None:
        r7.broken('anchor vanished: ccl::IsInteger')
    else:
        bad, cases = None, 0
        try:
            for ln in range(0, 5 if thorough else 4):
                for chars in itertools.product('-09a ', repeat=ln):
                    text = ''.join(chars)
                    cases += 1
                    got = Interp(db, on_call=hook).call(g, [text.encode()])
                    want = re.fullmatch(r'-?[0-9]+', text) is not None
                    if bool(got) != want and bad is None:
                        bad = 'IsInteger(%r) is %s' % (text, bool(got))
        except OutOfFragment as e:
            if str(e).startswith('call to '):
                r7.broken('IsInteger outside the evaluable fragment: %s' % e)
            else:
                bad = 'IsInteger faults (%s)' % e
        if bad:
            r7.violation('IsInteger', '%s:%d' % (g.file, g.line), bad)
        else:
            r7.ok('IsInteger', 'accepts exactly -?[0-9]+ on %d strings' % cases, '%s:%d' % (g.file, g.line))
