"""TRANSLATE-ONCE — a copied constituent has the names in its texts rewritten exactly once, by the complete old->new map.

The single-item inserters of RSCore (Insert / InsertCopy(uid, source) / InsertCopy(record) / Load) already rewrite the copy with the
one-entry map {own old alias -> own new alias}. An operation that inserts copies with one of them and afterwards applies the complete map to
the same constituents (RSCore::Translate) rewrites self-mentions and chained names twice (X1->X2->X3). It is accepted only when every
name-bearing text (formal definition, convention, term, text definition) is stored again from the source between the two steps.
Slots are filled from the repository: the inserters are the RSCore members that call RSConcept::Translate / TextConcept::TranslateRaw on the
constituent they insert; wrappers are functions returning (a local initialised by) such a call.
"""

RESETTERS = {'SetExpressionFor': 'formal definition', 'SetConventionFor': 'convention', 'SetDefinitionFor': 'text definition', 'SetTermFor': 'term'}


def translate_once_rule(db, rule):
    core = 'ccl::semantic::RSCore::'
    TI = set()
    for f in db.functions:
        if f.body < 0 or f.rec.get('dependent') or not f.name.startswith(core) or f.name.split('::')[-1] not in ('Insert', 'InsertCopy', 'Load'):
            continue
        cs = {n.get('cs') for n in f.calls()}
        if any(c and (c.endswith('RSConcept::Translate') or c.endswith('TextConcept::TranslateRaw')) for c in cs) and not any('vector' in p['type'] for p in f.rec.get('params', [])):
            TI.add(f.rec['mn'])
    if not TI:
        rule.broken('no single-item inserter of RSCore that translates its copy was found (anchors RSCore::Insert / InsertCopy / Load)')
        return 0
    W = set(TI)
    changed = True
    while changed:
        changed = False
        for f in db.functions:
            if f.body < 0 or f.rec.get('mn') in W or f.rec.get('dependent'):
                continue
            for _, r in f.return_sites():
                if 'value' not in r:
                    continue
                v = f.strip(f.stmts[r['value']])
                if v is None:
                    continue
                src = v
                if v['k'] == 'DeclRefExpr' and v.get('dk') == 'local':
                    for s0 in f.rec['stmts']:
                        if s0['k'] == 'DeclStmt':
                            for d in s0.get('decls', []):
                                if d.get('did') == v.get('did') and 'init' in d:
                                    src = f.strip(f.stmts[d['init']])
                if src is not None and src.get('mn') in W:
                    W.add(f.rec['mn'])
                    changed = True
    translate = lambda n: (n.get('cs') or '') in ('ccl::semantic::RSCore::Translate',)
    n_inst = 0
    for f in sorted(db.functions, key=lambda x: x.name):
        if f.body < 0 or f.rec.get('mn') in W or f.rec.get('dependent') or not f.name.startswith(('ccl::semantic::', 'ccl::ops::', 'ccl::oss::')):
            continue
        hits = [n for n in f.calls() if n.get('mn') in W]
        if not hits:
            continue
        n_inst += 1
        inst = '::'.join(f.name.split('::')[2:])
        later = [n for n in f.calls() if translate(n)]
        where_tr = [(f, n) for n in later]
        # inserted ids kept in a member container that another method of the class feeds to Translate
        fields = set()
        for n in f.calls():
            if (n.get('cs') or '').split('::')[-1] in ('emplace_back', 'push_back', 'insert', 'emplace') and 'obj' in n:
                o = f.strip(f.stmts[n['obj']])
                if o is not None and o['k'] == 'MemberExpr' and o.get('mk') == 'field' and (o.get('fcls') or '') == f.cls:
                    fields.add(o.get('member'))
        if f.cls and fields:
            for g in db.methods_of(f.cls):
                if g is f or g.body < 0:
                    continue
                for lp in [x for x in g.walk() if x['k'] == 'CXXForRangeStmt']:
                    rng = g.strip(g.stmts[lp['range']])
                    if rng is not None and rng['k'] == 'MemberExpr' and rng.get('member') in fields:
                        for n in g.calls(g.stmts[lp['body']]):
                            if translate(n):
                                where_tr.append((g, n))
        if not where_tr:
            rule.ok(inst, 'inserts copies one at a time and does not apply a second translation to them', f.loc(hits[0]))
            continue
        reset = {RESETTERS[(n.get('cs') or '').split('::')[-1]] for n in f.calls() if (n.get('cs') or '').split('::')[-1] in RESETTERS}
        missing = [v for v in RESETTERS.values() if v not in reset]
        if missing:
            g, n = where_tr[0]
            rule.violation(inst, f.loc(hits[0]), '`%s` already rewrites the copy with {own old name -> own new name}; %s then applies the complete map to the same constituent (%s) and the %s not stored again from the source in between: a mention of the constituent itself, or a chain X1->X2, X2->X3, is renamed twice' % (
                (hits[0].get('txt') or '')[:50], g.name.split('::')[-1], g.loc(n), ' and '.join(missing) + (' is' if len(missing) == 1 else ' are')))
        else:
            rule.ok(inst, 'every name-bearing text is stored again from the source before the complete map is applied once', f.loc(hits[0]))
    return n_inst
