"""C01 — evaluation returns the set-theoretic value of every well-typed expression.

Not decidable as a whole (values of all programs x data).  Decided clauses (DESIGN.md section 4, C01):
 r1 OPERATORS   each case of the evaluator's operator switches, partially evaluated on abstract operands, equals the textbook
                definition: connectives by truth table including the short-circuit path, negation, + - x by operand order,
                > < >= <= on all order types, = and != , the set operators as (operation, receiver, argument) with the
                non-commutative ones in operand order, membership/subset predicates as formulas over the atoms eq / sub / in,
                quantifiers over all body-value vectors of small domains including the empty one.
 r2 SET-ALGEBRA the meaning of Union/Intersect/Diff/SymDiff/IsSubsetOrEq/Reduce/Projection (shared with C15 r2).
 r3 BINDERS     in every binder loop (quantifier, declarative, recursion, imperative blocks) the bound slot idsData[var] is written
                on every iteration before the body is evaluated, var is taken from the declaration child of the same node, an
                imperative ITERATE block re-evaluates its domain each time the block is entered, and each of the four loop heads
                counts iterations against MAX_ITERATIONS.
 r4 FRESH-NAMES inlining of term-function bodies renames locals with a counter that is never reset or reassigned (names unique
                across all expansions of one normalisation) and uses per-expansion substitution maps cleared at the start.
 r5 LAZY-ORDER  lazy product enumeration order agrees with tuple comparison (shared with C15 r5): construction-independence of values.
 r6 SYNTAX-FREE no evaluator / normaliser / name-collector code reads a syntax flag: the value depends only on the tree.
Not decided: capture-freedom of SubstituteArgs in general, recursion/imperative control flow as a whole, lazy vs enumerated equality as values.
"""
import itertools

from engine.cfgq import call_sites, paths_avoiding, dominating_guards
from engine.evalmini import Interp, Obj, OutOfFragment, NOT_HANDLED, UNKNOWN
from engine.modset import ModSets
from engine.facts import AnalysisBroken

UNITS = ['RSlang', 'RSlang2']
NS = 'ccl::rslang::'
AI = NS + 'ASTInterpreter'
O = 'ccl::object::'
SET = O + 'SDSet'
SD = O + 'StructuredData'


class Sym:
    """symbolic structured value"""
    def __init__(self, name):
        self.name = name

    def __repr__(self):
        return self.name


class UnknownAtom(Exception):
    pass


class Harness:
    def __init__(self, db):
        self.db = db
        self.tok = {e['name']: e['val'] for e in db.enum(NS + 'TokenID')['enumerators']}

    def run(self, method, op_id, operands, atoms=None, domain=None, body=None):
        """interpret ASTInterpreter::<method> for node id op_id; operands: values returned by EvaluateChild(iter, k).
        returns ('value', v) | ('fail',)"""
        f = self.db.fn(AI + '::' + method)
        state = {'result': None, 'calls': [], 'body_i': 0}
        atoms = atoms or {}
        this = Obj(curValue=None, idsData={}, iterationCounter=0, nodeVars=Obj(__kind__='nodevars'))
        this['__cls__'] = AI

        def on_call(it, fn, n, env):
            cs = n.get('cs') or ''
            S = fn.stmts
            if cs == AI + '::EvaluateChild':
                k = it.eval(fn, S[n['args'][1]], env)
                if body is not None and k == 2:
                    i = state['body_i']
                    state['body_i'] += 1
                    if i >= len(body):
                        raise OutOfFragment('body evaluated more often than the domain has elements')
                    state['calls'].append(('body', dict(this['idsData'])))
                    return body[i]
                if k >= len(operands):
                    raise OutOfFragment('EvaluateChild(%d)' % k)
                state['calls'].append(('child', k))
                return operands[k]
            if cs == AI + '::ExtractDomain':
                return Obj(__kind__='sd', elems=domain) if domain is not None else operands[1]
            if cs == AI + '::SetCurrent':
                state['result'] = it.eval(fn, S[n['args'][0]], env)
                this['curValue'] = state['result']
                return True
            if cs == AI + '::OnError':
                state['calls'].append(('error',))
                return None
            if cs == 'std::get' and n.get('args'):
                return it.eval(fn, S[n['args'][0]], env)
            if n['k'] == 'CXXOperatorCallExpr' and n.get('op') == '=' and cs.startswith('std::variant'):
                v = it.eval(fn, S[n['args'][1]], env)
                it.assign(fn, S[n['args'][0]], v, env)
                return v
            if n['k'] == 'CXXOperatorCallExpr' and n.get('op') in ('==', '!=') and cs.startswith('std::operator'):
                a, b = it.eval(fn, S[n['args'][0]], env), it.eval(fn, S[n['args'][1]], env)
                if isinstance(a, Sym) or isinstance(b, Sym):
                    v = _atom(atoms, ('eq', frozenset((repr(a), repr(b)))))
                else:
                    v = a == b
                return v if n['op'] == '==' else not v
            if cs in (SD + '::E', SD + '::B', SD + '::T') and 'obj' in n:
                return it.eval(fn, S[n['obj']], env)
            if cs == O + 'SDBasicElement::Value':
                v = it.eval(fn, S[n['obj']], env)
                if isinstance(v, Obj) and 'int' in v:
                    return v['int']
                raise OutOfFragment('Value() of a non-integer operand')
            if cs == O + 'Factory::Val':
                return Obj(__kind__='val', int=it.eval(fn, S[n['args'][0]], env))
            if cs == O + 'Factory::EmptySet':
                return Obj(__kind__='sd', elems=[])
            if cs.startswith(SET + '::') and 'obj' in n:
                name = cs.split('::')[-1]
                recv = it.eval(fn, S[n['obj']], env)
                args = [it.eval(fn, S[a], env) for a in n.get('args', [])]
                if name in ('Union', 'Intersect', 'Diff', 'SymDiff'):
                    return ('setop', name, repr(recv), repr(args[0]))
                if name == 'Contains':
                    return _atom(atoms, ('in', repr(args[0]), repr(recv)))
                if name == 'IsSubsetOrEq':
                    return _atom(atoms, ('sub', repr(recv), repr(args[0])))
                if name in ('begin', 'end') and isinstance(recv, Obj) and 'elems' in recv:
                    return ('it', recv['elems'], 0 if name == 'begin' else len(recv['elems']))
                if name == 'AddElement' and isinstance(recv, Obj) and 'elems' in recv:
                    recv['elems'].append(args[0])
                    return True
            if cs == SD + '::ModifyB' and 'obj' in n:
                return it.eval(fn, S[n['obj']], env)
            if cs == SD + '::operator==' or (n['k'] == 'CXXOperatorCallExpr' and n.get('op') in ('==', '!=') and cs.startswith(SD)):
                a, b = it.eval(fn, S[n['args'][0]], env), it.eval(fn, S[n['args'][1]], env)
                v = _atom(atoms, ('eq', frozenset((repr(a), repr(b)))))
                return v if n.get('op') == '==' else not v
            if n['k'] == 'CXXOperatorCallExpr' and n.get('op') == '[]' and n.get('args'):
                base = it.eval(fn, S[n['args'][0]], env)
                if isinstance(base, Obj) and base.get('__kind__') == 'nodevars':
                    return ['V']
                if isinstance(base, dict) and not isinstance(base, Obj):
                    key = it.eval(fn, S[n['args'][1]], env)
                    return ('slot', base, key)
            if cs in ('std::begin',) and n.get('args'):
                v = it.eval(fn, S[n['args'][0]], env)
                if isinstance(v, list):
                    return ('it', v, 0)
            if cs == 'std::to_string':
                return b'n'
            if cs.startswith(NS + 'SyntaxTree::Cursor::') and cs.split('::')[-1] in ('Child', 'get'):
                return Obj(__kind__='cursor')
            if n['k'] in ('CXXOperatorCallExpr',) and n.get('op') in ('!=', '==') and 'PolyFCIterator' in cs:
                a, b = it.eval(fn, S[n['args'][0]], env), it.eval(fn, S[n['args'][1]], env)
                same = a[1] is b[1] and a[2] == b[2]
                return same if n['op'] == '==' else not same
            if n['k'] == 'CXXOperatorCallExpr' and n.get('op') == '++' and 'PolyFCIterator' in cs:
                a = it.eval(fn, S[n['args'][0]], env)
                nv = ('it', a[1], a[2] + 1)
                it.assign(fn, S[n['args'][0]], nv, env)
                return nv
            if n['k'] == 'CXXOperatorCallExpr' and n.get('op') == '*' and 'PolyFCIterator' in cs:
                a = it.eval(fn, S[n['args'][0]], env)
                return a[1][a[2]]
            return NOT_HANDLED

        it = Interp(self.db, on_call=on_call, max_steps=200000)
        # assignment into idsData[var] slot
        orig_assign = it.assign

        def assign(fn, tgt, v, env):
            t = fn.strip(tgt)
            if t['k'] == 'CXXOperatorCallExpr' and t.get('op') == '[]':
                slot = it.eval(fn, t, env)
                if isinstance(slot, tuple) and slot[0] == 'slot':
                    slot[1][slot[2]] = v
                    return
            return orig_assign(fn, tgt, v, env)
        it.assign = assign
        cur = Obj(node=Obj(token=Obj(id=self.tok[op_id], pos=Obj(start=0, finish=1), data=Obj(__kind__='tokendata', value=None)), children=[], parent=None))
        ok = it.call(f, [cur], this)
        if not ok:
            return ('fail', state['calls'])
        return ('value', this['curValue'], state['calls'])


def _atom(atoms, key):
    if key not in atoms:
        raise UnknownAtom(key)
    return atoms[key]


THOROUGH = False


def check(db, rep):
    global THOROUGH
    THOROUGH = rep.tier == 'thorough'
    rep.explanation = ('Evaluator operator tables extracted by partial evaluation of the visitor methods on abstract operands and compared with set theory / propositional logic; '
                       'binder bookkeeping, fresh-name discipline, lazy enumeration order and syntax-independence as structural rules. Values of whole programs are not decided.')
    H = Harness(db)
    r1 = rep.rule('r1', 'OPERATORS: every operator case of the evaluator equals its textbook definition on the complete abstract domain of that operator', 26)
    T, F = True, False
    # connectives
    truth = {'AND': lambda p, q: p and q, 'OR': lambda p, q: p or q, 'IMPLICATION': lambda p, q: (not p) or q, 'EQUIVALENT': lambda p, q: p == q}
    for op, fn_ in truth.items():
        _guard(r1, 'logic:' + op, lambda op=op, fn_=fn_: _table(H, 'ViLogicBinary', op, [(p, q) for p in (F, T) for q in (F, T)], lambda p, q: fn_(p, q)))
    _guard(r1, 'logic:NOT', lambda: _table(H, 'ViNegation', 'NOT', [(F,), (T,)], lambda p: not p))
    # arithmetic (values chosen so that operand order and operator are distinguishable)
    ar = {'PLUS': lambda a, b: a + b, 'MINUS': lambda a, b: a - b, 'MULTIPLY': lambda a, b: a * b}
    for op, fn_ in ar.items():
        _guard(r1, 'arith:' + op, lambda op=op, fn_=fn_: _table(H, 'ViArithmetic', op, [(Obj(int=7), Obj(int=3)), (Obj(int=2), Obj(int=5)), (Obj(int=0), Obj(int=4))],
                                                          lambda a, b: fn_(a['int'], b['int']), get=lambda v: v['int'] if isinstance(v, Obj) else v))
    # arithmetic at the limits of the 32-bit element payload: the exact result, or a reported failure - never a wrapped value or undefined behaviour
    def arith_range():
        from engine.evalmini import SignedOverflow
        lo, hi = -2 ** 31, 2 ** 31 - 1
        bad, n_ = [], 0
        for op, fn_ in ar.items():
            for a_, b_ in ((hi, 1), (hi, -1), (lo, 1), (lo, -1), (65536, 65536), (65536, 32767), (-65536, 32768), (hi, hi), (lo, lo), (hi, 0), (46341, 46341), (46340, 46340)):
                n_ += 1
                exact = fn_(a_, b_)
                try:
                    res = H.run('ViArithmetic', op, [Obj(int=a_), Obj(int=b_)])
                except SignedOverflow as e:
                    bad.append('%s(%d, %d): %s' % (op, a_, b_, e))
                    continue
                if res[0] == 'value':
                    got = res[1]['int'] if isinstance(res[1], Obj) else res[1]
                    if got != exact:
                        bad.append('%s(%d, %d) evaluates to %s, arithmetic gives %d' % (op, a_, b_, got, exact))
                elif lo <= exact <= hi:
                    bad.append('%s(%d, %d) fails although the result %d is representable' % (op, a_, b_, exact))
                elif ('error',) not in res[1]:
                    bad.append('%s(%d, %d) fails without reporting an error' % (op, a_, b_))
        return bad[:1], n_
    _guard(r1, 'arith:range', arith_range)
    cmpo = {'GREATER': lambda a, b: a > b, 'LESSER': lambda a, b: a < b, 'GREATER_OR_EQ': lambda a, b: a >= b, 'LESSER_OR_EQ': lambda a, b: a <= b}
    for op, fn_ in cmpo.items():
        _guard(r1, 'intpred:' + op, lambda op=op, fn_=fn_: _table(H, 'ViIntegerPredicate', op, [(Obj(int=1), Obj(int=1)), (Obj(int=1), Obj(int=2)), (Obj(int=2), Obj(int=1))], lambda a, b: fn_(a['int'], b['int'])))
    for op, want in (('EQUAL', lambda e: e), ('NOTEQUAL', lambda e: not e)):
        def eqcase(op=op, want=want):
            bad = []
            a, b = Sym('A'), Sym('B')
            for e in (F, T):
                res = H.run('ViEquals', op, [a, b], atoms={('eq', frozenset(('A', 'B'))): e})
                if res[0] != 'value' or res[1] != want(e):
                    bad.append('operands %s: yields %s' % ('equal' if e else 'different', res[1] if res[0] == 'value' else 'failure'))
            return bad, 2
        _guard(r1, 'equals:' + op, eqcase)
    # set operators
    for op, name, commutes in (('UNION', 'Union', True), ('INTERSECTION', 'Intersect', True), ('SET_MINUS', 'Diff', False), ('SYMMINUS', 'SymDiff', True)):
        def setcase(op=op, name=name, commutes=commutes):
            res = H.run('ViSetexprBinary', op, [Sym('A'), Sym('B')])
            if res[0] != 'value':
                return ['evaluation fails'], 1
            v = res[1]
            ok = isinstance(v, tuple) and v[0] == 'setop' and v[1] == name and ((v[2], v[3]) == ('A', 'B') or (commutes and (v[2], v[3]) == ('B', 'A')))
            return ([] if ok else ['`A %s B` is computed as %s' % (op, v if not isinstance(v, tuple) else '%s.%s(%s)' % (v[2], v[1], v[3]))]), 1
        _guard(r1, 'setop:' + op, setcase)
    # predicates over atoms eq(A,B), sub(A,B), in(A,B)
    preds = {
        'IN': lambda eq, sub, in_: in_, 'NOTIN': lambda eq, sub, in_: not in_,
        'SUBSET': lambda eq, sub, in_: sub and not eq, 'NOTSUBSET': lambda eq, sub, in_: not (sub and not eq), 'SUBSET_OR_EQ': lambda eq, sub, in_: sub,
    }
    for op, oracle in preds.items():
        def predcase(op=op, oracle=oracle):
            bad = []
            n = 0
            for eq, sub, in_ in itertools.product((F, T), repeat=3):
                if eq and not sub:
                    continue     # equal sets are subsets of each other
                n += 1
                atoms = {('eq', frozenset(('A', 'B'))): eq, ('sub', 'A', 'B'): sub, ('in', 'A', 'B'): in_}
                try:
                    res = H.run('ViSetexprBinary', op, [Sym('A'), Sym('B')], atoms=atoms)
                except UnknownAtom as e:
                    k = e.args[0]
                    bad.append('uses the relation %s between the operands (%s) — the operands are the wrong way round' % (k[0], ', '.join(str(x) for x in k[1:])))
                    break
                if res[0] != 'value' or res[1] != oracle(eq, sub, in_):
                    bad.append('for (A=B: %s, A⊆B: %s, A∈B: %s) yields %s' % (eq, sub, in_, res[1] if res[0] == 'value' else 'failure'))
            return bad, n
        _guard(r1, 'setpred:' + op, predcase)
    # quantifiers
    for op, fold in (('FORALL', all), ('EXISTS', any)):
        def qcase(op=op, fold=fold):
            bad = []
            n = 0
            for size in ((0, 1, 2, 3, 4, 5) if THOROUGH else (0, 1, 2, 3)):
                dom = [Sym('e%d' % i) for i in range(size)]
                for vals in itertools.product((F, T), repeat=size):
                    n += 1
                    res = H.run('ViQuantifier', op, [None, None, None], domain=list(dom), body=list(vals))
                    want = fold(vals)
                    if res[0] != 'value' or res[1] != want:
                        bad.append('domain of %d elements with body values %s yields %s' % (size, list(vals), res[1] if res[0] == 'value' else 'failure'))
                        break
                    # the bound variable holds the current element whenever the body is evaluated
                    bodies = [c for c in res[2] if c[0] == 'body']
                    for i, c in enumerate(bodies):
                        if list(c[1].values()) != [dom[i]]:
                            bad.append('body evaluation %d sees the bound variable as %s instead of element %d of the domain' % (i, list(c[1].values()), i))
                            break
            return bad, n
        _guard(r1, 'quantifier:' + op, qcase)
    # declarative set-builder: exactly the elements whose predicate holds
    def declcase():
        bad = []
        n = 0
        for size in ((0, 1, 2, 3, 4, 5) if THOROUGH else (0, 1, 2, 3)):
            dom = [Sym('e%d' % i) for i in range(size)]
            for vals in itertools.product((F, T), repeat=size):
                n += 1
                res = H.run('ViDeclarative', 'NT_DECLARATIVE_EXPR', [None, None, None], domain=list(dom), body=list(vals))
                want = [d for d, v in zip(dom, vals) if v]
                got = res[1]['elems'] if res[0] == 'value' and isinstance(res[1], Obj) and 'elems' in res[1] else None
                if got != want:
                    bad.append('domain %s with predicate values %s builds %s' % (dom, list(vals), got))
                    break
        return bad, n
    _guard(r1, 'declarative', declcase)

    # ------------------------------------------------------------------ r2 (shared)
    r2 = rep.rule('r2', 'SET-ALGEBRA: the set operations the evaluator delegates to, interpreted from the library source on mixed-representation families, agree with their definitions (shared with C15 r6)', 7)
    from rules import C15
    fam_all = C15._families(rep.tier == 'thorough')
    fam2 = {k_: fam_all[k_] for k_ in ('ℬ(ℤ)', 'ℬ(ℤ×ℤ)', 'ℬℬ(ℤ)') if k_ in fam_all}
    C15.algebra_rule(db, rep, r2, fam2, rep.tier == 'thorough', instances=('Union', 'Intersect', 'Diff', 'SymDiff', 'IsSubsetOrEq', 'Reduce', 'Projection', 'Contains', 'Debool'), sizes=False, note_prefix='r2')

    # ------------------------------------------------------------------ r3
    r3 = rep.rule('r3', 'BINDERS: bound slot written each iteration before the body; var id from the declaration child; ITERATE domain re-evaluated on entry; all four loop heads count iterations', 9)
    _binders(db, r3)

    # ------------------------------------------------------------------ r4
    r4 = rep.rule('r4', 'FRESH-NAMES: the renaming counter of inlined function bodies is only ever incremented; substitution maps are cleared per expansion', 2)
    M = ModSets(db)
    N = NS + 'Normalizer'
    writes = []
    for f in db.methods_of(N):
        for ev in M.direct_events(f):
            if ev[0] == 'localVarBase':
                writes.append((f, ev))
    if not writes:
        r4.broken('no write of Normalizer::localVarBase found')
    else:
        bad = [(f, ev) for f, ev in writes if ev[1] != 'incdec' or ev[2].get('op') != '++']
        if bad:
            f, ev = bad[0]
            r4.violation('localVarBase', f.loc(ev[2]), '`%s` in %s resets or reassigns the fresh-name counter: nested or repeated expansions of term-functions rename different locals to the same __varN, so one binder overwrites another' % (ev[2].get('txt', '')[:50], f.name.split('::')[-1]))
        else:
            r4.ok('localVarBase', 'only incremented (%d site)' % len(writes), writes[0][0].loc(writes[0][1][2]))
    fn_ = db.fn(N + '::Function')
    clears = {ev[0] for ev in M.direct_events(fn_) if ev[1] == 'std:clear'}
    first_use = [p for p, n in call_sites(fn_, lambda n: (n.get('cs') or '').endswith('SubstituteArgs'))]
    if {'nodeSubstitutes', 'nameSubstitutes'} <= clears:
        r4.ok('substitution-maps', 'argument and name maps cleared at the start of every expansion', '%s:%d' % (fn_.file, fn_.line))
    else:
        r4.violation('substitution-maps', '%s:%d' % (fn_.file, fn_.line), 'Function() does not clear %s before an expansion: substitutions of an earlier call leak into this one' % sorted({'nodeSubstitutes', 'nameSubstitutes'} - clears))

    # ------------------------------------------------------------------ r5 (shared)
    r5 = rep.rule('r5', 'LAZY-ORDER: a lazy product or power set equals the enumerated set of the same elements, also inside tuples and sets (shared with C15 r6): construction-independence of values', 2)
    fam5 = {k_: fam_all[k_] for k_ in ('ℬ(ℬ(ℤ)×ℤ)', 'ℬ(ℤ×ℬ(ℤ))', 'ℬℬ(ℤ×ℤ)') if k_ in fam_all}
    C15.algebra_rule(db, rep, r5, fam5, rep.tier == 'thorough', instances=('equality', 'order', 'nesting', 'iteration'), sizes=False, note_prefix='r5')

    # ------------------------------------------------------------------ r6
    r6 = rep.rule('r6', 'SYNTAX-FREE: evaluator, normaliser and name collector never read a syntax flag', 3)
    for cls in (AI, NS + 'Normalizer', NS + 'NameCollector'):
        hits = []
        for f in db.functions:
            if f.cls == cls or f.name.startswith(cls + '::'):
                for n in f.walk():
                    if (n['k'] == 'MemberExpr' and n.get('member') == 'syntax') or (n['k'] == 'DeclRefExpr' and 'Syntax::' in (n.get('qn') or '')):
                        hits.append((f, n))
        if hits:
            r6.violation(cls.split('::')[-1], hits[0][0].loc(hits[0][1]), 'evaluation code reads the syntax variant (`%s`): the value could depend on MATH/ASCII' % hits[0][1].get('txt', '')[:40])
        else:
            r6.ok(cls.split('::')[-1], 'no syntax dependence')
    _recursion_semantics(db, rep)
    _filter_semantics(db, rep)
    _normalise_order(db, rep)
    _normalise_meaning(db, rep)


def _guard(rule, inst, fn_):
    try:
        bad, n = fn_()
    except OutOfFragment as e:
        rule.broken('%s: evaluator method outside the summarised fragment: %s' % (inst, e))
        return
    except UnknownAtom as e:
        rule.violation(inst, 'ccl/rslang/src/ASTInterpreter.cpp', 'uses an unexpected relation %s' % (e.args[0],))
        return
    if bad:
        rule.violation(inst, 'ccl/rslang/src/ASTInterpreter.cpp', '; '.join(bad[:2]))
    else:
        rule.ok(inst, '%d abstract cases' % n)


def _table(H, method, op, cases, oracle, get=None):
    bad = []
    for c in cases:
        res = H.run(method, op, list(c))
        want = oracle(*c)
        got = res[1] if res[0] == 'value' else 'failure'
        if get is not None and res[0] == 'value':
            got = get(got)
        if got != want:
            bad.append('%s(%s) evaluates to %s, definition gives %s' % (op, ', '.join(str(x.get('int', x)) if isinstance(x, Obj) else str(x) for x in c), got, want))
    return bad, len(cases)


def _binders(db, r3):
    for name, body_child in (('ViQuantifier', 2), ('ViDeclarative', 2)):
        f = db.fn(AI + '::' + name)
        loops = [n for n in f.walk() if n['k'] == 'CXXForRangeStmt']
        inst = name
        if len(loops) != 1:
            r3.violation(inst, '%s:%d' % (f.file, f.line), 'binder loop not found')
            continue
        lp = loops[0]
        lv = f.stmts[lp['loopvar']]['decls'][0]['name']
        writes = [n for n in f.walk(f.stmts[lp['body']]) if n['k'] in ('CXXOperatorCallExpr', 'BinaryOperator') and n.get('op') == '=' and 'idsData' in f.stmts[(n['args'][0] if n['k'] == 'CXXOperatorCallExpr' else n['c'][0])].get('txt', '')]
        evals = [n for n in f.calls(f.stmts[lp['body']]) if n.get('cs') == AI + '::EvaluateChild']
        ok = len(writes) == 1 and evals
        if ok:
            w = writes[0]
            rhs = f.strip(f.stmts[w['args'][1]] if w['k'] == 'CXXOperatorCallExpr' else f.children(w)[1])
            ok = rhs.get('name') == lv and not paths_avoiding(f, [f.position_of(f.stmts[lp['range']])], [f.position_of(w)], [(f.position_of(e), '') for e in evals])
            idx = f.stmts[(w['args'][0] if w['k'] == 'CXXOperatorCallExpr' else w['c'][0])]
            var_ok = 'varID' in idx.get('txt', '') and _var_from_decl_child(f, 'varID', 0)
            ok = ok and var_ok
        if ok:
            r3.ok(inst, 'idsData[varID] = element before the body; varID from declaration child 0', '%s:%d' % (f.file, f.line))
        else:
            r3.violation(inst, '%s:%d' % (f.file, f.line), 'the bound variable slot is not set to the current domain element before every evaluation of the body (or its id is not taken from the declaration child)')
        _iter_limit(r3, f, name)
    # recursion
    f = db.fn(AI + '::ViRecursion')
    dos = [n for n in f.walk() if n['k'] == 'DoStmt']
    if len(dos) == 1:
        body = f.stmts[dos[0]['body']]
        writes = [n for n in f.walk(body) if n['k'] in ('CXXOperatorCallExpr', 'BinaryOperator') and n.get('op') == '=' and 'idsData' in f.stmts[(n['args'][0] if n['k'] == 'CXXOperatorCallExpr' else n['c'][0])].get('txt', '')]
        evals = [n for n in f.calls(body) if n.get('cs') in (AI + '::EvaluateChild', NS + 'ASTVisitor::VisitChild') or (n.get('cs') or '').endswith('::VisitChild')]
        ok = len(writes) == 1 and evals and not any(f.position_of(e) in f.reach(f.position_of(body) or f.graph()[1], blocked=[f.position_of(writes[0])]) and False for e in evals)
        if ok:
            wpos = f.position_of(writes[0])
            first = f.position_of(f.stmts[body['c'][0]])
            ok = not paths_avoiding(f, [first], [wpos], [(f.position_of(e), '') for e in evals]) if first else True
            rhs = f.strip(f.stmts[writes[0]['args'][1]] if writes[0]['k'] == 'CXXOperatorCallExpr' else f.children(writes[0])[1])
            ok = ok and rhs.get('name') == 'current' and _var_from_decl_child(f, 'varID', 0)
        if ok:
            r3.ok('ViRecursion', 'idsData[varID] = current before condition/step are evaluated', '%s:%d' % (f.file, f.line))
        else:
            r3.violation('ViRecursion', '%s:%d' % (f.file, f.line), 'the recursion variable is not bound to the current value before the condition and step are evaluated')
        _iter_limit(r3, f, 'ViRecursion')
    else:
        r3.ok('ViRecursion', 'loop written in another form: its behaviour is decided by r7 (evaluated fixed-point semantics)', '%s:%d' % (f.file, f.line), nontrivial=False)
    # imperative
    IE = AI + '::ImpEvaluator'
    pb = db.fn(IE + '::ProcessBlock')
    sw = [n for n in pb.walk() if n['k'] == 'SwitchStmt']
    ok = False
    why = 'ITERATE case not found'
    if sw:
        body = pb.stmts[sw[0]['body']]
        for cid in body['c']:
            st = pb.stmts[cid]
            labels = []
            while st['k'] in ('CaseStmt', 'DefaultStmt'):
                labels.append(st.get('enumerator', 'default').split('::')[-1])
                st = pb.stmts[st['sub']]
            if 'ITERATE' in labels:
                ext = [n for n in pb.calls(st) if n.get('cs') == AI + '::ExtractDomain']
                first = pb.position_of(pb.stmts[st['c'][0]]) if st.get('c') else None
                rets = [pb.position_of(r) for r in pb.walk(st) if r['k'] == 'ReturnStmt']
                if len(ext) == 1 and first is not None:
                    epos = pb.position_of(ext[0])
                    in_first = any(x['id'] == ext[0]['id'] for x in pb.walk(pb.stmts[st['c'][0]]))
                    bypass = [] if in_first else paths_avoiding(pb, [first], [epos], [(p, '') for p in rets if p is not None])
                    assign = [n for n in pb.walk(st) if n['k'] in ('CXXOperatorCallExpr', 'BinaryOperator') and n.get('op') == '=' and pb.strip(pb.stmts[(n['args'][0] if n['k'] == 'CXXOperatorCallExpr' else n['c'][0])]).get('member') == 'domain']
                    if bypass:
                        why = 'an ITERATE block can be entered without re-evaluating its domain (cached from an earlier entry): a domain that depends on an outer block variable is stale'
                    elif not assign:
                        why = 'the freshly evaluated domain is not stored for the iteration'
                    else:
                        ok = True
                else:
                    why = 'the ITERATE case does not evaluate its domain with ExtractDomain exactly once'
    if ok:
        r3.ok('ImpEvaluator::ITERATE', 'domain re-evaluated on every entry of the block and bound to the first element', '%s:%d' % (pb.file, pb.line))
    else:
        r3.violation('ImpEvaluator::ITERATE', '%s:%d' % (pb.file, pb.line), why)
    ev = db.fn(IE + '::Evaluate')
    _iter_limit(r3, ev, 'ImpEvaluator::Evaluate')
    cm = db.fn(IE + '::CreateBlockMetadata')
    kids = [pb_ for pb_ in cm.walk() if pb_['k'] == 'CXXMemberCallExpr' and (pb_.get('cs') or '').endswith('Cursor::Child')]
    if kids and all(cm.strip(cm.stmts[k['args'][0]]).get('cv') == 0 for k in kids):
        r3.ok('ImpEvaluator::block-vars', 'block variables come from the declaration child 0 of each block', '%s:%d' % (cm.file, cm.line))
    else:
        r3.violation('ImpEvaluator::block-vars', '%s:%d' % (cm.file, cm.line), 'block variable ids are not taken from child 0 of the ITERATE/ASSIGN node')


def _var_from_decl_child(f, var, child):
    for s in f.rec['stmts']:
        if s['k'] == 'DeclStmt':
            for d in s.get('decls', []):
                if d['name'] == var and 'init' in d:
                    init = f.stmts[d['init']]
                    cc = [n for n in f.calls(init) if (n.get('cs') or '').endswith('Cursor::Child')]
                    return bool(cc) and f.strip(f.stmts[cc[0]['args'][0]]).get('cv') == child and 'nodeVars' in init.get('txt', '')
    return False


def _iter_limit(r3, f, name):
    incs = [n for n in f.walk() if n['k'] == 'UnaryOperator' and n.get('op') == '++' and f.strip(f.children(n)[0]).get('member') == 'iterationCounter']
    inst = name + ':iteration-limit'
    loops = [n for n in f.walk() if n['k'] in ('CXXForRangeStmt', 'DoStmt', 'ForStmt', 'WhileStmt')]
    ok = len(incs) == 1 and loops and any(any(x['id'] == incs[0]['id'] for x in f.walk(f.stmts[lp['body']])) for lp in loops)
    if ok:
        par = None
        for a in f.ancestors(incs[0]):
            if a['k'] == 'BinaryOperator' and a.get('op') in ('>', '>='):
                par = a
                break
        ok = par is not None and 'MAX_ITERATIONS' in par.get('txt', '')
    if ok:
        r3.ok(inst, 'counter incremented and tested against MAX_ITERATIONS inside the loop', f.loc(incs[0]))
    else:
        r3.violation(inst, '%s:%d' % (f.file, f.line), 'the loop does not count its iterations against MAX_ITERATIONS (documented resource limit)')


def _recursion_semantics(db, rep):
    """r7: ASTInterpreter::ViRecursion evaluated over a 3-element domain for every converging step function, every condition, every initial value and
    every stale content of the variable's slot: the result is the first iterate x_n of x_{n+1} = step(x_n) (from x_0 = initial) with step(x_n) = x_n or,
    for the full form, with a false condition; the step is applied at least once whatever the slot held before."""
    import itertools
    r7 = rep.rule('r7', 'RECURSION: R{x := init | [cond |] step} evaluates to the first fixed point of the step from init (or the first value failing cond), independent of what the variable slot held before', 2)
    f = db.fn(AI + '::ViRecursion', required=False)
    if f is None:
        r7.broken('anchor vanished: ASTInterpreter::ViRecursion')
        return
    tok = {e['name']: e['val'] for e in db.enum(NS + 'TokenID')['enumerators']}
    D = (0, 1, 2)

    def converges(step):
        for x in D:
            y = x
            for _ in range(4):
                if step[y] == y:
                    break
                y = step[y]
            else:
                return False
        return True
    steps = [s for s in itertools.product(D, repeat=3) if converges(s)]

    def reference(kind, init, step, cond):
        x = init
        while True:
            if kind == 'NT_RECURSIVE_FULL' and not cond[x]:
                return x
            y = step[x]
            if y == x:
                return y
            x = y
    for kind in ('NT_RECURSIVE_SHORT', 'NT_RECURSIVE_FULL'):
        bad, cases = None, 0
        conds = list(itertools.product((False, True), repeat=3)) if kind == 'NT_RECURSIVE_FULL' else [(True, True, True)]
        step_child = 3 if kind == 'NT_RECURSIVE_FULL' else 2
        try:
            for step in steps:
                for cond in conds:
                    for init in D:
                        for stale in (None,) + D:
                            cases += 1
                            this = Obj(curValue=None, idsData=({7: stale} if stale is not None else {}), iterationCounter=0, nodeVars=Obj(__kind__='nodevars'))
                            res = {}

                            def on_call(it, fn, n, env, this=this, res=res):
                                cs = n.get('cs') or ''
                                S = fn.stmts
                                last = cs.split('::')[-1]
                                if cs == AI + '::ExtractDomain':
                                    return init
                                if cs == AI + '::EvaluateChild':
                                    k = it.eval(fn, S[n['args'][1]], env)
                                    if k == 2 and kind == 'NT_RECURSIVE_FULL':
                                        return cond[this['idsData'][7]]
                                    raise OutOfFragment('EvaluateChild(%s)' % k)
                                if last == 'VisitChild':
                                    k = it.eval(fn, S[n['args'][1]], env)
                                    if k != step_child:
                                        raise OutOfFragment('the step of a %s node is child %d, child %s was visited' % (kind, step_child, k))
                                    this['curValue'] = step[this['idsData'][7]]
                                    return True
                                if cs == AI + '::SetCurrent':
                                    res['v'] = it.eval(fn, S[n['args'][0]], env)
                                    return True
                                if cs == AI + '::OnError':
                                    res['err'] = True
                                    return None
                                if cs == 'std::get' and n.get('args'):
                                    return it.eval(fn, S[n['args'][0]], env)
                                if n['k'] == 'CXXOperatorCallExpr' and n.get('op') in ('==', '!=') and len(n.get('args', [])) == 2:
                                    a, b = it.eval(fn, S[n['args'][0]], env), it.eval(fn, S[n['args'][1]], env)
                                    if isinstance(a, (int, type(None))) and isinstance(b, (int, type(None))):
                                        return (a == b) == (n['op'] == '==')
                                if n['k'] == 'CXXOperatorCallExpr' and n.get('op') == '[]' and n.get('args'):
                                    base = it.eval(fn, S[n['args'][0]], env)
                                    if isinstance(base, Obj) and base.get('__kind__') == 'nodevars':
                                        return [7]
                                    if isinstance(base, dict) and not isinstance(base, Obj):
                                        key = it.eval(fn, S[n['args'][1]], env)
                                        return base.get(key)
                                if n['k'] == 'CXXOperatorCallExpr' and n.get('op') == '=' and len(n.get('args', [])) == 2:
                                    tgt = fn.strip(S[n['args'][0]])
                                    v = it.eval(fn, S[n['args'][1]], env)
                                    if tgt['k'] == 'CXXOperatorCallExpr' and tgt.get('op') == '[]':
                                        base = it.eval(fn, S[tgt['args'][0]], env)
                                        if isinstance(base, dict) and not isinstance(base, Obj):
                                            base[it.eval(fn, S[tgt['args'][1]], env)] = v
                                            return v
                                    it.assign(fn, S[n['args'][0]], v, env)
                                    return v
                                if cs in ('std::begin',) and n.get('args'):
                                    v = it.eval(fn, S[n['args'][0]], env)
                                    if isinstance(v, list):
                                        return ('it', v, 0)
                                if cs == 'std::to_string':
                                    return b'n'
                                if 'obj' in n and last in ('IsCollection', 'IsTuple', 'IsElement', 'B', 'Cardinality', 'IsEmpty') and not cs.startswith('std::'):
                                    # the three values of the domain are sets: two of the same size, one larger (what a termination test may look at
                                    # besides equality)
                                    recv = it.eval(fn, S[n['obj']], env)
                                    if isinstance(recv, int) and not isinstance(recv, bool) and recv in D:
                                        return {'IsCollection': True, 'IsTuple': False, 'IsElement': False, 'B': recv, 'Cardinality': (1, 1, 2)[recv], 'IsEmpty': False}[last]
                                if cs.startswith(NS + 'SyntaxTree::Cursor::') and last in ('Child', 'get'):
                                    return Obj(__kind__='cursor')
                                if n['k'] in ('CXXConstructExpr', 'CXXTemporaryObjectExpr') and len(n.get('args', [])) == 1:
                                    return it.eval(fn, S[n['args'][0]], env)
                                return NOT_HANDLED
                            it = Interp(db, on_call=on_call, max_steps=20000)
                            cur = Obj(node=Obj(token=Obj(id=tok[kind], pos=Obj(start=0, finish=1), data=None), children=[], parent=None))
                            ok = it.call(f, [cur], this)
                            want = reference(kind, init, step, cond)
                            if (not ok or res.get('v') != want) and bad is None:
                                bad = 'step %s, %sinitial value %d, slot previously holding %s: result %s, the recursion yields %d' % (
                                    dict(zip(D, step)), ('condition %s, ' % dict(zip(D, cond))) if kind == 'NT_RECURSIVE_FULL' else '', init, stale, res.get('v') if ok else 'failure', want)
        except OutOfFragment as e:
            if str(e).startswith('the step of'):
                bad = str(e)
            else:
                r7.broken('ViRecursion (%s) outside the evaluable fragment: %s' % (kind, e))
                continue
        if bad:
            r7.violation('ViRecursion:' + kind, '%s:%d' % (f.file, f.line), bad)
        else:
            r7.ok('ViRecursion:' + kind, 'agrees with the fixed-point semantics on %d (step, condition, initial, stale slot) cases' % cases, '%s:%d' % (f.file, f.line))


def _filter_semantics(db, rep):
    """r8: ASTInterpreter::EvaluateFilterTuple evaluated on every set of pairs over {0,1}, every index list (also with repeated indices) and every
    choice of parameter sets: the result is {e in argument | component idx[i] of e is in parameter i, for every i}; an empty parameter gives {}."""
    import itertools
    r8 = rep.rule('r8', 'FILTER: Fi_{i1..ik}[P1..Pk](S) keeps exactly the elements of S whose component i_j lies in P_j for every j (parameters are paired with indices by position); with one parameter, those whose projection (i_1..i_k) lies in it', 2)
    f = db.fn(AI + '::EvaluateFilterTuple', required=False)
    if f is None:
        r8.broken('anchor vanished: ASTInterpreter::EvaluateFilterTuple')
        return
    pairs = [(a, b) for a in (0, 1) for b in (0, 1)]
    subsets = [frozenset(c) for k in range(0, 3) for c in itertools.combinations((0, 1), k)]
    bad, cases = None, 0

    def S(elems):
        return Obj(__kind__='sd', elems=list(elems))
    def make_on_call(params, res):
        def on_call(it, fn, n, env):
            cs = n.get('cs') or ''
            St = fn.stmts
            last = cs.split('::')[-1]
            if 'obj' not in n and n['k'] == 'CallExpr' and n.get('c'):
                ce = fn.strip(St[n['c'][0]])
                if ce is not None and ce['k'] == 'MemberExpr' and ce.get('c'):
                    n = dict(n, obj=ce['c'][0])          # member call in a template pattern
            dep = cs.startswith('<dependent>::')
            if cs == AI + '::EvaluateChild':
                c = it.eval(fn, St[n['args'][1]], env)
                if not (0 <= c < len(params)):
                    raise OutOfFragment('parameter %s of %d' % (c, len(params)))
                return S(sorted(params[c]))
            if last == 'ChildrenCount':
                return len(params) + 1
            if cs == AI + '::SetCurrent':
                res['v'] = it.eval(fn, St[n['args'][0]], env)
                return True
            if cs == 'std::get' and n.get('args'):
                return it.eval(fn, St[n['args'][0]], env)
            if (cs in (SD + '::B', SD + '::T', SD + '::E', SD + '::ModifyB') or (dep and last in ('B', 'T', 'E', 'ModifyB'))) and 'obj' in n:
                return it.eval(fn, St[n['obj']], env)
            if cs == O + 'Factory::EmptySet':
                return S([])
            if cs == O + 'Factory::Tuple' and len(n.get('args', [])) == 1:
                return tuple(it.eval(fn, St[n['args'][0]], env))
            if 'obj' in n and last in ('IsEmpty', 'Contains', 'AddElement', 'Component', 'begin', 'end'):
                recv = it.eval(fn, St[n['obj']], env)
                args = [it.eval(fn, St[a], env) for a in n.get('args', [])]
                if isinstance(recv, Obj) and 'elems' in recv:
                    if last == 'IsEmpty':
                        return not recv['elems']
                    if last == 'Contains':
                        return args[0] in recv['elems']
                    if last == 'AddElement':
                        if args[0] not in recv['elems']:
                            recv['elems'].append(args[0])
                        return True
                    if last in ('begin', 'end'):
                        return ('it', recv['elems'], 0 if last == 'begin' else len(recv['elems']))
                if isinstance(recv, tuple) and last == 'Component':
                    if not (1 <= args[0] <= len(recv)):
                        raise OutOfFragment('component %s of a %d-tuple' % (args[0], len(recv)))
                    return recv[args[0] - 1]
            if n['k'] == 'CXXOperatorCallExpr' and n.get('op') in ('!=', '==', '++', '*') and 'PolyFCIterator' in cs:
                a = it.eval(fn, St[n['args'][0]], env)
                if n['op'] == '*':
                    return a[1][a[2]]
                if n['op'] == '++':
                    nv = ('it', a[1], a[2] + 1)
                    it.assign(fn, St[n['args'][0]], nv, env)
                    return nv
                b = it.eval(fn, St[n['args'][1]], env)
                same = a[1] is b[1] and a[2] == b[2]
                return same if n['op'] == '==' else not same
            if n['k'] in ('CXXConstructExpr', 'CXXTemporaryObjectExpr') and len(n.get('args', [])) == 1 and (n.get('cls') or '').endswith('StructuredData'):
                v = it.eval(fn, St[n['args'][0]], env)
                return S(list(v['elems'])) if isinstance(v, Obj) and 'elems' in v else v
            return NOT_HANDLED
        return on_call
    try:
        for idx in ([1], [2], [1, 2], [2, 1], [1, 1], [2, 2]):
            for params in itertools.product(subsets, repeat=len(idx)):
                for k in (0, 2, 3, 4):
                    for arg in itertools.combinations(pairs, k):
                        cases += 1
                        res = {}

                        on_call = make_on_call(params, res)
                        it = Interp(db, on_call=on_call, max_steps=100000)
                        this = Obj(curValue=None)
                        ok = it.call(f, [Obj(__kind__='cursor'), list(idx), S(list(arg))], this)
                        if any(not p for p in params):
                            want = set()
                        else:
                            want = {e for e in arg if all(e[i - 1] in p for i, p in zip(idx, params))}
                        got = set(res['v']['elems']) if ok and isinstance(res.get('v'), Obj) else None
                        if got != want and bad is None:
                            bad = 'indices %s, parameters %s, argument %s: result %s, expected %s' % (idx, [sorted(p) for p in params], sorted(arg), sorted(got) if got is not None else 'failure', sorted(want))
    except OutOfFragment as e:
        if str(e).startswith(('call to', 'expression kind', 'statement kind')):
            r8.broken('EvaluateFilterTuple outside the evaluable fragment: %s' % e)
            return
        bad = 'faults: %s' % e
    if bad:
        r8.violation('EvaluateFilterTuple', '%s:%d' % (f.file, f.line), bad)
    else:
        r8.ok('EvaluateFilterTuple', 'agrees with the filter definition on %d (indices, parameters, argument) cases, repeated indices included' % cases, '%s:%d' % (f.file, f.line))
    # the one-parameter form: Fi_{i1..ik}[P](S) with P a set of k-tuples keeps the elements whose projection (e_i1,...,e_ik) lies in P
    g = db.fn(AI + '::EvaluateFilterComplex', required=False)
    if g is None:
        r8.broken('anchor vanished: ASTInterpreter::EvaluateFilterComplex')
        return
    bad, cases = None, 0
    try:
        for idx in ([1, 2], [2, 1], [1, 1]):
            tuples = [(a, b) for a in (0, 1) for b in (0, 1)]
            for pk in (0, 1, 2):
                for P in itertools.combinations(tuples, pk):
                    for k in (0, 1, 2, 3):
                        for arg in itertools.combinations(pairs, k):
                            cases += 1
                            res = {}
                            it = Interp(db, on_call=make_on_call([frozenset(P)], res), max_steps=100000)
                            ok = it.call(g, [Obj(__kind__='cursor'), list(idx), S(list(arg))], Obj(curValue=None))
                            want = set() if not P else {e for e in arg if tuple(e[i - 1] for i in idx) in P}
                            got = set(res['v']['elems']) if ok and isinstance(res.get('v'), Obj) else None
                            if got != want and bad is None:
                                bad = 'indices %s, parameter %s, argument %s: result %s, expected %s' % (idx, sorted(P), sorted(arg), sorted(got) if got is not None else 'failure', sorted(want))
    except OutOfFragment as e:
        if str(e).startswith(('call to', 'expression kind', 'statement kind')):
            r8.broken('EvaluateFilterComplex outside the evaluable fragment: %s' % e)
            return
        bad = 'faults: %s' % e
    if bad:
        r8.violation('EvaluateFilterComplex', '%s:%d' % (g.file, g.line), bad)
    else:
        r8.ok('EvaluateFilterComplex', 'agrees with the projection definition on %d (indices, parameter, argument) cases with several elements' % cases, '%s:%d' % (g.file, g.line))


def _normalise_order(db, rep):
    """r9: the normaliser handles a node before it descends (handlers create nodes that still need normalising: EnumDeclaration nests a new quantifier,
    Function inlines a body), and a quantifier whose enumerated declaration was split has the tuple pattern of its own declaration normalised."""
    r9 = rep.rule('r9', 'NORMALISE-ORDER: Normalize dispatches on a node before visiting its children; after an enumerated declaration is split the remaining declaration is normalised if it is a tuple pattern', 2)
    N = NS + 'Normalizer'
    cands = [g for g in db.by_name.get(N + '::Normalize', []) if g.body >= 0 and not g.rec.get('dependent')]
    # the overload that dispatches (the public entry may only initialise and forward to it)
    f = next((g for g in cands if any((n.get('cs') or '') == N + '::Quantifier' for n in g.calls())), cands[0] if cands else None)
    q = db.fn(N + '::Quantifier', required=False)
    if f is None or q is None:
        r9.broken('anchor vanished: Normalizer::Normalize / Quantifier')
        return
    handlers = [f.position_of(n) for n in f.calls() if (n.get('cs') or '').startswith(N + '::') and (n.get('cs') or '').split('::')[-1] in ('Quantifier', 'Recursion', 'Declarative', 'Imperative', 'Function')]
    recs = [f.position_of(n) for n in f.calls() if n.get('cs') == N + '::Normalize']
    handlers = [p for p in handlers if p is not None]
    recs = [p for p in recs if p is not None]
    if not handlers or not recs:
        r9.broken('Normalizer::Normalize: dispatch or recursive descent not recognised')
    elif any(h in f.reach(r) for r in recs for h in handlers):
        r9.violation('Normalize:top-down', '%s:%d' % (f.file, f.line), 'children are normalised before the node itself is handled: the quantifier that EnumDeclaration nests for the remaining variables (and a body inlined by Function) is never normalised — with three or more variables only the first of the inner ones is bound')
    else:
        r9.ok('Normalize:top-down', 'the node is handled before its children are visited', '%s:%d' % (f.file, f.line))
    en = [q.position_of(n) for n in q.calls() if n.get('cs') == N + '::EnumDeclaration']
    tu = [q.position_of(n) for n in q.calls() if n.get('cs') == N + '::TupleDeclaration']
    if not en or not tu:
        r9.broken('Normalizer::Quantifier: EnumDeclaration / TupleDeclaration calls not found')
    elif any(t in q.reach(e) for e in en for t in tu):
        r9.ok('Quantifier:enum-then-tuple', 'a tuple pattern left as the declaration after the split is normalised', '%s:%d' % (q.file, q.line))
    else:
        r9.violation('Quantifier:enum-then-tuple', '%s:%d' % (q.file, q.line), 'after EnumDeclaration splits `Q (a,b),(c,d) in S` the outer quantifier keeps the tuple pattern (a,b) and no path normalises it: a and b stay unbound (the formula evaluates to a wrong truth value)')


# ---------------------------------------------------------------------------------------------- r10: normalisation preserves the meaning
class _Unbound(Exception):
    pass


class _RefEval:
    """reference semantics of RSLang trees (descriptors (KIND, data, [children])), with tuple and enumerated binders taken as written.
    One value slot per local name, as in the library's evaluator: binding a name that is live in an enclosing scope is recorded."""
    def __init__(self, globals_, funcs=None):
        self.G = globals_
        self.funcs = funcs or {}
        self.shadowed = set()
        self.steps = 0

    def bind(self, decl, v, env):
        k, data, ch = decl
        if k == 'ID_LOCAL':
            if data in env:
                self.shadowed.add(data)
            env[data] = v
        elif k in ('NT_TUPLE_DECL', 'NT_TUPLE'):
            if not isinstance(v, tuple) or len(v) != len(ch):
                raise _Unbound('pattern %s does not match the value %r' % (decl, v))
            for c, x in zip(ch, v):
                self.bind(c, x, env)
        else:
            raise _Unbound('declaration of kind %s' % k)

    def ev(self, d, env):
        self.steps += 1
        if self.steps > 200000:
            raise _Unbound('evaluation does not terminate')
        k, data, ch = d
        E = lambda i, e=env: self.ev(ch[i], e)
        if k == 'ID_LOCAL':
            if data not in env:
                raise _Unbound('local variable %s is not bound' % data)
            return env[data]
        if k == 'ID_GLOBAL':
            return self.G[data]
        if k == 'LIT_INTEGER':
            return data
        if k == 'LIT_EMPTYSET':
            return frozenset()
        if k == 'NT_TUPLE':
            return tuple(E(i) for i in range(len(ch)))
        if k == 'NT_ENUMERATION':
            return frozenset(E(i) for i in range(len(ch)))
        if k == 'SMALLPR':
            v = E(0)
            if len(data) == 1:
                return v[data[0] - 1]
            return tuple(v[i - 1] for i in data)
        if k in ('EQUAL', 'NOTEQUAL'):
            return (E(0) == E(1)) == (k == 'EQUAL')
        if k in ('LESSER', 'GREATER', 'LESSER_OR_EQ', 'GREATER_OR_EQ'):
            a, b = E(0), E(1)
            return {'LESSER': a < b, 'GREATER': a > b, 'LESSER_OR_EQ': a <= b, 'GREATER_OR_EQ': a >= b}[k]
        if k in ('PLUS', 'MINUS', 'MULTIPLY'):
            a, b = E(0), E(1)
            return a + b if k == 'PLUS' else a - b if k == 'MINUS' else a * b
        if k in ('IN', 'NOTIN'):
            return (E(0) in E(1)) == (k == 'IN')
        if k == 'AND':
            return bool(E(0)) and bool(E(1))
        if k == 'OR':
            return bool(E(0)) or bool(E(1))
        if k == 'IMPLICATION':
            return (not E(0)) or bool(E(1))
        if k == 'EQUIVALENT':
            return bool(E(0)) == bool(E(1))
        if k == 'NOT':
            return not E(0)
        if k == 'CARD':
            return len(E(0))
        if k == 'UNION':
            return E(0) | E(1)
        if k == 'DECART':
            import itertools
            return frozenset(itertools.product(*[sorted(E(i), key=repr) for i in range(len(ch))]))
        if k in ('FORALL', 'EXISTS'):
            decl, dom, body = ch
            domain = sorted(self.ev(dom, env), key=repr)
            decls = decl[2] if decl[0] == 'NT_ENUM_DECL' else [decl]

            def go(i, e):
                if i == len(decls):
                    return bool(self.ev(body, e))
                res = []
                for v in domain:
                    e2 = dict(e)
                    self.bind(decls[i], v, e2)
                    res.append(go(i + 1, e2))
                return all(res) if k == 'FORALL' else any(res)
            return go(0, env)
        if k == 'NT_DECLARATIVE_EXPR':
            decl, dom, pred = ch
            out = set()
            for v in sorted(self.ev(dom, env), key=repr):
                e2 = dict(env)
                self.bind(decl, v, e2)
                if self.ev(pred, e2):
                    out.add(v)
            return frozenset(out)
        if k == 'NT_IMPERATIVE_EXPR':
            result, blocks = ch[0], ch[1:]
            out = set()

            def run(i, e):
                if i == len(blocks):
                    out.add(self.ev(result, e))
                    return
                b = blocks[i]
                if b[0] == 'ITERATE':
                    for v in sorted(self.ev(b[2][1], e), key=repr):
                        e2 = dict(e)
                        self.bind(b[2][0], v, e2)
                        run(i + 1, e2)
                elif b[0] == 'ASSIGN':
                    e2 = dict(e)
                    self.bind(b[2][0], self.ev(b[2][1], e), e2)
                    run(i + 1, e2)
                elif self.ev(b, e):
                    run(i + 1, e)
            run(0, env)
            return frozenset(out)
        if k in ('NT_RECURSIVE_FULL', 'NT_RECURSIVE_SHORT'):
            decl, init = ch[0], ch[1]
            cur = self.ev(init, env)
            for _ in range(12):
                e2 = dict(env)
                self.bind(decl, cur, e2)
                if k == 'NT_RECURSIVE_FULL' and not self.ev(ch[2], e2):
                    break
                new = self.ev(ch[-1], e2)
                if k == 'NT_RECURSIVE_SHORT' and new == cur:
                    break
                cur = new
            return cur
        if k == 'NT_FUNC_CALL':
            name = ch[0][1]
            fdef = self.funcs[name]                       # PUNC_DEFINE(name, NT_FUNC_DEFINITION(NT_ARGUMENTS(NT_ARG_DECL(x, dom)...), body))
            params = [a[2][0][1] for a in fdef[2][1][2][0][2]]
            vals = [self.ev(c, env) for c in ch[1:]]
            return self.ev(fdef[2][1][2][1], dict(zip(params, vals)))   # the body sees only its parameters: lexical scope of the definition
        raise _Unbound('node kind %s outside the reference semantics' % k)


def _show_tree(d):
    k, v, ch = d
    nm = {'ID_LOCAL': '', 'ID_GLOBAL': '', 'LIT_INTEGER': ''}.get(k, k)
    if not ch:
        return str(v) if v is not None else k
    return '%s%s(%s)' % (nm, '' if v is None else list(v) if isinstance(v, tuple) else '[%s]' % v, ', '.join(_show_tree(c) for c in ch))


def _normalise_cases():
    L = lambda n: ('ID_LOCAL', n, [])
    Gl = lambda n: ('ID_GLOBAL', n, [])
    I = lambda v: ('LIT_INTEGER', v, [])
    T = lambda *c: ('NT_TUPLE', None, list(c))
    TD = lambda *c: ('NT_TUPLE_DECL', None, list(c))
    ED = lambda *c: ('NT_ENUM_DECL', None, list(c))
    B = lambda k, a, b: (k, None, [a, b])
    D = lambda decl, dom, pred: ('NT_DECLARATIVE_EXPR', None, [decl, dom, pred])
    Q = lambda k, decl, dom, body: (k, None, [decl, dom, body])
    IT = lambda decl, dom: ('ITERATE', None, [decl, dom])
    AS = lambda decl, e: ('ASSIGN', None, [decl, e])
    IMP = lambda res, *blocks: ('NT_IMPERATIVE_EXPR', None, [res] + list(blocks))
    AND = lambda a, b: B('AND', a, b)
    true_of = lambda x: B('EQUAL', x, x)
    cases = [
        ('tuple binder of a quantifier', Q('FORALL', TD(L('a'), L('b')), Gl('S1'), B('LESSER', L('a'), L('b'))), {}),
        ('nested tuple pattern', D(TD(L('a'), TD(L('b'), L('c'))), Gl('S2'), B('EQUAL', L('a'), L('c'))), {}),
        ('enumerated declaration', Q('EXISTS', ED(L('a'), L('b'), L('c')), Gl('C1'), AND(B('LESSER', L('a'), L('b')), B('LESSER', L('b'), L('c')))), {}),
        ('enumerated declaration of tuple patterns', Q('FORALL', ED(TD(L('a'), L('b')), TD(L('c'), L('d'))), Gl('S3'), B('IMPLICATION', B('EQUAL', L('a'), L('c')), B('EQUAL', L('b'), L('d')))), {}),
        ('the domain of a set-builder binds the same name', D(TD(L('a'), L('b')), D(L('a'), Gl('S1'), B('EQUAL', L('a'), T(I(1), I(2)))), B('LESSER', L('a'), L('b'))), {}),
        ('the domain of a set-builder binds the same name (product)', D(TD(L('a'), L('b')), ('DECART', None, [D(L('a'), Gl('C1'), true_of(L('a'))), Gl('C1')]), B('EQUAL', L('a'), L('b'))), {}),
        ('the domain of a quantifier binds the same name', Q('EXISTS', TD(L('a'), L('b')), D(L('a'), Gl('S1'), B('EQUAL', L('a'), T(I(3), I(4)))), B('LESSER', L('a'), L('b'))), {}),
        ('an earlier block of an imperative binds the same name', IMP(L('x'), IT(L('x'), Gl('C1')), Q('FORALL', L('a'), Gl('C1'), true_of(L('a'))), IT(TD(L('a'), L('b')), Gl('S1')), B('LESSER', L('a'), L('b'))), {}),
        ('the own domain of an imperative block binds the same name', IMP(L('a'), IT(TD(L('a'), L('b')), D(L('a'), Gl('S1'), true_of(L('a')))), B('LESSER', L('a'), L('b'))), {}),
        ('imperative result is the pattern', IMP(T(L('b'), L('a')), IT(TD(L('a'), L('b')), Gl('S1')), AS(L('c'), L('a')), B('LESSER', L('c'), I(3))), {}),
        ('imperative result is a bare component', IMP(L('b'), IT(TD(L('a'), L('b')), Gl('S1'))), {}),
        ('two patterns whose component names concatenate to the same text', D(TD(L('a'), L('bc')), Gl('S1'), AND(Q('FORALL', TD(L('ab'), L('c')), Gl('S1'), B('LESSER', L('ab'), L('c'))), AND(B('EQUAL', L('a'), I(1)), B('EQUAL', L('bc'), I(2))))), {}),
        ('an enumerated declaration whose domain binds a name of its first pattern', Q('FORALL', ED(TD(L('a'), L('b')), L('c')), D(L('a'), Gl('S1'), true_of(L('a'))), AND(B('LESSER', L('a'), L('b')), true_of(L('c')))), {}),
        ('an enumerated declaration whose domain binds the name of its first variable', Q('EXISTS', ED(L('a'), L('b')), D(L('a'), Gl('C1'), true_of(L('a'))), AND(B('EQUAL', L('a'), I(1)), B('EQUAL', L('b'), I(3)))), {}),
        ('an enumerated declaration of three variables whose domain binds the second', Q('FORALL', ED(L('a'), L('b'), L('c')), D(L('b'), Gl('C1'), true_of(L('b'))), B('IMPLICATION', AND(B('EQUAL', L('a'), I(1)), B('EQUAL', L('b'), I(1))), B('LESSER_OR_EQ', L('b'), L('c')))), {}),
        ('an imperative whose guard block binds a name of a later pattern', IMP(T(L('a'), L('b')), Q('EXISTS', L('a'), Gl('C1'), true_of(L('a'))), IT(TD(L('a'), L('b')), Gl('S1'))), {}),
        ('recursion over a tuple', ('NT_RECURSIVE_FULL', None, [TD(L('a'), L('b')), T(I(0), I(1)), B('LESSER', L('a'), I(3)), T(B('PLUS', L('a'), I(1)), B('MULTIPLY', L('b'), I(2)))]), {}),
        ('short recursion over a tuple', ('NT_RECURSIVE_SHORT', None, [TD(L('a'), L('b')), T(I(0), I(5)), T(L('b'), L('b'))]), {}),
    ]
    fdef = ('PUNC_DEFINE', None, [('ID_FUNCTION', 'F1', []), ('NT_FUNC_DEFINITION', None, [('NT_ARGUMENTS', None, [('NT_ARG_DECL', None, [L('a'), Gl('C1')])]), D(L('x'), Gl('C1'), B('NOTEQUAL', L('x'), L('a')))])])
    call = lambda arg: ('NT_FUNC_CALL', None, [('ID_FUNCTION', 'F1', []), arg])
    cases.append(('a term-function inlined under a binder', D(L('y'), Gl('C1'), B('EQUAL', ('CARD', None, [call(L('y'))]), I(2))), {'F1': fdef}))
    cases.append(('a term-function inlined where the caller uses the name the inliner invents', D(L('__var1'), Gl('C1'), B('EQUAL', ('CARD', None, [call(L('__var1'))]), I(2))), {'F1': fdef}))
    cases.append(('a term-function inlined twice', D(L('y'), Gl('C1'), B('EQUAL', call(L('y')), call(L('y')))), {'F1': fdef}))
    # a body whose root itself needs normalising (a tuple binder): the substituted body is normalised as a whole, not only below its root
    fdef2 = ('PUNC_DEFINE', None, [('ID_FUNCTION', 'F2', []), ('NT_FUNC_DEFINITION', None, [('NT_ARGUMENTS', None, [('NT_ARG_DECL', None, [L('s'), Gl('S1')])]),
             D(TD(L('x'), L('y')), L('s'), B('LESSER', L('x'), L('y')))])])
    call2 = lambda arg: ('NT_FUNC_CALL', None, [('ID_FUNCTION', 'F2', []), arg])
    cases.append(('a term-function whose body is rooted at a tuple binder', B('EQUAL', ('CARD', None, [call2(Gl('S1'))]), I(2)), {'F2': fdef2}))
    fdef3 = ('PUNC_DEFINE', None, [('ID_FUNCTION', 'F3', []), ('NT_FUNC_DEFINITION', None, [('NT_ARGUMENTS', None, [('NT_ARG_DECL', None, [L('s'), Gl('S1')])]), call2(L('s'))])])
    cases.append(('a term-function whose body is a call of another one', B('EQUAL', ('CARD', None, [('NT_FUNC_CALL', None, [('ID_FUNCTION', 'F3', []), Gl('S1')])]), I(2)), {'F2': fdef2, 'F3': fdef3}))
    # names of a closed tuple pattern are ordinary names again: a later, unrelated pattern must not rewrite them
    cases.append(('a plain variable named like a component of an earlier, closed pattern',
                  AND(Q('EXISTS', TD(L('a'), L('b')), Gl('S1'), B('LESSER', L('a'), L('b'))),
                      Q('EXISTS', L('a'), Gl('C1'), Q('FORALL', TD(L('c'), L('d')), Gl('S1'), B('NOTEQUAL', L('c'), L('a'))))), {}))
    cases.append(('a term-function whose argument uses its parameter name', D(L('a'), Gl('C1'), B('EQUAL', ('CARD', None, [call(L('a'))]), I(2))), {'F1': fdef}))
    return cases


def _normalise_meaning(db, rep):
    r10 = rep.rule('r10', 'NORMALISE-MEANING: the normalised tree denotes the value of the tree as written - every variable stays bound to its own binder, and an invented name never collides with a live one', 10)
    normalise_meaning_rule(db, r10)


def normalise_meaning_rule(db, r10):
    """r10 (shared with C02 r8): Normalizer::Normalize interpreted from its source (with SyntaxTree::Node's editing operations) on trees with tuple and
    enumerated binders, nested binders re-using names, imperative blocks, recursions and inlined term-functions; the result, evaluated by
    reference semantics with one slot per local name (the library evaluator's storage model), must give the value of the tree as written."""
    from engine.models.treemodel import TreeEval
    try:
        te = TreeEval(db)
    except OutOfFragment as e:
        r10.broken('tree harness: %s' % e)
        return
    nz = next((g for g in db.by_name.get(NS + 'Normalizer::Normalize', []) if g.body >= 0 and not g.rec.get('dependent')), None)
    where = '%s:%d' % (nz.file, nz.line) if nz is not None else ''
    Gm = {'C1': frozenset({1, 2, 3}), 'S1': frozenset({(1, 2), (3, 4)}), 'S2': frozenset({(1, (2, 1)), (2, (2, 3))}), 'S3': frozenset({(1, 2), (1, 3), (2, 2)})}
    for name, tree, funcs in _normalise_cases():
        inst = name
        try:
            ref0 = _RefEval(Gm, funcs)
            v0 = ref0.ev(tree, {})
        except _Unbound as e:
            r10.broken('case `%s` is not evaluable as written: %s' % (name, e))
            continue
        try:
            t1, problems = te.normalize(tree, funcs)
        except OutOfFragment as e:
            msg = str(e)
            if 'loop bound' in msg or 'step budget' in msg or 'recursion depth' in msg:
                r10.violation(inst, where, 'normalising %s does not terminate (%s)' % (_show_tree(tree), msg))
            elif 'bad_variant_access' in msg or 'out of range' in msg or 'missing key' in msg:
                r10.violation(inst, where, 'normalising %s faults: %s' % (_show_tree(tree), msg))
            else:
                r10.broken('Normalizer outside the evaluable fragment on `%s`: %s' % (name, msg))
            continue
        try:
            ref1 = _RefEval(Gm, funcs)
            v1 = ref1.ev(t1, {})
            extra = ref1.shadowed - ref0.shadowed
            if v1 != v0:
                r10.violation(inst, where, '%s has the value %s; normalised to %s it has the value %s' % (_show_tree(tree), _show_val(v0), _show_tree(t1), _show_val(v1)))
            elif extra:
                r10.violation(inst, where, '%s is normalised to %s, where the name %s is bound again while an enclosing binder of that name is live: the evaluator keeps one slot per name, so the inner binder overwrites the outer value' % (_show_tree(tree), _show_tree(t1), sorted(extra)))
            elif problems:
                r10.violation(inst, where, 'normalising %s leaves a broken parent link: %s' % (_show_tree(tree), problems[0]))
            elif _not_normal(t1, funcs):
                r10.violation(inst, where, '%s is normalised to %s, which still contains %s: the evaluator has no rule for it (it evaluates normal forms only), so an expression the checker accepted '
                              'yields no value or a value of another structure' % (_show_tree(tree), _show_tree(t1), _not_normal(t1, funcs)))
            else:
                r10.ok(inst, '%s = %s before and after' % (_show_tree(tree)[:90], _show_val(v0)), where)
        except _Unbound as e:
            r10.violation(inst, where, '%s is normalised to %s, in which %s' % (_show_tree(tree), _show_tree(t1), e))


def _not_normal(t, funcs):
    """what is left in a tree that normalisation should have eliminated: a tuple or enumerated declaration, a call of a term-function whose body is known"""
    k, data, ch = t
    if k in ('NT_TUPLE_DECL', 'NT_ENUM_DECL'):
        return 'the declaration %s' % _show_tree(t)
    if k == 'NT_FUNC_CALL' and ch and ch[0][0] == 'ID_FUNCTION' and ch[0][1] in (funcs or {}):
        return 'the call %s of a term-function whose body should have been substituted' % _show_tree(t)
    for c in ch:
        r = _not_normal(c, funcs)
        if r:
            return r
    return None


def _show_val(v):
    if isinstance(v, frozenset):
        return '{' + ', '.join(sorted(_show_val(x) for x in v)) + '}'
    if isinstance(v, tuple):
        return '(' + ', '.join(_show_val(x) for x in v) + ')'
    return str(v)
