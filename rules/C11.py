"""C11 — a model never shows a stale calculated value.

Structural clauses decided (DESIGN.md section 4, C11):
 r1 MUST-CALL   every public mutator of RSModel / rsValuesFacet / rsCalculationFacet that changes a value source
                (stored interpretation, statement, definition, existence of a constituent) reaches
                RSModel::ResetDependants on every path from the change to a success exit.
 r2 ORDER       dependants are computed before the dependency edges of the target are destroyed.
 r3 CO-UPDATE   a mutator that changes a definition / erases a constituent resets the target's own value and its
                calculated flag.
 r4 RESET-BODY  ResetDependants walks the transitive outputs and exempts only the target itself and base sets.
 r5 RECALC      RecalculateAll clears every calculated flag and every derived value before iterating, and iterates in
                dependency (topological) order.
 r6 RESET-COMPLETE  the per-constituent reset/erase helpers clear every per-constituent container of their class.
 r8 GRAPH-FRESH the dependency graph ResetDependants walks is refreshed after every definition/alias/membership write of Schema
                (same rule as C07 r1): a stale edge set means the wrong dependants are reset.
 r7 RESET-TOTAL ResetDependants cannot be aborted half-way: every optional::value() in the helpers it reaches is guarded
                by has_value() on the same object (an escaping bad_optional_access would leave later dependants stale).
"""
from engine.cfgq import call_sites, transitive_calls, success_exits, paths_avoiding, always_calls, describe_pos, guard_atoms
from engine.facts import AnalysisBroken
from engine import evalmini

MODEL = 'ccl::semantic::RSModel'
VALUES = 'ccl::semantic::rsValuesFacet'
CALC = 'ccl::semantic::rsCalculationFacet'
STORE = 'ccl::semantic::InterpretationStorage'
CLASSES = (MODEL, VALUES, CALC)

RESET_DEPENDANTS = MODEL + '::ResetDependants'

# value-source primitives: (callee qualified name) -> what it changes
PRIMITIVES = {
    STORE + '::SetRSInterpretationFor': 'stored structured value',
    STORE + '::SetTextInterpretationFor': 'stored text interpretation (and derived base-set value)',
    STORE + '::AddInterpretantFor': 'stored text interpretation (and derived base-set value)',
    STORE + '::Erase': 'stored value',
    STORE + '::Clear': 'stored values',
    'ccl::semantic::RSCore::SetExpressionFor': 'definition of the target',
    'ccl::semantic::RSCore::Erase': 'existence of the target',
    # a name that appears, disappears or moves changes the typing of every constituent that mentions it by that name
    'ccl::semantic::RSCore::Emplace': 'a new name (constituents already mentioning it become typed)',
    'ccl::semantic::RSCore::InsertCopy': 'new names (constituents already mentioning them become typed)',
    'ccl::semantic::RSCore::SetAliasFor': 'the name of the target (mentions of the old / new name lose / gain their meaning)',
    'ccl::semantic::RSCore::ResetAliases': 'all names',
}

DESTROYERS = ('ccl::semantic::RSCore::Erase',)

# public mutators that reach a primitive and are exempt from r1, one reason each (confirmed by reading)
EXEMPT_R1 = {
    MODEL + '::Load': 'deserialisation of a record into an empty model',
    MODEL + '::FinalizeLoadingCore': 'deserialisation: initialises every slot before data is loaded',
    VALUES + '::LoadData': 'deserialisation only: restores the saved values verbatim',
    CALC + '::RecalculateAll': 'resets and recomputes everything itself (rule r5)',
}


def is_statement_write(fn, n):
    """erase / operator[] / clear / emplace / insert on the member `statements`."""
    if n['k'] == 'CXXMemberCallExpr' and 'obj' in n:
        root = fn.root_of(fn.stmts[n['obj']])
        if root[0] in ('this', 'this-field') and root[-1][:1] == ('statements',) and (n.get('callee') or '').split('::')[-1] in ('erase', 'clear', 'emplace', 'insert', 'insert_or_assign', 'try_emplace'):
            return True
    if n['k'] == 'CXXOperatorCallExpr' and n.get('op') == '[]' and n.get('args'):
        root = fn.root_of(fn.stmts[n['args'][0]])
        if root[0] in ('this', 'this-field') and root[-1][:1] == ('statements',):
            return True
    return False


def check(db, rep):
    rep.explanation = ('C11 is decided as a cache-invalidation discipline: MUST-CALL(ResetDependants) on every mutator that changes a '
                       'value source, ORDER against edge destruction, CO-UPDATE of value and calculated flag, completeness of the reset '
                       'helpers, and the shape of RecalculateAll. Value equality with a full recalculation is not decided.')
    reset_dep = db.fn(RESET_DEPENDANTS)

    def prim(fn):
        return lambda n: (n.get('callee') in PRIMITIVES) or is_statement_write(fn, n)

    def in_model(t):
        return t.cls in CLASSES

    memo = {}

    def is_family_call(fn):
        def f(n):
            if n.get('callee') == RESET_DEPENDANTS:
                return True
            ts = [t for t in db.callees(fn, n) if in_model(t)]
            return bool(ts) and all(always_calls(db, t, lambda m: m.get('callee') == RESET_DEPENDANTS, 3, memo) for t in ts)
        return f

    # ---------------- r1
    r1 = rep.rule('r1', 'MUST-CALL: every public mutator of the model that changes a value source passes RSModel::ResetDependants on every path from the change to a success exit', 6)
    pubs = []
    for cls in CLASSES:
        for f in db.methods_of(cls):
            if f.rec.get('access') == 0 and not f.rec.get('const') and not f.rec.get('ctor') and not f.rec.get('dtor') and not f.rec.get('static') and f.has_cfg():
                pubs.append(f)
    rep.note('public_mutators_examined', len(pubs))
    discovered = []
    for f in pubs:
        wsites = []
        for n in f.calls():
            if prim(f)(n):
                wsites.append((n, [(f, n)]))
                continue
            for t in db.callees(f, n):
                if in_model(t) and t.name != RESET_DEPENDANTS:
                    w = transitive_calls(db, t, prim(t), 4, in_model)
                    # the predicate depends on the function for the `statements` test: recompute per callee
                    if w is None:
                        w = _trans(db, t, in_model, 4)
                    if w is not None:
                        wsites.append((n, [(f, n)] + w))
                        break
        if not wsites:
            continue
        discovered.append(f)
        if f.name in EXEMPT_R1:
            r1.ok(f.name, 'exempt: ' + EXEMPT_R1[f.name], f.file + ':%d' % f.line, nontrivial=False)
            continue
        fam = [p for p, _ in call_sites(f, is_family_call(f))]
        # accepted idiom (bulk and name-changing mutators): a loop over a collection of constituents whose body resets dependants, prunes
        # structures or resets values. Passing the loop statement counts, also with zero iterations (nothing was inserted / nothing
        # mentions the name); which collection is walked is confirmed by reading: inserted ids, ExpandOutputs of the renamed one, the list.
        reset_walk = set()          # statements inside a reset walk: a prune / reset there is the reset step, not a new value source
        for lp in [x for x in f.walk() if x['k'] == 'CXXForRangeStmt']:
            body_calls = [(c.get('callee') or '') for c in f.calls(f.stmts[lp['body']])]
            lam_calls = []
            for c in f.calls(f.stmts[lp['body']]):
                for lf in db.lambdas_in(f):
                    if c.get('op') == '()' and lf.name.split('::')[-1].startswith('lambda@'):
                        lam_calls += [(x.get('callee') or '') for x in lf.calls()]
            allc = body_calls + lam_calls
            if any(x == RESET_DEPENDANTS or x == VALUES + '::PruneStructure' for x in allc) or (any(x == VALUES + '::ResetFor' for x in allc) and any(x == CALC + '::ResetFor' for x in allc)):
                p_ = f.position_of(f.stmts[lp['range']])
                if p_ is not None:
                    fam.append(p_)
                    reset_walk |= {x['id'] for x in f.walk(f.stmts[lp['body']])}
        exits = success_exits(f)
        starts = []
        for n, chain in wsites:
            p = f.position_of(n)
            if p is not None and n['id'] not in reset_walk:
                starts.append((p, n, chain))
        # an erasure destroys the edges ResetDependants walks: there the reset must come *before* the change (dominate it)
        destroying = [(s0, n0, c0) for s0, n0, c0 in starts if c0[-1][1].get('callee') in DESTROYERS]
        following = [(s0, n0, c0) for s0, n0, c0 in starts if c0[-1][1].get('callee') not in DESTROYERS]
        succ, entry, exit_ = f.graph()
        bad_dom = paths_avoiding(f, [entry], fam, [(s0, '') for s0, _, _ in destroying]) if destroying else []
        if bad_dom:
            n0 = [n0 for s0, n0, _ in destroying if s0 == bad_dom[0][1]][0]
            r1.violation(f.name, f.file + ':%d' % n0.get('line', f.line),
                         '`%s` removes the target and its dependency edges, and a path from the function entry reaches it without passing ResetDependants: dependants keep their values' % n0.get('txt', '')[:60])
            continue
        # in an erasing mutator the remaining writes clear the erased constituent's own slots (rule r3 checks them)
        starts = [] if destroying else following
        bad = paths_avoiding(f, [s for s, _, _ in starts], fam, exits)
        if bad:
            s, t = bad[0]
            n, chain = [(n, c) for p, n, c in starts if p == s][0]
            what = PRIMITIVES.get(chain[-1][1].get('callee'), 'statement value')
            r1.violation(f.name, f.file + ':%d' % n.get('line', f.line),
                         'path from `%s` (changes %s via %s) to success exit %s does not pass ResetDependants' % (
                             n.get('txt', '')[:60], what, ' -> '.join(c[0].name.split('::')[-1] for c in chain), describe_pos(f, t)),
                         path={'from': describe_pos(f, s), 'to': describe_pos(f, t)})
        else:
            r1.ok(f.name, '%d change sites, %d ResetDependants sites, %d success exits' % (len(starts), len(fam), len(exits)), f.file + ':%d' % f.line)
    # stale exemptions
    names = {f.name for f in discovered}
    for e in EXEMPT_R1:
        if e not in names:
            r1.broken('exemption %s no longer matches a value-source mutator' % e)

    # ---------------- r2
    r2 = rep.rule('r2', 'ORDER: ResetDependants(t) is never executed after the call that removes t (and its edges) from the schema graph', 1)
    destroyers = ('ccl::semantic::RSCore::Erase', 'ccl::semantic::Schema::Erase', 'ccl::graph::CGraph::EraseItem')
    for cls in CLASSES:
        for f in db.methods_of(cls):
            if not f.has_cfg():
                continue
            fam = call_sites(f, is_family_call(f))
            des = call_sites(f, lambda n: n.get('callee') in destroyers)
            if not fam or not des:
                continue
            bad = None
            for dp, dn in des:
                reach = f.reach(dp)
                for fp, fn_ in fam:
                    if fp in reach and fp != dp:
                        bad = (dn, fn_)
            if bad:
                r2.violation(f.name, f.loc(bad[1]), '`%s` runs after `%s`: the dependency edges of the target are gone, so no dependant is reset' % (
                    bad[1].get('txt', '')[:50], bad[0].get('txt', '')[:50]))
            else:
                r2.ok(f.name, 'dependants reset before edge destruction', f.file + ':%d' % f.line)

    # ---------------- r10
    r10 = rep.rule('r10', 'PRUNE-AGAINST-NEW-TYPES: structure data of the dependants is pruned (PruneStructure tests elements against the current typification) after the schema change that alters those typifications, on the success path - also for an erasure, whose dependants must be collected before their edges disappear', 2)
    changers = ('ccl::semantic::RSCore::SetExpressionFor', 'ccl::semantic::RSCore::Erase')
    prune = lambda n: (n.get('cs') or '') in (MODEL + '::ResetDependants', VALUES + '::PruneStructure')
    for f in db.methods_of(MODEL):
        if not f.has_cfg():
            continue
        ch = call_sites(f, lambda n: n.get('callee') in changers)
        if not ch:
            continue
        pr = call_sites(f, prune)
        ok = any(pp in f.reach(cp) and pp != cp for cp, _ in ch for pp, _ in pr)
        if ok:
            r10.ok(f.name, 'dependants are pruned / reset after the schema change', '%s:%d' % (f.file, f.line))
        else:
            r10.violation(f.name, f.loc(ch[0][1]), 'the dependants are pruned only before `%s`, while their typifications are still intact, and not again afterwards: a structure over an erased base set keeps its elements (X1={1,2}, S1∈ℬ(X1)={1,2}; Erase(X1), a new empty X1: S1 is VERIFIED and still holds {1,2})' % (ch[0][1].get('txt') or '')[:40])
    # ---------------- r11
    r11 = rep.rule('r11', 'STRUCTURE-GUARD: in the model layer every E()/T()/B() access to a value or a typification is dominated by a test of the structure of that very object', 5)
    rep.note('r11_access_sites', structure_guard_rule(db, r11))
    r12 = rep.rule('r12', 'VALUES-TOTAL: the values facet reads an optional (a looked-up constituent, a stored value, a typification) only under a has_value() test of that very object: '
                          'pruning and validating stored data answers, it never throws out of the middle of an invalidation', 8)
    _values_total(db, r12)
    # ---------------- r3
    r3 = rep.rule('r3', 'CO-UPDATE: a mutator that changes a definition or erases a constituent resets the value and the calculated flag of the target on every success path', 2)
    val_reset = (VALUES + '::ResetFor', VALUES + '::Erase')
    calc_reset = (CALC + '::ResetFor', CALC + '::Erase')
    for f in db.methods_of(MODEL):
        if not f.has_cfg():
            continue
        trig = call_sites(f, lambda n: n.get('callee') in ('ccl::semantic::RSCore::SetExpressionFor', 'ccl::semantic::RSCore::Erase'))
        if not trig:
            continue
        exits = success_exits(f)
        problems = []
        for label, fam in (('value', val_reset), ('calculated flag', calc_reset)):
            fp = [p for p, _ in call_sites(f, lambda n: n.get('callee') in fam)]
            bad = paths_avoiding(f, [p for p, _ in trig], fp, exits)
            if bad:
                problems.append(label)
        if problems:
            r3.violation(f.name, f.file + ':%d' % f.line, 'success path after `%s` does not reset the target\'s %s' % (trig[0][1].get('txt', '')[:50], ' and '.join(problems)))
        else:
            r3.ok(f.name, 'value and calculated flag reset on all success paths', f.file + ':%d' % f.line)

    # ---------------- r4
    r4 = rep.rule('r4', 'RESET-BODY: ResetDependants iterates the transitive outputs of the target in the schema graph and skips only the target itself and base sets; every other dependant is reset (value + flag) or pruned (structures)', 3)
    _check_reset_body(db, reset_dep, r4)

    # ---------------- r5
    r5 = rep.rule('r5', 'RECALC: RecalculateAll clears the calculated flags and all derived values before iterating, and iterates the topological order of the schema graph', 3)
    ra = db.fn(CALC + '::RecalculateAll')
    loops = [n for n in ra.walk() if n['k'] == 'CXXForRangeStmt']
    if len(loops) != 1:
        r5.broken('RecalculateAll: expected one range-for, found %d' % len(loops))
    else:
        lp = loops[0]
        rng_calls = [c.get('callee') for c in ra.calls(ra.stmts[lp['range']])] if 'range' in lp else []
        if 'ccl::graph::CGraph::TopologicalOrder' in rng_calls:
            r5.ok('iteration-order', 'iterates CGraph::TopologicalOrder()', ra.loc(lp))
        else:
            r5.violation('iteration-order', ra.loc(lp), 'RecalculateAll iterates `%s`, not the topological order of the dependency graph: a constituent may be computed from values of dependencies not yet recomputed' % ra.stmts[lp['range']].get('txt', '')[:60])
        calc_pos = [p for p, _ in call_sites(ra, lambda n: n.get('callee') == CALC + '::CalculateCstInternal')]
        if not calc_pos:
            r5.broken('RecalculateAll no longer calls CalculateCstInternal')
        for label, pred in (('clear-calculated-flags', lambda n: n['k'] == 'CXXMemberCallExpr' and (n.get('callee') or '').endswith('::clear') and 'obj' in n and ra.root_of(ra.stmts[n['obj']])[-1][:1] == ('calculatedEntities',)),
                            ('reset-derived-values', lambda n: n.get('callee') in (VALUES + '::ResetAllExceptCore', VALUES + '::ResetAll'))):
            sites = [p for p, _ in call_sites(ra, pred)]
            succ, entry, exit_ = ra.graph()
            # every path from entry to a calculation passes the reset
            bad = paths_avoiding(ra, [entry], sites, [(p, '') for p in calc_pos]) if calc_pos else []
            if not sites or bad:
                r5.violation(label, ra.file + ':%d' % ra.line, 'a calculation in RecalculateAll can run before %s' % label)
            else:
                r5.ok(label, 'dominates every CalculateCstInternal call', ra.file + ':%d' % ra.line)

    # ---------------- r6
    r6 = rep.rule('r6', 'RESET-COMPLETE: per-constituent reset/erase helpers clear every per-constituent container of their class', 4)
    _reset_complete(db, r6, STORE, 'Erase', None)
    _reset_complete(db, r6, VALUES, 'ResetFor', STORE + '::Erase')
    _reset_complete(db, r6, VALUES, 'Erase', STORE + '::Erase')
    _reset_complete(db, r6, CALC, 'ResetFor', None)

    # ---------------- r8
    r8 = rep.rule('r8', 'GRAPH-FRESH: the schema dependency graph that ResetDependants walks is refreshed after every write of a definition, alias or membership (shared with C07 r1, Schema part)', 10)
    from rules import C07
    from engine.modset import ModSets
    C07.refresh_rule(db, rep, r8, ModSets(db), ((C07.SCHEMA, C07._classify_schema, C07._families_schema),))

    # ---------------- r7
    r7 = rep.rule('r7', 'RESET-TOTAL: every optional::value() reachable from ResetDependants inside the model classes is dominated by has_value() on the same object', 3)
    _reset_total(db, r7, reset_dep)
    _value_sources(db, rep)


# unguarded optional accesses on the reset path that are justified by an invariant (one reason each)
R7_JUSTIFIED = {
    ('ccl::semantic::rsValuesFacet::CheckBasicElements', 'FindAlias'):
        'the base id comes from the typification of a constituent that type-checked against the same schema, so the alias is registered',
}


def _reset_total(db, rule, reset_dep):
    seen = {}
    stack = [reset_dep]
    while stack:
        f = stack.pop()
        if f.name in seen:
            continue
        seen[f.name] = f
        for n in f.calls():
            for t in db.callees(f, n):
                if t.cls in CLASSES and t.has_cfg():
                    stack.append(t)
    for name, f in sorted(seen.items()):
        for n in f.calls():
            if n.get('cs') != 'std::optional::value' or 'obj' not in n:
                continue
            root = f.root_of(f.stmts[n['obj']])
            pos = f.position_of(n)
            atoms = guard_atoms(f, pos) if pos else []
            inst = '%s:%s' % (name.split('::')[-1], f.stmts[n['obj']].get('txt', '')[:50].replace(' ', ''))
            if any(a[0] == 'has_value' and a[1] == root and a[2] for a in atoms):
                rule.ok(inst, 'dominated by has_value() on the same object', f.loc(n))
                continue
            just = [r for (fn_, key), r in R7_JUSTIFIED.items() if fn_ == name and key in n.get('txt', '')]
            if just:
                rule.ok(inst, 'justified: ' + just[0], f.loc(n), nontrivial=False)
                continue
            rule.violation(inst, f.loc(n), '`%s` is reached from ResetDependants without a has_value() guard on the same object: an empty optional throws, the reset loop is aborted and later dependants keep stale values' % n.get('txt', '')[:70])
    rule.report.note('reset_path_functions', sorted(seen))


def _trans(db, fn, restrict, depth, seen=None):
    """transitive search for a primitive where the `statements` test is evaluated in the function that contains the call"""
    if seen is None:
        seen = set()
    if fn.name in seen:
        return None
    seen.add(fn.name)
    for n in fn.calls():
        if n.get('callee') in PRIMITIVES or is_statement_write(fn, n):
            return [(fn, n)]
    if depth <= 0:
        return None
    for n in fn.calls():
        for t in db.callees(fn, n):
            if restrict(t) and t.name != RESET_DEPENDANTS:
                w = _trans(db, t, restrict, depth - 1, seen)
                if w is not None:
                    return [(fn, n)] + w
    return None


def _entity_containers(rec):
    out = []
    for f in rec['fields']:
        t = f.get('ctype', f['type'])
        if t.startswith(('std::unordered_map<unsigned int', 'std::unordered_set<unsigned int', 'std::map<unsigned int', 'std::set<unsigned int')):
            out.append(f['name'])
    return out


def _reset_complete(db, rule, cls, method, via):
    rec = db.record(cls)
    f = db.fn(cls + '::' + method)
    conts = _entity_containers(rec)
    if cls == STORE and len(conts) < 2:
        rule.broken('InterpretationStorage: expected >= 2 per-constituent containers, found %s' % conts)
        return
    missing = []
    for c in conts:
        found = False
        for n in f.calls():
            if n['k'] == 'CXXMemberCallExpr' and 'obj' in n and (n.get('callee') or '').split('::')[-1] in ('erase', 'clear'):
                root = f.root_of(f.stmts[n['obj']])
                if root[0] in ('this', 'this-field') and root[-1][:1] == (c,):
                    found = True
        if not found:
            # through a same-class helper
            for n in f.calls():
                for t in db.callees(f, n):
                    if t.cls == cls and t.name != f.name:
                        for m in t.calls():
                            if m['k'] == 'CXXMemberCallExpr' and 'obj' in m and (m.get('callee') or '').split('::')[-1] in ('erase', 'clear'):
                                root = t.root_of(t.stmts[m['obj']])
                                if root[0] in ('this', 'this-field') and root[-1][:1] == (c,):
                                    found = True
        if not found:
            missing.append(c)
    if via is not None:
        if not any(n.get('callee') == via for n in f.calls()):
            missing.append('storage (no call to %s)' % via)
    inst = '%s::%s' % (cls.split('::')[-1], method)
    if missing:
        rule.violation(inst, f.file + ':%d' % f.line, '%s does not clear %s for the target: an old value stays visible after a reset' % (inst, ', '.join(missing)))
    else:
        rule.ok(inst, 'clears %s%s' % (', '.join(conts), ' and the storage entry' if via else ''), f.file + ':%d' % f.line)


def _check_reset_body(db, f, rule):
    loops = [n for n in f.walk() if n['k'] == 'CXXForRangeStmt']
    if len(loops) != 1:
        rule.broken('ResetDependants: expected exactly one range-for loop, found %d' % len(loops))
        return
    lp = loops[0]
    rng = f.stmts[lp['range']]
    callees = [c.get('callee') for c in f.calls(rng)]
    if 'ccl::graph::CGraph::ExpandOutputs' in callees and 'ccl::semantic::Schema::Graph' in callees:
        rule.ok('closure', 'iterates Schema::Graph().ExpandOutputs({target})', f.loc(rng))
    else:
        rule.violation('closure', f.loc(rng), 'ResetDependants iterates `%s`; the dependants of a value are the transitive outputs of the target in the schema graph (CGraph::ExpandOutputs on Schema::Graph())' % rng.get('txt', '')[:80])
    # argument of ExpandOutputs must be built from the parameter
    eo = [c for c in f.calls(rng) if c.get('callee') == 'ccl::graph::CGraph::ExpandOutputs']
    if eo:
        params = {p['name'] for p in f.rec['params']}
        used = {n.get('name') for n in f.walk(eo[0]) if n['k'] == 'DeclRefExpr' and n.get('dk') == 'param'}
        if not (params & used):
            rule.violation('closure-arg', f.loc(eo[0]), 'ExpandOutputs is not seeded with the target parameter')
        else:
            rule.ok('closure-arg', 'seeded with the target', f.loc(eo[0]))
    # decision table of the loop body over (dependant == target, CstType)
    # a query of the core about the dependant outside the vocabulary (its parse status, its text, ...) is a runtime quantity: a free boolean,
    # both values are evaluated, and a dependant that is left alone under either one keeps a value computed from the replaced data
    import itertools
    seen = []
    try:
        evalmini.reset_decision_table(db, f, lp, free=({}, seen))
        tables = []
        for bits in itertools.product((True, False), repeat=len(seen)):
            assign = dict(zip(seen, bits))
            tables.append((assign, evalmini.reset_decision_table(db, f, lp, free=(assign, list(seen)))))
        if len(seen) > 6:
            raise evalmini.OutOfFragment('%d free conditions' % len(seen))
    except evalmini.OutOfFragment as e:
        rule.broken('ResetDependants loop body outside the summarised fragment: %s' % e)
        return
    problems = []
    table = tables[0][1]
    for assign, tab in tables:
        _decide_reset_table(tab, problems, ''.join(' [when `%s` is %s]' % (k, str(v).lower()) for k, v in assign.items()))
    if problems:
        rule.violation('decision-table', f.loc(lp), '; '.join(problems[:6]))
    else:
        rule.ok('decision-table', '%d (same?, kind) cases evaluated%s: derived kinds reset value+flag, structures pruned/reset, base sets and the target skipped' % (len(table), ' under %d assignments of %d free conditions' % (len(tables), len(seen)) if seen else ''), f.loc(lp))


def _decide_reset_table(table, problems, suffix):
    for (same, tname), acts in sorted(table.items()):
        acts = set(acts)
        value_reset = (VALUES + '::ResetFor') in acts
        flag_reset = (CALC + '::ResetFor') in acts
        prune = (VALUES + '::PruneStructure') in acts
        if same:
            continue  # the target itself is handled by the caller (r3) — any action is acceptable
        if tname in ('base', 'constant'):
            if value_reset:
                problems.append('%s dependant has its given interpretation reset%s' % (tname, suffix))
            continue
        if tname == 'structured':
            if not (prune or value_reset):
                problems.append('structured dependant is neither pruned nor reset%s' % suffix)
            continue
        if not (value_reset and flag_reset):
            problems.append('%s dependant: value reset=%s, calculated flag reset=%s%s' % (tname, value_reset, flag_reset, suffix))


def _value_sources(db, rep):
    """r9: the two representations of a base set (the interpretants' texts and the set of their identifiers) are written together on every path;
    an element is kept in a structure only if its base set still has that interpretant, whatever the kind of the base (nominal or constant)."""
    from engine.cfgq import paths_avoiding
    from engine.evalmini import Interp, Obj, OutOfFragment, NOT_HANDLED
    from rules import C03
    r9 = rep.rule('r9', 'VALUE-SOURCES: SetTextInterpretationFor rewrites the element set of the base set on every path; CheckBasicElements keeps an element only if its base set (of any kind) has that interpretant', 2)
    IS = 'ccl::semantic::InterpretationStorage'
    f = db.fn(IS + '::SetTextInterpretationFor', required=False)
    if f is None:
        r9.broken('anchor vanished: InterpretationStorage::SetTextInterpretationFor')
    else:
        def writes(member):
            out = []
            for n in f.walk():
                if n['k'] in ('CXXOperatorCallExpr', 'BinaryOperator') and n.get('op') == '=':
                    kids = f.children(n) if n['k'] == 'BinaryOperator' else [f.stmts[a] for a in n.get('args', [])]
                    if kids and any(x['k'] == 'MemberExpr' and x.get('member') == member for x in f.walk(kids[0])):
                        p = f.position_of(n)
                        if p is not None:
                            out.append(p)
            return out
        succ, entry, exit_ = f.graph()
        exits = [(p, '') for p, r in f.return_sites()] + [(exit_, '')]
        problems = []
        for member in ('textData', 'rsData'):
            w = writes(member)
            if not w or paths_avoiding(f, [entry], w, exits):
                problems.append(member)
        if problems:
            r9.violation('SetTextInterpretationFor', '%s:%d' % (f.file, f.line), '%s is not rewritten on every path (e.g. a shortcut when the number of interpretants is unchanged): replacing {1:a,2:b} by {1:a,3:c} leaves the base set {1,2} while its texts say {1,3}' % ' / '.join(problems))
        else:
            r9.ok('SetTextInterpretationFor', 'texts and element set are both rewritten on every path', '%s:%d' % (f.file, f.line))
    VF = 'ccl::semantic::rsValuesFacet'
    g = db.fn(VF + '::CheckBasicElements', required=False)
    if g is None:
        r9.broken('anchor vanished: rsValuesFacet::CheckBasicElements')
        return
    Tm, type_hook = C03.type_hooks(db)
    CST = {e['name']: e['val'] for e in db.enum('ccl::semantic::CstType')['enumerators']}
    ST = {e['name']: e['val'] for e in db.enum('ccl::rslang::StructureType')['enumerators']}
    bad, cases = None, 0
    try:
        for base, kind in (('X1', 'base'), ('C1', 'constant')):
            for value, present in ((1, True), (4, False)):
                for wrap in ('element', 'set', 'tuple'):
                    cases += 1
                    interps = {1, 2, 3}

                    def on_call(it, fn, n, env, kind=kind):
                        cs = n.get('cs') or ''
                        last = cs.split('::')[-1]
                        S = fn.stmts

                        def obj():
                            o = it.eval(fn, S[n['obj']], env) if 'obj' in n else None
                            if isinstance(o, tuple) and len(o) == 2 and o[0] == 'ptr':
                                o = o[1]
                            return o
                        if last == 'FindAlias':
                            return 77
                        if last == 'TextFor':
                            return ('ptr', Obj(__kind__='texts'))
                        if last == 'HasInterpretantFor':
                            return it.eval(fn, S[n['args'][0]], env) in interps
                        if last == 'GetRS':
                            return Obj(type=CST[kind], uid=77)
                        if last == 'Core' or last == 'RSLang':
                            return Obj(__kind__='core')
                        if cs.startswith('ccl::object::') and 'obj' in n:
                            o = obj()
                            if isinstance(o, Obj) and o.get('__kind__') == 'sd':
                                v = o['v']
                                if last == 'Structure':
                                    return ST['basic' if isinstance(v, int) else 'tuple' if isinstance(v, tuple) else 'collection']
                                if last in ('E', 'T'):
                                    return o
                                if last == 'B':
                                    return Obj(__kind__='sd', v=v, elems=[Obj(__kind__='sd', v=x) for x in sorted(v)])
                                if last == 'Value':
                                    return v
                                if last == 'IsEmpty':
                                    return not v
                                if last == 'Arity':
                                    return len(v)
                                if last == 'Component':
                                    return Obj(__kind__='sd', v=v[it.eval(fn, S[n['args'][0]], env) - 1])
                        return type_hook(it, fn, n, env)
                    t = ('e', base)
                    data, typ = value, t
                    if wrap == 'set':
                        data, typ = frozenset({1, value}), ('b', t)
                    elif wrap == 'tuple':
                        data, typ = (1, value), ('t', (t, t))
                    this = Obj(core=Obj(__kind__='model'))
                    res = Interp(db, on_call=on_call, max_steps=50000).call(g, [Obj(__kind__='sd', v=data), Tm(typ)], this)
                    if bool(res) != present and bad is None:
                        bad = 'a %s over the %s set %s containing element %d (interpretants of %s are {1,2,3}) is %s' % (wrap, kind, base, value, base, 'accepted' if res else 'rejected')
    except OutOfFragment as e:
        r9.broken('CheckBasicElements outside the evaluable fragment: %s' % e)
        return
    if bad:
        r9.violation('CheckBasicElements', '%s:%d' % (g.file, g.line), bad + ': structures keep elements their base set no longer has')
    else:
        r9.ok('CheckBasicElements', 'an element is kept exactly when its base set has the interpretant, for nominal and constant bases (%d cases)' % cases, '%s:%d' % (g.file, g.line))


def structure_guard_rule(db, rule, prefixes=('ccl::semantic::',)):
    """STRUCTURE-GUARD: E() / T() / B() of a structured value or typification dereference the matching alternative without a test (a
    mismatch is a null dereference). In the model layer, where data and typification come from different sources and a definition edit can
    change the typification under existing data, every such access must be dominated by a test of the structure of that very object:
    IsElement/IsTuple/IsCollection, a case of switch(x.Structure()), or - for a parallel walk over data and type - a dominating test that
    both structures are equal together with a test of the other one."""
    from engine.shape import Keyer
    from engine.cfgq import dominating_guards
    WANT = {'E': ('basic', 'IsElement'), 'T': ('tuple', 'IsTuple'), 'B': ('collection', 'IsCollection')}
    n_sites = 0
    for f in sorted(db.functions, key=lambda x: x.name):
        if f.body < 0 or f.rec.get('dependent') or not f.name.startswith(prefixes) or not f.has_cfg():
            continue
        K = Keyer(f, resolve_refs=False)
        sites = [n for n in f.calls() if (n.get('callee') or '').startswith(('ccl::rslang::Structured<', 'ccl::object::StructuredData::', 'ccl::rslang::Typification::')) and (n.get('cs') or '').split('::')[-1] in WANT and 'obj' in n]
        if not sites:
            continue

        def okey(n):
            o = f.strip(f.stmts[n['obj']])
            # optional / pointer wrappers around the same object
            while o is not None and o['k'] in ('CXXOperatorCallExpr', 'CXXMemberCallExpr') and ((o.get('cs') or '').startswith('std::optional::') or o.get('op') in ('->', '*')):
                o = f.strip(f.stmts[o['obj']] if 'obj' in o else f.stmts[o['args'][0]])
            return repr(K.key(o)) if o is not None else None

        def struct_obj(e):
            """key of x when e is `x.Structure()`"""
            e = f.strip(e)
            if e is not None and e['k'] == 'CXXMemberCallExpr' and (e.get('cs') or '').endswith('::Structure') and 'obj' in e:
                return okey(e)
            return None
        for n in sites:
            n_sites += 1
            acc = (n.get('cs') or '').split('::')[-1]
            kind, pred = WANT[acc]
            me = okey(n)
            pos = f.position_of(n)
            guards = dominating_guards(f, pos) if pos is not None else []
            known = set()          # objects whose structure is known to be `kind` here
            equal = set()          # pairs of objects with equal structure
            for c, pol in guards:
                for x in f.walk(c):
                    if x['k'] == 'CXXMemberCallExpr' and (x.get('cs') or '').split('::')[-1] == pred and 'obj' in x:
                        # polarity of this atom inside c: accept the plain and the negated-with-early-exit forms
                        neg = any(a['k'] == 'UnaryOperator' and a.get('op') == '!' for a in f.ancestors(x) if a in list(f.walk(c)))
                        if pol != neg:
                            known.add(okey(x))
                    if x['k'] == 'BinaryOperator' and x.get('op') in ('==', '!='):
                        l, r = (struct_obj(y) for y in f.children(x))
                        if l and r and ((x['op'] == '==') == pol):
                            equal.add((l, r))
                            equal.add((r, l))
            for a in f.ancestors(n):
                if a['k'] == 'CaseStmt' and (a.get('enumerator') or '').split('::')[-1] == kind:
                    sw = next((b for b in f.ancestors(a) if b['k'] == 'SwitchStmt'), None)
                    if sw is not None:
                        so = struct_obj(f.stmts[sw['cond']])
                        if so:
                            known.add(so)
            ok = me in known or any((me, y) in equal and y in known for y in list(known))
            inst = '%s:%s@%s' % (f.name.split('::')[-1], (n.get('txt') or acc)[:24], f.loc(n).split(':')[-1])
            if ok:
                rule.ok(inst, 'the structure of the accessed object is tested on every path to the access', f.loc(n), nontrivial=False)
            else:
                rule.violation(inst, f.loc(n), '`%s` dereferences the %s alternative but no dominating test shows that this object is a %s (a test on a different object does not: after a definition edit the stored data and the new typification can have different shapes)' % ((n.get('txt') or acc)[:40], kind, kind))
    return n_sites


def _values_total(db, rule):
    """Every std::optional access (value(), *, ->) in a method of rsValuesFacet is dominated by has_value() of the same object. The validation
    of stored data (CheckBasicElements) runs inside ResetDependants; an exception there leaves the definition changed, the structure with its
    old data under the new typification, and the dependants visited later with their old values."""
    from engine.cfgq import guard_atoms
    VF = 'ccl::semantic::rsValuesFacet'
    fs = [f for f in db.functions if f.body >= 0 and f.has_cfg() and (f.name.startswith(VF + '::'))]
    if not fs:
        rule.broken('anchor vanished: rsValuesFacet has no analysable method')
        return
    n_sites = 0
    for f in sorted(fs, key=lambda x: x.name):
        for n in f.calls():
            if n.get('cs') not in ('std::optional::value', 'std::optional::operator*', 'std::optional::operator->'):
                continue
            o = f.stmts[n['obj']] if 'obj' in n else (f.stmts[n['args'][0]] if n.get('args') else None)
            if o is None:
                continue
            n_sites += 1
            root = f.root_of(o)
            pos = f.position_of(n)
            atoms = guard_atoms(f, pos) if pos else []
            inst = '%s:%s' % (f.name.split('::')[-1], (o.get('txt') or '')[:50].replace(' ', ''))
            if root is not None and any(a[0] == 'has_value' and a[1] == root and a[2] for a in atoms):
                rule.ok(inst, 'dominated by has_value() on the same object', f.loc(n))
            else:
                rule.violation(inst, f.loc(n), '`%s` is read without a has_value() test of the same object: for a typification whose base is not a constituent (the empty set literal has type ℬ(R0)) '
                               'the lookup is empty and std::bad_optional_access leaves SetExpressionFor in the middle of ResetDependants - the structure keeps its data under the new type and the dependants visited later keep their old values' % (n.get('txt') or '')[:90])
    if not n_sites:
        rule.broken('rsValuesFacet reads no optional: the rule has lost its sites')
