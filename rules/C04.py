"""C04 — analysis of arbitrary input is total, memory-safe and reports failure faithfully.

 r1 PARSE-FAITHFUL  RSParser::Parse / yylex / ParserState::OnError evaluated over all (bison result, critical-error count) states: success iff the grammar
                    accepted and no critical error was counted; a failure without a counted error logs the generic syntax error.
 r2 LOUD            every refusing return of the auditors logs an error or propagates a loud callee (C03 r1); every aborting parser action and every
                    refusing parser helper reports a ParseEID first.
 r3 TREE-SAFETY     child accesses of all visitors inside the node for every tree of the grammar; dispatch exhaustive; Parent() not read at a root (C02 r1,r2,r5).
 r4 NO-ESCAPE       every throwing accessor (optional::value, std::get, at, stoi, substr) in the analysis code is dominated by the test that makes it
                    safe, sits in a try block, or is decided by another rule (variant reads in the checker: C02 r3).
 r5 LEXER-TOTAL     both lexers have a catch-all rule that yields INTERRUPT and reports unknownSymbol; every byte is consumed by some transition.
 r7 DUMP-SAFE       results echoing the analysed text are serialised with a non-throwing UTF-8 error handler (json dump is strict by default).
 r6 OWN-LOG         an auditor that analyses another text (the body of a called function) never reports into the caller's log.
Not decided: termination bounds, absence of stack overflow on adversarial nesting, JSON library behaviour.
"""
import os
from engine.cfgq import call_sites, dominating_guards, normalise_cond, guard_atoms, paths_avoiding
from engine.evalmini import Interp, Obj, OutOfFragment, NOT_HANDLED, enum_values
from engine.shape import Keyer
from engine.facts import AnalysisBroken

UNITS = None
R = 'ccl::rslang::'
FILES = ('ccl/rslang/src/Parser.cpp', 'ccl/rslang/src/RSParser.cpp', 'ccl/rslang/src/RSParserImpl.cpp', 'ccl/rslang/header/MathLexerImpl.hpp', 'ccl/rslang/header/AsciiLexerImpl.hpp',
         'ccl/rslang/include/ccl/rslang/LexerBase.hpp', 'ccl/rslang/src/RSToken.cpp', 'ccl/rslang/src/TypeAuditor.cpp', 'ccl/rslang/src/ValueAuditor.cpp', 'ccl/rslang/src/RSGenerator.cpp',
         'ccl/rslang/src/GeneratorImplAST.cpp', 'ccl/rslang/src/ErrorLogger.cpp', 'ccl/core/src/api/RSFormJA.cpp', 'ccl/core/src/JSON.cpp', 'ccl/cclLang/src/Reference.cpp', 'pyconcept/src/pyconcept.cpp',
         'ccl/rslang/src/Auditor.cpp', 'ccl/rslang/src/SyntaxTree.cpp', 'ccl/rslang/src/MathLexer.cpp', 'ccl/rslang/src/AsciiLexer.cpp', 'ccl/core/src/semantic/schema/SchemaAuditor.cpp', 'ccl/rslang/src/Literals.cpp',
         'ccl/rslang/include/ccl/rslang/SyntaxTree.h', 'ccl/rslang/include/ccl/rslang/RSToken.h', 'ccl/rslang/include/ccl/rslang/ErrorLogger.h')
THROWERS = ('::at', '::value', 'std::get', 'std::stoi', 'std::stol', 'std::stoul', 'std::stoll', 'std::stod', '::substr')


def _justify(db, f, n, K):
    """reason string if the throwing call n is made safe by the surrounding code, else None"""
    cs = n.get('cs') or ''
    last = cs.split('::')[-1]
    pos = f.position_of(n)
    atoms = guard_atoms(f, pos) if pos is not None else []
    if any(a['k'] == 'CXXTryStmt' for a in f.ancestors(n)):
        return 'inside a try block'
    obj = f.stmts[n['obj']] if 'obj' in n else (f.stmts[n['args'][0]] if n.get('args') else None)
    root = f.root_of(obj) if obj is not None else None
    key = K.key(obj) if obj is not None else None

    def short_circuit(pred):
        """the call is the right operand of && / || whose left operand establishes pred"""
        for a in f.ancestors(n):
            if a['k'] == 'BinaryOperator' and a.get('op') in ('&&', '||'):
                l = f.children(a)[0]
                if any(y is n for y in f.walk(l)):
                    continue
                for x in f.walk(l):
                    r = pred(x)
                    if r is not None:
                        neg = any(u['k'] == 'UnaryOperator' and u.get('op') == '!' and any(v is x for v in f.walk(u)) for u in f.walk(l))
                        if (a['op'] == '&&') == (r != neg):
                            return True
            if a['k'] == 'ConditionalOperator':
                c = f.stmts[a['cond']]
                for x in f.walk(c):
                    r = pred(x)
                    if r is not None:
                        neg = any(u['k'] == 'UnaryOperator' and u.get('op') == '!' and any(v is x for v in f.walk(u)) for u in f.walk(c))
                        branch = f.stmts[a['then']] if (r != neg) else f.stmts[a['else']]
                        if any(y is n for y in f.walk(branch)):
                            return True
        return False
    if last == 'value' and 'optional' in cs:
        if any(k == 'has_value' and r == root and pol for k, r, pol, _ in atoms):
            return 'dominated by has_value()'

        def pred(x):
            if x['k'] == 'CXXMemberCallExpr' and (x.get('cs') or '').split('::')[-1] in ('has_value', 'operator bool') and 'obj' in x and f.root_of(f.stmts[x['obj']]) == root:
                return True
            return None
        if short_circuit(pred):
            return 'short-circuit after has_value()'
        # optional initialised with a value in this function
        o = f.strip(obj)
        return None
    if cs == 'std::get':
        want = ','.join(n.get('targs', []))
        for k, r, pol, node in atoms:
            if k.startswith('holds:') and r == root:
                same = k[len('holds:'):] == want
                if same and pol:
                    return 'dominated by holds_alternative'
                if not same and not pol and len(_variant_alts(f, obj)) == 2:
                    return 'the other alternative of a two-way variant was excluded'

        def pred(x):
            if x['k'] == 'CallExpr' and x.get('cs') == 'std::holds_alternative' and x.get('args') and f.root_of(f.stmts[x['args'][0]]) == root:
                return ','.join(x.get('targs', [])) == want
            return None
        if short_circuit(pred):
            return 'short-circuit after holds_alternative'
        # pair/tuple/array get<N> never throws
        if want.isdigit():
            return 'index get<N> of a pair/tuple'
        if f.cls == 'ccl::lang::Reference':
            short = f.name.split('::')[-1]
            alt = 'entity' if 'EntityRef' in (n.get('targs') or [''])[0] else 'collaboration'
            if short in CONTRACT and CONTRACT[short] == {'entity': 'IsEntity', 'collaboration': 'IsCollaboration'}[alt]:
                return 'contract accessor: every call site establishes %s() (see contract:%s)' % (CONTRACT[short], short)
            for a in f.ancestors(n):
                if a['k'] == 'CaseStmt' and (a.get('enumerator') or '').split('::')[-1] == alt:
                    sw = [b for b in f.ancestors(n) if b['k'] == 'SwitchStmt']
                    if sw and f.strip(f.stmts[sw[0]['cond']]).get('member') == 'type':
                        return 'under case %s of switch (type); type and data are set together (see invariant:Reference)' % alt
        return None
    if last == 'at':
        ot = (obj.get('t', '') if obj else '') + ' ' + (f.strip(obj).get('t', '') if obj else '')
        idx = f.stmts[n['args'][0]] if 'obj' in n and n.get('args') else None
        if 'map' in ot or 'map::' in cs:
            for k, r, pol, node in atoms:
                if k == 'contains' and r[0] == root and pol:
                    return 'dominated by contains()'
            return None
        if idx is not None and pos is not None:
            k_idx = _const(f, idx)
            if k_idx is not None and 0 <= k_idx < _min_size(f, pos, key, K):
                return 'index %d below the size the dominating guards establish' % k_idx
            if k_idx is not None:
                lo, g = _summary_min_size(db, f, n, key, K)
                if 0 <= k_idx < lo:
                    return 'index %d below the size %s guarantees for this case label' % (k_idx, g.name.split('::')[-1])

            def pred(x):
                if x['k'] in ('CallExpr', 'CXXMemberCallExpr') and (x.get('cs') or '').split('::')[-1] == 'empty':
                    o = f.stmts[x['obj']] if 'obj' in x else (f.stmts[x['args'][0]] if x.get('args') else None)
                    if o is not None and K.key(o) == key:
                        return False     # empty() must be false
                return None
            if k_idx == 0 and short_circuit(pred):
                return 'short-circuit after !empty()'
        if idx is not None:
            it = f.strip(idx)
            # constant index into std::array / static table of known size, cast of unsigned char into a 256-table
            if 'array' in ot:
                m = __import__('re').search(r'array<[^,]+,\s*(\d+)', ot)
                size = int(m.group(1)) if m else None
                if size is not None:
                    if it['k'] == 'IntegerLiteral' and int(it.get('cv', it.get('txt', '0')) or 0) < size:
                        return 'constant index below the array size'
                    if size == 256 and 'unsigned char' in idx.get('txt', '') + it.get('t', ''):
                        return 'unsigned char index into a 256-entry table'
            for a in f.ancestors(n):
                if a['k'] in ('ForStmt',) and 'cond' in a:
                    c = f.stmts[a['cond']]
                    ct = c.get('txt', '')
                    if any(x['k'] == 'DeclRefExpr' and x.get('did') in {y.get('did') for y in f.walk(c) if y['k'] == 'DeclRefExpr'} for x in f.walk(idx)) and ('size' in ct or 'ssize' in ct or 'Count' in ct):
                        return 'loop index bounded by the size in the loop condition'
        return None
    if last == 'substr' and n.get('args') and pos is not None:
        k0 = _const(f, f.stmts[n['args'][0]])
        if k0 is not None and k0 <= _min_size(f, pos, key, K):
            return 'start %d not beyond the size the dominating guards establish' % k0
        if k0 == 0:
            return 'substr(0, n) never throws'
    if last in ('stoi', 'stol', 'stoul', 'stoll'):
        j = _stoi_bounded(db, f, n)
        if j is None and 'LexerBase' in f.name:
            # the lexer base converts a number only for tokens its own range test let through; whether that holds for every literal
            # (also one of twenty digits) is decided by interpreting the token stream (C06 r9), not by a local guard
            from rules import C06

            class _Probe:
                def __init__(self):
                    self.bad = []
                    self.broken_reason = None

                def ok(self, *a, **k):
                    pass

                def violation(self, inst, where, detail, path=None):
                    self.bad.append(detail)

                def broken(self, reason):
                    self.broken_reason = reason
            pr = _Probe()
            C06.token_data_rule(db, pr)
            if not pr.bad and not pr.broken_reason:
                return 'reached only for numbers the token stream\'s range test accepted (token stream interpreted on in-range, out-of-range and over-long literals, C06 r9)'
        return j
    return None


def _discriminant(db, f, n):
    """(callee g, set of enumerator labels) when n executes only if a local initialised by g(...) equals one of the labels:
    inside `case L:` of `switch (r)` or under a dominating `r == L` test (both forms of the same idiom)"""
    def init_of(ref):
        for s0 in f.rec['stmts']:
            if s0['k'] == 'DeclStmt':
                for d in s0.get('decls', []):
                    if d.get('did') == ref.get('did') and 'init' in d:
                        return f.strip(f.stmts[d['init']])
        return None
    cases = [a for a in f.ancestors(n) if a['k'] == 'CaseStmt']
    sws = [a for a in f.ancestors(n) if a['k'] == 'SwitchStmt']
    if cases and sws:
        cond = f.strip(f.stmts[sws[0]['cond']])
        if cond['k'] == 'DeclRefExpr':
            init = init_of(cond)
            if init is not None and init['k'] == 'CallExpr':
                return init, {(c.get('enumerator') or '').split('::')[-1] for c in cases}
    pos = f.position_of(n)
    for c, pol in (dominating_guards(f, pos) if pos is not None else []):
        c2 = f.strip(c)
        while c2 is not None and c2['k'] == 'BinaryOperator' and c2.get('op') in ('&&', '||'):
            c2 = f.strip(f.children(c2)[-1])
        c2, pol2 = normalise_cond(f, c2, pol)
        if c2 is not None and c2['k'] == 'BinaryOperator' and c2.get('op') in ('==', '!=') and (c2['op'] == '==') == pol2:
            kids = [f.strip(x) for x in f.children(c2)]
            en = [x for x in kids if x.get('dk') == 'enumerator']
            ref = [x for x in kids if x['k'] == 'DeclRefExpr' and x.get('dk') == 'local']
            if len(en) == 1 and len(ref) == 1:
                init = init_of(ref[0])
                if init is not None and init['k'] == 'CallExpr':
                    return init, {en[0].get('name')}
    return None, set()


def _summary_min_size(db, f, n, key, K):
    """`switch (r)` / `if (r == E)` with r = g(x): where r is E the facts that dominate g's `return E` hold for x"""
    init, labels = _discriminant(db, f, n)
    if init is None:
        return 0, None
    g = db.by_mn.get(init.get('mn') or '')
    if g is None or not g.has_cfg():
        return 0, None
    argi = [i for i, a in enumerate(init.get('args', [])) if K.key(f.stmts[a]) == key]
    if not argi:
        return 0, None
    par = g.rec['params'][argi[0]]
    Kg = Keyer(g)
    los = []
    for p, r in g.return_sites():
        v = g.strip(g.stmts[r['value']]) if 'value' in r else None
        if v is not None and v.get('dk') == 'enumerator' and v.get('name') in labels:
            pk = None
            for x in g.walk():
                if x['k'] == 'DeclRefExpr' and x.get('did') == par['did']:
                    pk = Kg.key(x)
                    break
            los.append(_min_size(g, p, pk, Kg) if pk is not None else 0)
    return (min(los) if los else 0), g


def _stoi_bounded(db, f, n):
    """std::stoi(text) is safe when text is known to be an optionally signed digit string of bounded length: the discriminating function
    returned the case label only under IsInteger(text) and size(text) <= a constant below 10"""
    init, labels = _discriminant(db, f, n)
    if init is None:
        return None
    g = db.by_mn.get(init.get('mn') or '')
    if g is None:
        return None
    for p, r in g.return_sites():
        v = g.strip(g.stmts[r['value']]) if 'value' in r else None
        if v is not None and v.get('dk') == 'enumerator' and v.get('name') in labels:
            txt = ' && '.join(('' if pol else '!') + c.get('txt', '') for c, pol in dominating_guards(g, p))
            has_int = any('IsInteger' in c.get('txt', '') and pol for c, pol in dominating_guards(g, p))
            bound = None
            for c, pol in dominating_guards(g, p):
                for x in g.walk(c):
                    if x['k'] == 'BinaryOperator' and x.get('op') == '<=' and 'size' in x.get('txt', ''):
                        b = _const(g, g.children(x)[1])
                        if b is not None and pol:
                            bound = b
            if not (has_int and bound is not None and bound <= 9):
                return None
            return 'the token was classified by %s only under IsInteger() and size <= %d: stoi cannot overflow or reject it' % (g.name.split('::')[-1], bound)
    return None


def _nonempty(db, f, n, K):
    """*begin(x) / x.front() / x.back() / x.top() / x.pop*(): some dominating test shows x non-empty"""
    if n['k'] == 'CXXMemberCallExpr':
        obj = f.stmts[n['obj']]
    else:
        kids = f.children(n) if n['k'] == 'UnaryOperator' else [f.stmts[a] for a in n.get('args', [])]
        b = f.strip(kids[0])
        obj = f.stmts[b['obj']] if 'obj' in b else (f.stmts[b['args'][0]] if b.get('args') else None)
    if obj is None:
        return None
    key = K.key(obj)
    pos = f.position_of(n)
    if pos is not None and _min_size(f, pos, key, K) >= 1:
        return 'non-empty by a dominating size/empty test'
    # loop `while (!x.empty())` whose body pops: the access sits in the body before any other pop of the same container
    for a in f.ancestors(n):
        if a['k'] in ('WhileStmt', 'ForStmt') and 'cond' in a:
            c = f.stmts[a['cond']]
            for x in f.walk(c):
                if x['k'] in ('CallExpr', 'CXXMemberCallExpr') and (x.get('cs') or '').split('::')[-1] == 'empty':
                    o = f.stmts[x['obj']] if 'obj' in x else (f.stmts[x['args'][0]] if x.get('args') else None)
                    if o is not None and K.key(o) == key and any(u['k'] == 'UnaryOperator' and u.get('op') == '!' for u in f.walk(c)):
                        pops = [m for m in f.walk(f.stmts[a['body']]) if m['k'] == 'CXXMemberCallExpr' and (m.get('cs') or '').split('::')[-1] in ('pop_back', 'pop') and 'obj' in m and K.key(f.stmts[m['obj']]) == key]
                        earlier = [m for m in pops if (m.get('line', 0), m.get('col', 0)) < (n.get('line', 0), n.get('col', 0)) and m is not n]
                        if not earlier:
                            return 'inside `while (!%s.empty())`, before any pop of it' % obj.get('txt', '')[:20]
    # parallel stacks: `parents` is pushed and popped together with `stack`
    ls = _lockstep(f, n, obj, K)
    if ls:
        return ls
    return PARALLEL.get((f.name.split('::')[-1], obj.get('txt', '')))


def _lockstep(f, n, obj, K):
    """x.back() / x.pop_back() inside `while (!y.empty())`: x and y are local vectors created with the same number of elements, popped once each
    at the top level of the loop body, and pushed only side by side (every block that pushes to one pushes as often to the other)."""
    key = K.key(obj)
    loop = next((a for a in f.ancestors(n) if a['k'] in ('WhileStmt', 'ForStmt') and 'cond' in a and 'body' in a), None)
    if loop is None:
        return None
    ykey, yobj = None, None
    for x in f.walk(f.stmts[loop['cond']]):
        if x['k'] in ('CallExpr', 'CXXMemberCallExpr') and (x.get('cs') or '').split('::')[-1] == 'empty':
            o = f.stmts[x['obj']] if 'obj' in x else (f.stmts[x['args'][0]] if x.get('args') else None)
            if o is not None and any(u['k'] == 'UnaryOperator' and u.get('op') == '!' for u in f.walk(f.stmts[loop['cond']])):
                ykey, yobj = K.key(o), o
    if ykey is None or ykey == key:
        return None

    def decl_len(o):
        o = f.strip(o)
        if o is None or o['k'] != 'DeclRefExpr' or o.get('dk') != 'local':
            return None
        for s0 in f.rec['stmts']:
            if s0['k'] == 'DeclStmt':
                for d in s0.get('decls', []):
                    if d.get('did') == o.get('did') and 'init' in d and 'vector' in (d.get('type') or ''):
                        init = f.strip(f.stmts[d['init']])
                        il = [x for x in f.walk(init) if x['k'] == 'InitListExpr'] if init is not None else []
                        if il:
                            return len(il[0].get('c', []))
                        if init is not None and init['k'] in ('CXXConstructExpr', 'CXXTemporaryObjectExpr') and not init.get('args'):
                            return 0
        return None
    lx, ly = decl_len(obj), decl_len(yobj)
    if lx is None or lx != ly:
        return None
    body = f.stmts[loop['body']]

    def ops(k_, names, root):
        return [m for m in f.walk(root) if m['k'] == 'CXXMemberCallExpr' and (m.get('cs') or '').split('::')[-1] in names and 'obj' in m and K.key(f.stmts[m['obj']]) == k_]
    top = set(body.get('c', []))

    def top_level(m):
        # the statement of the body that contains m must not be a conditional or a nested loop
        for a in f.ancestors(m):
            if a['id'] in top:
                return a['k'] not in ('IfStmt', 'WhileStmt', 'ForStmt', 'CXXForRangeStmt', 'SwitchStmt', 'DoStmt')
        return m['id'] in top
    px, py = ops(key, ('pop_back',), body), ops(ykey, ('pop_back',), body)
    if len(px) != 1 or len(py) != 1 or not top_level(px[0]) or not top_level(py[0]):
        return None
    for blk in [b for b in f.walk(body) if b['k'] == 'CompoundStmt']:
        own = lambda k_: [m for m in ops(k_, ('push_back', 'emplace_back'), blk) if next((a for a in f.ancestors(m) if a['k'] == 'CompoundStmt'), None) is blk]
        if len(own(key)) != len(own(ykey)):
            return None
    # nothing else changes the two outside the loop body
    outside = [m for k_ in (key, ykey) for m in ops(k_, ('push_back', 'emplace_back', 'pop_back', 'clear', 'erase', 'insert', 'resize'), f.stmts[f.body]) if not any(a is body for a in f.ancestors(m))]
    if outside:
        return None
    return '`%s` is created, popped and pushed in lock-step with `%s`, which the loop condition shows non-empty' % (obj.get('txt', '')[:20], yobj.get('txt', '')[:20])


_RFE = {}


def _reference_fields_exist(db):
    """ExtractMorpho reads the last field of a reference. It is called by Reference::Parse only for what DeduceRefType classified as an entity
    reference, which has at least EntityRef::fieldCount fields; the branch that reads the last of the remaining fields is entered with more.
    Decided by interpreting Reference::Parse (SplitReference, DeduceRefType, ExtractMorpho from their source) on every marker of up to four
    fields over a few field texts, the empty one included: no element of an empty or too short sequence is read (the interpreter reports any
    such read)."""
    if 'v' in _RFE:
        return _RFE['v']
    import itertools
    LL = 'ccl::lang::'
    ps = db.fn(LL + 'Reference::Parse', required=False)
    why = None
    if ps is not None:
        def on_call(it, fn, n, env):
            cs = n.get('cs') or ''
            if n['k'] in ('CXXConstructExpr', 'CXXTemporaryObjectExpr') and (n.get('cls') or '') == LL + 'Morphology' and len(n.get('args', [])) == 1 and not n.get('copyctor') and not n.get('movector'):
                a = it.eval(fn, fn.stmts[n['args'][0]], env)
                return Obj(__cls__=LL + 'Morphology', n=len(a) if isinstance(a, list) else len(bytes(a)))
            if cs == 'std::empty' and n.get('args'):
                o = it.eval(fn, fn.stmts[n['args'][0]], env)
                if isinstance(o, Obj) and o.get('__cls__') == LL + 'Morphology':
                    return o['n'] == 0
            if cs == 'std::stoi' and n.get('args'):
                t_ = bytes(it.eval(fn, fn.stmts[n['args'][0]], env)).decode('ascii', 'replace')
                try:
                    return int(t_)
                except ValueError:
                    raise OutOfFragment('std::stoi("%s") throws' % t_)
            if cs == '__assert_fail':
                return None
            return NOT_HANDLED
        fields = ['', 'X1', '1', 'nomn', '-']
        cases = 0
        try:
            for k in range(0, 5):
                for combo in itertools.product(fields, repeat=k):
                    Interp(db, on_call=on_call, max_steps=400000).call(ps, [('@{' + '|'.join(combo) + '}').encode()])
                    cases += 1
            why = 'Reference::Parse interpreted on %d markers of up to four fields (empty fields included): the last field exists whenever it is read' % cases
        except OutOfFragment:
            why = None
    _RFE['v'] = why
    return why


PARALLEL = {
    ('SemanticCheck', 'parents'): '`parents` is pushed and popped in lock-step with `stack`, which the loop condition shows non-empty',
    ('ProcessTupleDeclaration', 'pathStack'): '`pathStack` is pushed and popped in lock-step with `nodeStack`, which the loop condition shows non-empty',
}


def _const(f, n):
    n = f.strip(n)
    if n is None:
        return None
    for k in ('cv', 'val'):
        if k in n:
            try:
                return int(n[k])
            except (TypeError, ValueError):
                pass
    if n['k'] == 'IntegerLiteral':
        try:
            return int(n.get('txt', ''), 0)
        except ValueError:
            return None
    if n['k'] == 'BinaryOperator' and n.get('op') in ('+', '-'):
        a, b = (_const(f, x) for x in f.children(n))
        if a is not None and b is not None:
            return a + b if n['op'] == '+' else a - b
    if n['k'] in ('CXXStaticCastExpr', 'CStyleCastExpr', 'CXXFunctionalCastExpr') and n.get('c'):
        return _const(f, f.stmts[n['c'][0]])
    return None


def _size_of(f, n, K):
    """if n is size(x) / x.size() / x.length() / ssize(x): the structural key of x"""
    n = f.strip(n)
    if n is None:
        return None
    cs = n.get('cs') or ''
    if n['k'] == 'CallExpr' and cs in ('std::size', 'std::ssize') and n.get('args'):
        return K.key(f.stmts[n['args'][0]])
    if n['k'] == 'CXXMemberCallExpr' and cs.split('::')[-1] in ('size', 'length') and 'obj' in n:
        return K.key(f.stmts[n['obj']])
    if n['k'] in ('CXXStaticCastExpr', 'CStyleCastExpr', 'CXXFunctionalCastExpr', 'ImplicitCastExpr') and n.get('c'):
        return _size_of(f, f.stmts[n['c'][0]], K)
    return None


def _min_size(f, pos, key, K):
    """greatest lower bound on the size of the container with structural key `key` implied by the guards dominating pos"""
    lo = 0
    work = list(dominating_guards(f, pos))
    while work:
        c, pol = work.pop()
        c = f.strip(c)
        c, pol = normalise_cond(f, c, pol)
        if c is None:
            continue
        if c['k'] == 'BinaryOperator' and ((c.get('op') == '||' and not pol) or (c.get('op') == '&&' and pol)):
            work += [(x, pol) for x in f.children(c)]
            continue
        if c['k'] == 'BinaryOperator' and c.get('op') in ('||', '&&'):
            # the block that evaluates the last operand carries the whole expression: its own value is the last operand's
            work.append((f.children(c)[-1], pol))
            continue
        if c['k'] in ('CallExpr', 'CXXMemberCallExpr') and (c.get('cs') or '').split('::')[-1] == 'empty':
            o = f.stmts[c['obj']] if 'obj' in c else (f.stmts[c['args'][0]] if c.get('args') else None)
            if o is not None and K.key(o) == key and not pol:
                lo = max(lo, 1)
            continue
        if c['k'] == 'BinaryOperator' and c.get('op') in ('<', '<=', '>', '>=', '==', '!='):
            a, b = f.children(c)
            op = c['op']
            if _size_of(f, b, K) == key and _const(f, a) is not None:
                a, b = b, a
                op = {'<': '>', '>': '<', '<=': '>=', '>=': '<=', '==': '==', '!=': '!='}[op]
            if _size_of(f, a, K) == key and _const(f, b) is not None:
                v = _const(f, b)
                if not pol:
                    op = {'<': '>=', '>': '<=', '<=': '>', '>=': '<', '==': '!=', '!=': '=='}[op]
                if op == '>=':
                    lo = max(lo, v)
                elif op == '>':
                    lo = max(lo, v + 1)
                elif op == '==':
                    lo = max(lo, v)
                elif op == '!=' and v == 0:
                    lo = max(lo, 1)
    return lo


def _variant_alts(f, obj):
    t = (obj.get('t', '') if obj else '')
    return ['?', '?'] if 'ExpressionType' in t or t.count(',') == 1 else []


ENTRY_POINTS = ['CheckSchema', 'ResetAliases', 'ConvertToASCII', 'ConvertToMath', 'ParseExpression', 'CheckExpression', 'CheckConstituenta',
                'ccl::lang::Reference::Parse', 'ccl::lang::Reference::ExtractAll', 'ccl::lang::RefsManager::Resolve', 'ccl::lang::RefsManager::Insert', 'ccl::lang::RefsManager::EraseIn',
                R + 'Parser::Parse', R + 'Auditor::CheckType', R + 'Auditor::CheckValue', R + 'Interpreter::Evaluate', 'ccl::api::ParseExpression', R + 'ConvertTo',
                'ccl::api::RSFormJA::FromJSON', 'ccl::api::RSFormJA::CheckExpression', 'ccl::api::RSFormJA::CheckConstituenta', 'ccl::api::RSFormJA::ToJSON']


def reachable(db):
    """functions reachable from the analysis entry points: resolved callees, overriders of virtual calls, lambdas defined on the way,
    constructors/destructors and default member initialisers of objects created"""
    work = []
    missing = []
    for e in ENTRY_POINTS:
        c = db.fns(e) if hasattr(db, 'fns') else []
        c = [f for f in c if not f.rec.get('dependent')]
        if not c:
            missing.append(e)
        work += c
    seen = {}
    while work:
        f = work.pop()
        if f.mn in seen or (not f.mn and id(f) in seen):
            continue
        seen[f.mn or id(f)] = f
        for n in f.calls():
            for t in db.callees(f, n):
                if (t.mn or id(t)) not in seen:
                    work.append(t)
        for l in db.lambdas_in(f):
            if (l.mn or id(l)) not in seen:
                work.append(l)
    return seen, missing


def no_escape(db, rule, rep):
    reach, missing = reachable(db)
    if missing:
        rule.broken('entry points not found: %s' % missing)
    rep.note('entry_points', len(ENTRY_POINTS))
    rep.note('reachable_functions', len(reach))
    n_sites = 0
    by_reason = {}
    seen = {}
    for f in db.functions:
        if f.file not in FILES or not f.has_cfg() or f.rec.get('dependent'):
            continue
        if (f.mn or id(f)) not in reach:
            continue
        K = Keyer(f)
        for n in sorted(f.walk(), key=lambda x: (x.get('line', 0), x.get('col', 0))):
            kind = None
            cs = n.get('cs') or ''
            if n['k'] == 'CXXThrowExpr':
                kind = 'throw'
            elif n['k'] in ('CXXMemberCallExpr', 'CallExpr', 'CXXOperatorCallExpr') and cs.startswith('std::'):
                for t in THROWERS:
                    if cs.endswith(t):
                        kind = t
            if not kind and n['k'] in ('UnaryOperator', 'CXXOperatorCallExpr') and n.get('op') == '*':
                kids = f.children(n) if n['k'] == 'UnaryOperator' else [f.stmts[a] for a in n.get('args', [])]
                k0 = f.strip(kids[0]) if kids else None
                c0 = (k0 or {}).get('cs') or ''
                if c0 in ('std::begin', 'std::rbegin', 'std::cbegin') or (c0.startswith('std::') and c0.split('::')[-1] in ('begin', 'rbegin', 'cbegin')):
                    kind = 'deref-begin'
            if not kind and n['k'] == 'CXXMemberCallExpr' and cs.startswith('std::') and cs.split('::')[-1] in ('front', 'back', 'top', 'pop_back', 'pop'):
                kind = 'deref-' + cs.split('::')[-1]
            if not kind:
                continue
            if any(a['k'] == 'LambdaExpr' for a in f.ancestors(n)):
                continue          # analysed in the lambda's own function
            n_sites += 1
            inst = '%s:%s' % (f.name.replace('ccl::', ''), n.get('txt', '')[:34])
            seen[inst] = seen.get(inst, 0) + 1
            if seen[inst] > 1:
                inst += '#%d' % seen[inst]
            if kind == 'throw':
                why = 'inside a try block' if any(a['k'] == 'CXXTryStmt' for a in f.ancestors(n)) else None
            elif kind.startswith('deref-'):
                why = _nonempty(db, f, n, K)
            else:
                why = _justify(db, f, n, K)
            if why is None and f.file.endswith('TypeAuditor.cpp') and cs == 'std::get' and 'Typification' in ','.join(n.get('targs', [])):
                why = 'variant read decided by C02 r3 (type tags over the tree grammar)'
            if why is None and 'children.at(0)' in n.get('txt', '') and f.name.split('::')[-1] in ('RemoveBrackets', 'CreateNodeRecursive'):
                pls = _pl_nodes_have_a_child(db)
                if pls and all(ok for _, ok in pls) and any(c.get('txt', '').count('PUNC_PL') for c, pol in (dominating_guards(f, f.position_of(n)) if f.position_of(n) else [])):
                    why = 'a PUNC_PL node: created only in %s, which attaches the operand' % '/'.join(sorted({a for a, _ in pls}))
            if why is None and f.name.endswith('::ExtractMorpho') and kind.startswith('deref-'):
                why = _reference_fields_exist(db)
            if why is None:
                why = DECIDED_ELSEWHERE.get(inst)
            if why:
                by_reason[why.split(' (')[0]] = by_reason.get(why.split(' (')[0], 0) + 1
                rule.ok(inst, why, f.loc(n), nontrivial=not why.startswith('variant read'))
            else:
                rule.violation(inst, f.loc(n), ('`%s` can throw (%s) and no dominating test, short-circuit or try block makes it safe: the exception escapes the analysis entry point' if not kind.startswith('deref-') else '`%s` reads an element of a container (%s) that no dominating test shows to be non-empty: undefined behaviour on an empty one') % (n.get('txt', '')[:50], kind))
    # supporting invariants
    pl = _pl_nodes_have_a_child(db)
    for inst0 in ('rslang::detail::RemoveBrackets:inner->children.at(0)', 'rslang::detail::CreateNodeRecursive:astNode.children.at(0)'):
        pass
    why = _index_sequences_nonempty(db)
    if why:
        rule.violation('invariant:FromIndexSequence', 'ccl/rslang/src/RSToken.cpp', why)
    else:
        rule.ok('invariant:FromIndexSequence', 'one index per number of the lexeme, for every lexeme of the index pattern up to 5 characters')
    inv = _reference_invariant(db)
    if inv:
        rule.violation('invariant:Reference', 'ccl/cclLang/include/ccl/lang/Reference.h', inv)
    else:
        rule.ok('invariant:Reference', 'constructors pair type with data; no other writer')
    for acc, pred in sorted(CONTRACT.items()):
        sites = 0
        bad = None
        for g in db.functions:
            if not g.has_cfg() or not g.file or '/test/' in g.file or g.cls == 'ccl::lang::Reference':
                continue
            Kg = Keyer(g)
            for c in g.calls():
                if (c.get('cs') or '') != 'ccl::lang::Reference::' + acc or 'obj' not in c:
                    continue
                sites += 1
                okey = Kg.key(g.stmts[c['obj']])
                pos = g.position_of(c)
                good = False
                facts = list(dominating_guards(g, pos)) if pos is not None else []
                for a in g.ancestors(c):     # short-circuit  x.IsEntity() && x.TranslateEntity(..)
                    if a['k'] == 'BinaryOperator' and a.get('op') == '&&' and not any(y is c for y in g.walk(g.children(a)[0])):
                        facts.append((g.children(a)[0], True))
                for cnd, pol in facts:
                    c2 = g.strip(cnd)
                    while c2 is not None and c2['k'] == 'BinaryOperator' and c2.get('op') in ('&&', '||'):
                        c2 = g.strip(g.children(c2)[-1])
                    c2, pol2 = normalise_cond(g, c2, pol)
                    if c2 is not None and c2['k'] == 'CXXMemberCallExpr' and 'obj' in c2 and Kg.key(g.stmts[c2['obj']]) == okey:
                        p = (c2.get('cs') or '').split('::')[-1]
                        if p == pred and pol2:
                            good = True
                        if pred == 'IsCollaboration' and p == 'IsEntity' and not pol2 and _only_valid_refs(db):
                            good = True     # not an entity, and only valid references are ever stored
                if not good:
                    bad = g.loc(c)
        if bad:
            rule.violation('contract:' + acc, bad, 'Reference::%s reads the %s alternative unchecked and this caller has not established %s(): std::bad_variant_access' % (acc, 'EntityRef' if pred == 'IsEntity' else 'CollaborationRef', pred))
        else:
            rule.ok('contract:' + acc, '%d call sites, each under %s()' % (sites, pred))
    rep.note('throwing_sites', n_sites)
    rep.note('justifications', by_reason)


# sites whose safety is an invariant established elsewhere; one reason each, confirmed by reading (and where possible by the named rule)
DECIDED_ELSEWHERE = {
    'rslang::Token::ToString:*begin(indicies)': 'index tokens are produced by TokenData::FromIndexSequence from a lexeme with at least one number; it keeps every number (see invariant:FromIndexSequence)',
    'rslang::SyntaxTree::Node::At:children.at(static_cast<size_t>(in': 'child-index contract of the tree accessors: every visitor call site is decided by r3 (tree grammar)',
    'rslang::SyntaxTree::Node::At:children.at(static_cast<size_t>(in#2': 'child-index contract of the tree accessors: every visitor call site is decided by r3 (tree grammar)',
    'rslang::SyntaxTree::Node::ExtendChild:children.at(static_cast<size_t>(in': 'child-index contract; only the normaliser extends children, at indices it has just visited',
    'rslang::SyntaxTree::Node::ExtendChild:children.at(static_cast<size_t>(in#2': 'child-index contract; only the normaliser extends children, at indices it has just visited',
    'rslang::SyntaxTree::Node::ExtractChild:children.at(static_cast<size_t>(in': 'child-index contract; only the normaliser extracts children, at indices it has just visited',
    'rslang::SyntaxTree::Cursor::MoveToChild:node->children.at(static_cast<size': 'child-index contract of the cursor: every visitor call site is decided by r3 (tree grammar)',
    'rslang::SyntaxTree::Cursor::operator():node->children.at(static_cast<size': 'child-index contract of the cursor: every visitor call site is decided by r3 (tree grammar)',
    'rslang::(anonymous namespace)::ConvertID:id.at(iter.BytePosition())': 'BytePosition() of a UTF8Iterator that is not at the end is below the size',
    'rslang::(anonymous namespace)::ConvertID:id.at(iter.BytePosition() + 1)': 'reached only for SymbolSize() >= 2; the identifier was matched by the lexer, whose letter class contains only complete two-byte Greek letters',
    'rslang::(anonymous namespace)::ConvertID:substitutes.at(static_cast<size_t>': 'second byte tested to be in [0xB1, 0xBF]: index 0..14 of the 25-entry table',
    'rslang::(anonymous namespace)::ConvertID:substitutes.at(static_cast<size_t>#2': 'second byte tested to be in [0x80, 0x89]: index 15..24 of the 25-entry table',
    'rslang::(anonymous namespace)::IsRadical:alias.at(1)': 'evaluated only after alias.at(0) == \'R\'; a one-letter name R is the RECURSIVE keyword for both lexers, so no typification has such a base',
    'rslang::TypeAuditor::ViFunctionDefinition:localVars.at(n)': 'functionArgsID holds indices recorded as size()-1 by AddLocalVariable during the argument declaration just visited; nothing is erased in between',
    'rslang::(anonymous namespace)::EchoTypeEnvironment::TypeFor:types.at(globalName)': 'the key is inserted on the line above when absent',
}


def _index_sequences_nonempty(db):
    """TokenData::FromIndexSequence evaluated on every string of the lexer's index pattern number(,number)* over {0,1,9} up to 5 characters:
    the result has exactly one entry per number (an empty index list makes Token::ToString dereference begin() of an empty vector)"""
    import itertools
    import re
    f = db.fn(R + 'TokenData::FromIndexSequence', required=False)
    if f is None:
        return 'anchor vanished: TokenData::FromIndexSequence'
    got = {}

    def on_call(it, fn, n, env):
        cs = n.get('cs') or ''
        if cs == 'std::isdigit' or cs == 'isdigit':
            v = it.eval(fn, fn.stmts[n['args'][0]], env)
            return 1 if 48 <= v <= 57 else 0
        if n['k'] in ('CXXConstructExpr', 'CXXTemporaryObjectExpr', 'CXXFunctionalCastExpr') and 'TokenData' in (n.get('cls') or n.get('t', '')) and n.get('args'):
            return Obj(__kind__='tokendata', v=it.eval(fn, fn.stmts[n['args'][0]], env))
        return NOT_HANDLED
    try:
        for ln in range(1, 6):
            for chars in itertools.product('019,', repeat=ln):
                s0 = ''.join(chars)
                if not re.fullmatch(r'[019]+(,[019]+)*', s0):
                    continue
                r = Interp(db, on_call=on_call).call(f, [s0.encode()])
                v = r['v'] if isinstance(r, Obj) and 'v' in r else r
                want = [int(x) for x in s0.split(',')]
                if list(v) != want:
                    return 'FromIndexSequence("%s") yields %s, the lexeme has the indices %s' % (s0, list(v), want)
    except OutOfFragment as e:
        return 'FromIndexSequence outside the evaluable fragment: %s' % e
    return None


def _only_valid_refs(db):
    """Reference::ExtractAll stores a parsed reference only under IsValid()"""
    f = db.fn('ccl::lang::Reference::ExtractAll', required=False)
    if f is None:
        return False
    adds = [n for n in f.calls() if (n.get('cs') or '').split('::')[-1] in ('emplace_back', 'push_back')]
    return bool(adds) and all(any('IsValid' in c.get('txt', '') and pol for c, pol in dominating_guards(f, f.position_of(n))) for n in adds)


def _pl_nodes_have_a_child(db):
    """PUNC_PL nodes are created only where the operand is attached in the same function"""
    sites = []
    for f in db.functions:
        if not f.file or not f.file.endswith('RSParser.cpp'):
            continue
        for n in f.calls():
            if n.get('cs') == 'std::make_shared' and any(x['k'] == 'DeclRefExpr' and x.get('name') == 'PUNC_PL' for x in f.walk(n)):
                adds = [m for m in f.calls() if (m.get('cs') or '').endswith('emplace_back') and 'children' in m.get('txt', '')]
                sites.append((f.name.split('::')[-1], bool(adds)))
    return sites


def _reference_invariant(db):
    """every constructor of lang::Reference sets `type` and `data` together (entity <-> EntityRef, collaboration <-> CollaborationRef) and nothing else writes them"""
    rec = db.record('ccl::lang::Reference', required=False)
    if rec is None:
        return 'class Reference not found'
    pairs = []
    for f in db.functions:
        if f.cls == 'ccl::lang::Reference' and f.name.endswith('::Reference') and f.rec.get('inits'):
            fields = {i.get('field'): f.stmts[i['expr']].get('txt', '') for i in f.rec['inits'] if 'field' in i and 'expr' in i and i.get('written')}
            if 'type' in fields or 'data' in fields:
                pairs.append((fields.get('type', ''), ' '.join(p['type'] for p in f.rec['params'][:1]) if 'data' in fields else ''))
    ok = len(pairs) >= 2 and all(('entity' in t and 'EntityRef' in d) or ('collaboration' in t and 'CollaborationRef' in d) for t, d in pairs)
    writes = []
    for f in db.functions:
        if f.cls == 'ccl::lang::Reference' and f.has_cfg():
            for x in f.walk():
                if x['k'] in ('BinaryOperator', 'CXXOperatorCallExpr') and x.get('op') == '=':
                    kids = f.children(x) if x['k'] == 'BinaryOperator' else [f.stmts[a] for a in x.get('args', [])]
                    if kids and f.strip(kids[0]).get('member') in ('type', 'data') and f.strip(kids[0])['k'] == 'MemberExpr' and not f.children(f.strip(kids[0])) or (kids and f.strip(kids[0]).get('member') in ('type', 'data') and f.children(f.strip(kids[0])) and f.strip(f.children(f.strip(kids[0]))[0])['k'] == 'CXXThisExpr'):
                        writes.append(f.loc(x))
    if not ok:
        return 'constructors do not pair type and data: %s' % pairs
    if writes:
        return 'type/data written outside the constructors at %s' % writes[0]
    return None


CONTRACT = {   # accessor -> the predicate its caller must have established on the same object
    'GetEntity': 'IsEntity', 'GetForm': 'IsEntity', 'TranslateEntity': 'IsEntity', 'ResolveEntity': 'IsEntity',
    'GetOffset': 'IsCollaboration', 'GetNominal': 'IsCollaboration', 'ResolveCollaboration': 'IsCollaboration',
}


def check(db, rep):
    rep.explanation = 'Totality and failure faithfulness of the analysis entry points as structural rules over the lexer, parser, auditors and reference parser.'
    r1 = rep.rule('r1', 'PARSE-FAITHFUL: RSParser::Parse succeeds iff the grammar accepted and no critical error was counted; failures are never silent', 3)
    parse_faithful(db, r1)
    r2 = rep.rule('r2', 'LOUD: every aborting parser action / refusing parser helper reports a ParseEID first; every refusing return of the auditors logs or propagates (C03 r1)', 100)
    parser_loud(db, r2, rep)
    from rules import C03
    C03.loud_rule(db, rep, r2, C03.AUDITORS, 'the analysis reports failure with an empty error list', prefix='auditors_')
    # the facades that chain the steps: a refusal of the facade is the refusal of a loud step, never a silent early return
    facades = [f for f in db.functions if f.has_cfg() and f.name in (R + 'Interpreter::Evaluate',)]
    if not facades:
        r2.broken('anchor vanished: Interpreter::Evaluate')
    else:
        C03.loud_rule(db, rep, r2, [], 'Interpreter::Evaluate answers "no value" with an empty error list (Evaluate("") - Parser::Parse("") would have logged the syntax error)', prefix='facade_', extra_fns=facades)
    from rules import shared_visitors as sv
    from rules import C02
    tg = sv.tree_grammar(db)
    r3 = rep.rule('r3', 'TREE-SAFETY: child accesses of every visitor inside the node for every tree of the grammar; dispatch exhaustive; Parent() not read at a root', 150)
    sv.child_index_rule(db, r3, tg)
    sv.dispatch_rule(db, r3, tg)
    C02.parent_rule(db, r3, tg)
    C02.variant_rule(db, r3, tg, {})         # std::get<Typification> on a logical value throws bad_variant_access out of the entry points (shared with C02 r3)
    r5 = rep.rule('r5', 'LEXER-TOTAL: no input can jam either scanner; unknown bytes yield INTERRUPT, reported as unknownSymbol', 6)
    lexer_total(db, r5)
    r6 = rep.rule('r6', 'OWN-LOG: a nested analyser working on another text never reports into the caller\'s log', 1)
    own_log(db, r6)
    r7 = rep.rule('r7', 'DUMP-SAFE: results that echo the analysed text are serialised with a non-throwing UTF-8 error handler', 3)
    dump_safe(db, r7)
    r8 = rep.rule('r8', 'FOREIGN-TEXT / TERMINATION: nodes inlined from a function definition carry the position of the call; the type deduction of a recursion is bounded and every typing rule rejects instead of faulting (shared with C03 r9)', 18)
    inline_positions(db, r8)
    C03.recursion_typing(db, r8)
    # the typing rules reject instead of faulting (an invalid projection index, a logical operand, ...): shared with C03 r9
    C03.typing_rules(db, r8, rep.tier)
    r4 = rep.rule('r4', 'NO-ESCAPE: every throwing accessor in the analysis code is guarded, in a try block, or decided by another rule', 100)
    no_escape(db, r4, rep)
    r9 = rep.rule('r9', 'DEPTH-BOUNDED: the consumers of a parsed tree recurse over it, so the parser refuses (with a critical error) a tree nested deeper than a fixed bound before it builds the syntax tree, '
                        'and the raw tree the grammar actions build is released without nested destructor calls', 5)
    depth_bounded(db, r9, rep)


def parser_loud(db, rule, rep):
    from rules import C03
    det = R + 'detail::'
    extra = [f for f in db.functions if f.name.startswith(det) and not f.cls and f.has_cfg() and f.file and f.file.endswith('RSParser.cpp')]
    extra += [f for f in db.functions if f.name == det + 'RSParserImpl::parse' and f.has_cfg()]
    C03.loud_rule(db, rep, rule, [det + 'ParserState'], 'the parse fails with an empty error list (RSParser::Parse then reports only the generic syntax error at an unrelated position)',
                  prefix='parser_', extra_fns=extra)


def parse_faithful(db, rule):
    """RSParser::Parse and yylex over all (grammar result, critical errors counted while parsing) combinations"""
    det = R + 'detail::'
    f = db.fn(det + 'RSParser::Parse')
    eids = enum_values(db, R + 'ParseEID')
    bad = None
    n_cases = 0
    try:
        for presult in (0, 1, 2):
            for counted in (0, 1, 3):
                for has_reporter in (False, True):
                    n_cases += 1
                    logged = []
                    state = Obj(parsedTree=None, currentPosition=0, countCriticalErrors=7, reporter=(('lambda-ext',) if has_reporter else None), nextTokenCall=None)
                    this = Obj(state=state, impl=Obj(__kind__='impl'))

                    def on_call(it, fn, n, env, presult=presult, counted=counted, state=state, logged=logged):
                        cs = n.get('cs') or ''
                        if cs.endswith('RSParserImpl::parse'):
                            state['countCriticalErrors'] += counted
                            return presult
                        if n['k'] == 'CXXOperatorCallExpr' and n.get('op') == '()' and 'reporter' in fn.stmts[n['args'][0]].get('txt', ''):
                            logged.append(it.eval(fn, fn.stmts[n['args'][1]], env))
                            return None
                        if n['k'] == 'CXXOperatorCallExpr' and n.get('op') == '->' and 'impl' in n.get('txt', ''):
                            return ('ptr', this['impl'])
                        return NOT_HANDLED
                    res = Interp(db, on_call=on_call).call(f, [Obj(__kind__='stream')], this)
                    want = presult == 0 and counted == 0
                    if bool(res) != want:
                        bad = bad or 'grammar result %d with %d critical errors counted: Parse returned %s' % (presult, counted, res)
                    elif not res and state['countCriticalErrors'] == 0:
                        bad = bad or 'grammar result %d, no error counted: Parse failed without counting or logging an error' % presult
                    elif res and state['countCriticalErrors'] != 0:
                        bad = bad or 'Parse succeeded although %d critical errors were counted' % state['countCriticalErrors']
                    elif not res and counted == 0 and has_reporter and not logged:
                        bad = bad or 'a failure with no counted error did not log the generic syntax error'
    except OutOfFragment as e:
        rule.broken('RSParser::Parse outside the evaluable fragment: %s' % e)
        return
    if bad:
        rule.violation('RSParser::Parse', '%s:%d' % (f.file, f.line), bad)
    else:
        rule.ok('RSParser::Parse', 'success iff grammar accepted and no critical error counted; silent failures log ParseEID::syntax (%d cases)' % n_cases, '%s:%d' % (f.file, f.line))
    # yylex: INTERRUPT counts a critical error and ends the input; END ends it; everything else is passed on with its id
    g = db.fn(det + 'yylex')
    tok = enum_values(db, R + 'TokenID')
    bad = None
    try:
        for name in ('INTERRUPT', 'END', 'ID_GLOBAL', 'PUNC_PL', 'LIT_INTEGER'):
            state = Obj(countCriticalErrors=0, currentPosition=-1, nextTokenCall=Obj(__kind__='stream'))

            def on_call(it, fn, n, env, name=name):
                if n['k'] == 'CXXOperatorCallExpr' and n.get('op') == '()' and 'nextTokenCall' in n.get('txt', ''):
                    return Obj(id=tok[name], pos=Obj(start=5, finish=6), data=None)
                if (n.get('cs') or '') == 'std::make_shared':
                    return Obj(__kind__='node')
                return NOT_HANDLED
            env_val = Obj(v=None)
            res = Interp(db, on_call=on_call).call(g, [('ptr', env_val), ('ptr', state)])
            want_ret = 0 if name in ('INTERRUPT', 'END') else tok[name]
            want_cnt = 1 if name == 'INTERRUPT' else 0
            if res != want_ret or state['countCriticalErrors'] != want_cnt:
                bad = bad or 'token %s: yylex returned %s and counted %d critical errors (expected %s and %d)' % (name, res, state['countCriticalErrors'], want_ret, want_cnt)
    except OutOfFragment as e:
        rule.broken('yylex outside the evaluable fragment: %s' % e)
        return
    if bad:
        rule.violation('yylex', '%s:%d' % (g.file, g.line), bad)
    else:
        rule.ok('yylex', 'INTERRUPT ends the input and counts a critical error; END ends it; other tokens are passed with their id', '%s:%d' % (g.file, g.line))
    # ParserState::OnError counts exactly the critical codes
    h = [x for x in db.methods_of(det + 'ParserState') if x.name.endswith('::OnError') and len(x.rec['params']) == 2][0]
    bad = None
    try:
        for nm, val in sorted(eids.items()):
            st = Obj(countCriticalErrors=0, reporter=None, currentPosition=0)
            Interp(db).call(h, [val, 3], st)
            crit = val >= 0x8000
            if (st['countCriticalErrors'] == 1) != crit:
                bad = bad or 'ParseEID::%s (0x%X) %s counted as critical' % (nm, val, 'is' if st['countCriticalErrors'] else 'is not')
    except OutOfFragment as e:
        rule.broken('ParserState::OnError outside the evaluable fragment: %s' % e)
        return
    if bad:
        rule.violation('ParserState::OnError', '%s:%d' % (h.file, h.line), bad)
    else:
        rule.ok('ParserState::OnError', 'counts every ParseEID at or above 0x8000 (%d codes) whether or not a reporter is attached' % len(eids), '%s:%d' % (h.file, h.line))


def lexer_total(db, rule):
    """No input can jam the scanner (RE/flex calls lexer_error on a jam): after any first byte the automaton has accepted something, or every
    continuation (including end of input) leads on; and the catch-all rule returns INTERRUPT, which the stream wrapper reports as unknownSymbol."""
    from engine.models.flexdfa import FlexDFA
    for label, ns, cl in (('MathLexer', R + 'detail::rslex', R + 'detail::rslex::MathLexerImpl'), ('AsciiLexer', R + 'detail::asciilex', R + 'detail::asciilex::AsciiLexerImpl')):
        d = FlexDFA(db, ns, cl)
        start = d.states[d.start]
        missing = [b for b in range(256) if not any(lo <= b <= hi for lo, hi, t in start['trans'])]
        if missing:
            rule.violation(label + ':first-byte', '%s:%d' % (d.fn.file, d.fn.line), 'the start state has no transition for byte(s) %s: the scanner jams (lexer_error) on such input' % [hex(b) for b in missing[:6]])
            continue
        # states reachable from the start through non-accepting states only
        work = [(t, bytes([lo])) for lo, hi, t in start['trans']]
        seen = {}
        bad = None
        while work:
            s, w = work.pop()
            if s in seen:
                continue
            seen[s] = w
            st = d.states[s]
            if st['take'] is not None:
                continue
            for b in list(range(256)) + [-1]:
                if not any(lo <= b <= hi for lo, hi, t in st['trans']):
                    bad = bad or (w, b)
            for lo, hi, t in st['trans']:
                work.append((t, w + bytes([max(lo, 0)])))
        if bad:
            rule.violation(label + ':jam', '%s:%d' % (d.fn.file, d.fn.line), 'after the bytes %r the automaton has accepted nothing and has no transition for %s: the scanner jams and calls lexer_error' % (bad[0], 'end of input' if bad[1] < 0 else hex(bad[1])))
        else:
            rule.ok(label + ':jam-free', 'every first byte has a transition and every state reached has already accepted a rule (%d states)' % len(d.states), '%s:%d' % (d.fn.file, d.fn.line))
        inter = [k for k, v in d.rule_token.items() if v == 'INTERRUPT']
        single = [b for b in range(256) if d.match(bytes([b]))[0] == 0]
        if not inter or single:
            rule.violation(label + ':catch-all', '%s:%d' % (d.lex_fn.file, d.lex_fn.line), 'no rule returns INTERRUPT or some single byte matches no rule: %s' % [hex(b) for b in single[:6]])
        else:
            rule.ok(label + ':catch-all', 'rule %s returns INTERRUPT; every single byte matches some rule' % inter, '%s:%d' % (d.lex_fn.file, d.lex_fn.line))
    # the stream wrapper reports INTERRUPT tokens as unknownSymbol
    for f in db.functions:
        if f.name.endswith('::Stream') and 'LexerBase' in f.name and not f.rec.get('dependent'):
            lam = db.lambdas_in(f)
            ok = lam and any('INTERRUPT' in x.get('txt', '') for x in lam[0].walk() if x['k'] == 'IfStmt' or x['k'] == 'BinaryOperator') and any(
                x.get('name') == 'unknownSymbol' for x in lam[0].walk() if x['k'] == 'DeclRefExpr')
            inst = 'Stream:' + f.name.split('<')[-1].split('>')[0].split('::')[-1]
            if ok:
                rule.ok(inst, 'INTERRUPT tokens are reported as LexerEID::unknownSymbol at the token position', '%s:%d' % (f.file, f.line))
            else:
                rule.violation(inst, '%s:%d' % (f.file, f.line), 'the token stream no longer reports INTERRUPT tokens as unknownSymbol: an unknown symbol fails the parse with only the generic syntax error')


def own_log(db, rule):
    """an auditor/evaluator object created inside another one analyses a different text (the body of a called function): it must not be given
    the creator's reporter, or its positions (offsets in the other text) land in the caller's error list"""
    n = 0
    for cls in (R + 'TypeAuditor', R + 'ValueAuditor', R + 'ASTInterpreter', R + 'Auditor'):
        for f in db.methods_of(cls):
            if not f.has_cfg():
                continue
            for c in f.walk():
                if c['k'] in ('CXXConstructExpr', 'CXXTemporaryObjectExpr') and (c.get('cls') or '') in (R + 'TypeAuditor', R + 'ValueAuditor', R + 'ASTInterpreter') and not c.get('copyctor') and not c.get('movector'):
                    n += 1
                    inst = '%s::%s:%s' % (cls.split('::')[-1], f.name.split('::')[-1], c['cls'].split('::')[-1])
                    shares = [x for a in c.get('args', []) for x in f.walk(f.stmts[a]) if x['k'] == 'MemberExpr' and x.get('member') == 'reporter']
                    # a collecting reporter: the nested errors are gathered in a local and handed on to the reporter of this object afterwards
                    gathered = set()
                    for a in c.get('args', []):
                        for lam in f.walk(f.stmts[a]):
                            if lam['k'] == 'LambdaExpr':
                                gathered |= {x.get('name') for x in f.walk(lam) if x['k'] == 'DeclRefExpr' and x.get('dk') in ('var', 'local') and x.get('name')}
                    tainted = set(gathered)
                    for lp in f.walk():
                        if lp['k'] == 'CXXForRangeStmt' and any(x.get('name') in gathered for x in f.walk(f.stmts[lp['range']]) if x['k'] == 'DeclRefExpr'):
                            tainted |= {d['name'] for d in f.stmts[lp['loopvar']].get('decls', [])}
                    relayed = None
                    for call in f.calls():
                        if any(a_['id'] == call['id'] for a in c.get('args', []) for a_ in f.walk(f.stmts[a])):
                            continue
                        callee_side = [x for a in call.get('args', [])[:1] for x in f.walk(f.stmts[a]) if x['k'] == 'MemberExpr' and x.get('member') == 'reporter'] if call['k'] == 'CXXOperatorCallExpr' and call.get('op') == '()' else []
                        logs = callee_side or (call.get('cs') or '').split('::')[-1] in ('OnError', 'LogError')
                        if logs and any(x.get('name') in tainted for a in call.get('args', []) for x in f.walk(f.stmts[a]) if x['k'] == 'DeclRefExpr'):
                            relayed = call
                            break
                    if shares:
                        rule.violation(inst, f.loc(c), 'the nested %s is given the reporter of this object: errors found in the other text are logged with positions that do not lie in the input' % c['cls'].split('::')[-1])
                    elif relayed is not None:
                        rule.violation(inst, f.loc(relayed), 'the errors of the nested %s are gathered (%s) and then handed to the reporter of this object (`%s`): they carry positions in the other text, which do not lie in the input' % (c['cls'].split('::')[-1], ', '.join(sorted(gathered)), (relayed.get('txt') or '')[:50]))
                    else:
                        rule.ok(inst, 'nested analyser created without the reporter of the caller', f.loc(c))
    return n


# functions that serialise a document whose strings all come from a parsed JSON document (valid UTF-8 by construction of the parser)
DUMP_OF_DOCUMENT = {'ccl::api::RSFormJA::ToJSON': 'serialises the schema, whose texts were read from a JSON document', 'ccl::api::RSFormJA::ToMinimalJSON': 'serialises titles and records of the schema, read from a JSON document'}


def dump_safe(db, rule):
    """A result that echoes fragments of the analysed text (error parameters, AST text) must be serialised with a non-throwing error handler:
    basic_json::dump throws type_error.316 on a string that is not valid UTF-8, and the expression is an arbitrary byte string."""
    n = 0
    for f in db.functions:
        if not f.has_cfg() or not f.file or '/test/' in f.file or 'import/' in f.file:
            continue
        for c in f.calls():
            if not (c.get('cs') or '').endswith('basic_json::dump'):
                continue
            n += 1
            inst = f.name.replace('ccl::', '')
            if f.name in DUMP_OF_DOCUMENT:
                rule.ok(inst, DUMP_OF_DOCUMENT[f.name], f.loc(c), nontrivial=False)
                continue
            args = [f.stmts[a] for a in c.get('args', [])]
            handler = [x.get('name') for a in args[3:4] for x in f.walk(a) if x['k'] == 'DeclRefExpr' and x.get('dk') == 'enumerator']
            if handler and handler[0] in ('replace', 'ignore'):
                rule.ok(inst, 'dump(..., error_handler_t::%s)' % handler[0], f.loc(c))
            else:
                rule.violation(inst, f.loc(c), 'the result is serialised with the default (strict) error handler: an expression that is not valid UTF-8 makes dump() throw json type_error.316 out of the analysis entry point')
    return n


def inline_positions(db, rule):
    """every node of a function body inlined at a call is given the position of the call: the body comes from another text (the definition of the
    function), so its own offsets do not lie in the input and evaluation errors raised inside it would be reported outside the expression"""
    N = R + 'Normalizer'
    f = db.fn(N + '::SubstituteArgs', required=False)
    fn = db.fn(N + '::Function', required=False)
    if f is None or fn is None:
        rule.broken('anchor vanished: Normalizer::SubstituteArgs / Function')
        return
    node_param = f.rec['params'][0]
    writes = []
    for x in f.walk():
        if x['k'] in ('BinaryOperator', 'CXXOperatorCallExpr') and x.get('op') == '=':
            kids = f.children(x) if x['k'] == 'BinaryOperator' else [f.stmts[a] for a in x.get('args', [])]
            l = f.strip(kids[0]) if kids else None
            if l is not None and l['k'] == 'MemberExpr' and l.get('member') == 'pos' and any(y['k'] == 'DeclRefExpr' and y.get('did') == node_param['did'] for y in f.walk(l)):
                rhs_param = any(y['k'] == 'DeclRefExpr' and y.get('dk') == 'param' and y.get('did') != node_param['did'] for y in f.walk(kids[1]))
                writes.append((f.position_of(x), rhs_param, x))
    succ, entry, exit_ = f.graph()
    exits = [(p, '') for p, r in f.return_sites()] + [(exit_, '')]
    good = [w for w in writes if w[0] is not None and w[1]]
    recursive = any(c.get('cs') == N + '::SubstituteArgs' for c in f.calls())
    passes = [c for c in fn.calls() if c.get('cs') == N + '::SubstituteArgs' and len(c.get('args', [])) >= 2 and 'pos' in fn.stmts[c['args'][1]].get('txt', '')]
    if good and not paths_avoiding(f, [entry], [w[0] for w in good], exits) and recursive and passes:
        rule.ok('SubstituteArgs:positions', 'every node of the inlined body is stamped with the position of the call, on every path, before descending', f.loc(good[0][2]))
    else:
        rule.violation('SubstituteArgs:positions', '%s:%d' % (f.file, f.line), 'not every node of an inlined function body receives the position of the call: nodes keep offsets of the function definition text, and errors raised while evaluating them are reported outside the input')


def depth_bounded(db, rule, rep):
    """Nesting is under the control of the input ("¬"*N, "("*N, "1"+"+1"*N, "ℬ"*N ...), every consumer of the tree (CreateNodeRecursive, the
    auditors, the normaliser, the evaluator, the generators) recurses over it, and nothing else limits the depth. Decided here: (1) the only way
    to the syntax tree leads through the gate (SemanticCheck succeeds before CreateNodeRecursive runs); (2) the gate, interpreted on chains,
    accepts ordinary depths and wide trees and refuses depth 4096 with a counted critical error; (3) detail::Node, whose trees are built by the
    grammar actions before any check, has a destructor that detaches all descendants iteratively (interpreted on a chain: afterwards no
    descendant owns a child, so the implicit member destruction nests one level). Not decided: that the stack suffices for the bound."""
    D = R + 'detail::'
    cst = db.fn(D + 'ParserState::CreateSyntaxTree', required=False)
    gate = next((f for f in db.functions if f.name == D + 'SemanticCheck' and f.body >= 0), None)
    if cst is None or gate is None or not cst.has_cfg():
        rule.broken('anchor vanished: ParserState::CreateSyntaxTree / SemanticCheck')
        return
    # (1) the gate dominates the construction of the syntax tree
    builds = [n for n in cst.calls() if (n.get('cs') or '') == D + 'CreateNodeRecursive']
    if not builds:
        rule.broken('ParserState::CreateSyntaxTree no longer calls CreateNodeRecursive')
        return
    gated = True
    for n in builds:
        pos = cst.position_of(n)
        ok = False
        for c, pol in (dominating_guards(cst, pos) if pos is not None else []):
            c2, p2 = normalise_cond(cst, c, pol)
            if c2 is not None and (c2.get('cs') or '') == D + 'SemanticCheck' and p2:
                ok = True
        gated = gated and ok
    writers = sorted({f.name.split('::')[-1] for f in db.functions if f.has_cfg() and f.name.startswith(D) and any(
        c['k'] == 'CXXOperatorCallExpr' and c.get('op') == '=' and c.get('args') and (f.strip(f.stmts[c['args'][0]]) or {}).get('member') == 'parsedTree'
        and not (f.strip(f.stmts[c['args'][1]]) or {}).get('k') == 'CXXNullPtrLiteralExpr' for c in f.calls())})
    if gated and set(writers) <= {'CreateSyntaxTree', 'NewInput'}:
        rule.ok('gate:dominates', 'CreateNodeRecursive runs only after SemanticCheck succeeded; parsedTree is written only by %s' % ', '.join(writers), '%s:%d' % (cst.file, cst.line))
    else:
        rule.violation('gate:dominates', '%s:%d' % (cst.file, cst.line), 'the syntax tree can be built without passing SemanticCheck (writers of parsedTree: %s)' % ', '.join(writers))
    # (2) the gate bounds the depth
    ids = {e['name']: e['val'] for e in db.enum(R + 'TokenID')['enumerators']}
    plain = ids.get('NOT', ids.get('LOGIC_NOT', 0))

    def mk(children, i=0, indices=None):
        return Obj(__cls__=D + 'Node', token=Obj(__cls__=R + 'Token', id=plain, pos=Obj(start=i, finish=i + 1), data=Obj(__kind__='tokendata', indices=indices)), children=children)

    def gate_hook(it, fn, n, env):
        cs_ = n.get('cs') or ''
        if cs_.startswith(R + 'TokenData::') and 'obj' in n:
            o = it.eval(fn, fn.stmts[n['obj']], env)
            o = o[1] if isinstance(o, tuple) and len(o) == 2 and o[0] == 'ptr' else o
            if isinstance(o, Obj) and o.get('__kind__') == 'tokendata':
                last_ = cs_.split('::')[-1]
                if last_ == 'IsTuple':
                    return o['indices'] is not None
                if last_ == 'ToTuple':
                    return list(o['indices'] or [])
                if last_ in ('HasValue', 'IsInt', 'IsText'):
                    return False
        return NOT_HANDLED

    def chain(depth):
        node, nodes = None, []
        for i in range(depth):
            node = mk([node] if node is not None else [], depth - i)
            nodes.append(node)
        return node, nodes

    def run_gate(root):
        st = Obj(__cls__=D + 'ParserState', parsedTree=None, currentPosition=0, countCriticalErrors=0, reporter=None, nextTokenCall=None)
        it_ = Interp(db, on_call=gate_hook, max_steps=20000000)
        it_.max_loop = 300000
        r = it_.call(gate, [st, root])
        return bool(r), st['countCriticalErrors']
    try:
        a64, _ = run_gate(chain(64)[0])
        wide, _ = run_gate(mk([mk([mk([]) for _ in range(400)]) for _ in range(3)]))
        deep, crit = run_gate(chain(4096)[0])
    except OutOfFragment as e:
        rule.broken('SemanticCheck outside the evaluable fragment: %s' % e)
        return
    if not a64 or not wide:
        rule.violation('gate:bound', '%s:%d' % (gate.file, gate.line), 'SemanticCheck refuses an ordinary tree (a chain of 64 operators: %s, a tree of 1200 nodes on three levels: %s)' % (a64, wide))
    elif deep:
        rule.violation('gate:bound', '%s:%d' % (gate.file, gate.line), 'SemanticCheck accepts a chain of 4096 nested operators and nothing else bounds the nesting: every consumer of the tree recurses once per level '
                       '(CreateNodeRecursive, the auditors, the evaluator), so "¬"*N+"1=1", "("*N+"1"+")"*N or "1"+"+1"*N with N of a few thousand overflow the stack in Parser::Parse / CheckType / Evaluate')
    elif crit < 1:
        rule.violation('gate:bound', '%s:%d' % (gate.file, gate.line), 'SemanticCheck refuses a chain of 4096 nested operators without a counted critical error: the refusal is silent')
    else:
        rule.ok('gate:bound', 'a chain of 64 and a three-level tree of 1200 nodes pass; a chain of 4096 is refused with a critical error', '%s:%d' % (gate.file, gate.line))
    # (2c) brackets are not nodes of the syntax tree, and the generators add them (every infix operand of a product is bracketed): the text
    # printed for an accepted tree must be accepted again, so bracket nodes must not use up the bound - and the construction of the syntax tree
    # must not recurse through them, because their number is then bounded by nothing
    if 'PUNC_PL' in ids and not deep and a64:
        def bracketed_chain(depth):
            node = None
            for i in range(depth):
                node = mk([node] if node is not None else [], depth - i)
                node = Obj(__cls__=D + 'Node', token=Obj(__cls__=R + 'Token', id=ids['PUNC_PL'], pos=Obj(start=0, finish=1), data=Obj(__kind__='tokendata', indices=None)), children=[node])
            return node
        try:
            lo, hi = 64, 4096
            while hi - lo > 1:
                mid = (lo + hi) // 2
                if run_gate(chain(mid)[0])[0]:
                    lo = mid
                else:
                    hi = mid
            with_brackets, _ = run_gate(bracketed_chain(lo))
        except OutOfFragment as e:
            rule.broken('SemanticCheck outside the evaluable fragment: %s' % e)
            return
        cnr = next((f_ for f_ in db.functions if f_.name == D + 'CreateNodeRecursive' and f_.body >= 0), None)
        rec_msg = None
        if cnr is not None:
            def oc2(it, fn, n, env):
                cs_ = n.get('cs') or ''
                if n['k'] in ('CXXConstructExpr', 'CXXTemporaryObjectExpr') and (n.get('cls') or '').endswith('SyntaxTree::Node'):
                    return Obj(__cls__=R + 'SyntaxTree::Node', children=[])
                if cs_.startswith('std::make_unique'):
                    return Obj(__cls__=R + 'SyntaxTree::Node', children=[])
                if cs_.endswith('::AdoptChild'):
                    return None
                return NOT_HANDLED
            node = mk([])
            for _ in range(200):
                node = Obj(__cls__=D + 'Node', token=Obj(__cls__=R + 'Token', id=ids['PUNC_PL'], pos=Obj(start=0, finish=1), data=Obj(__kind__='tokendata', indices=None)), children=[node])
            try:
                Interp(db, on_call=oc2, max_steps=2000000).call(cnr, [node])
            except OutOfFragment as e:
                if 'recursion depth' in str(e):
                    rec_msg = 'CreateNodeRecursive calls itself once per bracket: "(" * N + "1" + ")" * N is a tree of nesting 1 for the gate and of recursion depth N here'
                else:
                    rule.broken('CreateNodeRecursive outside the evaluable fragment: %s' % e)
                    return
        if not with_brackets:
            rule.violation('gate:brackets', '%s:%d' % (gate.file, gate.line), 'SemanticCheck accepts a chain of %d nested operators but refuses the same chain with each operand in brackets: the bound counts bracket nodes, '
                           'which never reach the syntax tree and which the generators add (X1∪X1×X1∪X1×… with 700 operators parses; its own printed text, with the brackets ViDecart adds, is a syntax error)' % lo)
        elif rec_msg:
            rule.violation('gate:brackets', '%s:%d' % (cnr.file, cnr.line), rec_msg)
        else:
            rule.ok('gate:brackets', 'the deepest accepted chain (%d) is accepted with every operand bracketed; the syntax tree is built without recursing through brackets' % lo, '%s:%d' % (gate.file, gate.line))
    # (2b) the width: children of a syntax-tree node are counted and addressed by ChildrenCount()'s return type; a node with more children than
    # that type can count must not reach the syntax tree (the count wraps: the node shows no children, or a negative number of them)
    cc = db.fn(R + 'SyntaxTree::Node::ChildrenCount', required=False)
    bits = None
    if cc is not None:
        rt = (cc.rec.get('ret') or '').replace('const ', '').strip()
        alias = rt.split('::')[-1]
        import re as _re
        width = {'int8_t': 7, 'int16_t': 15, 'short': 15, 'int32_t': 31, 'int': 31, 'int64_t': 63, 'long': 63, 'ptrdiff_t': 63, 'size_t': 64, 'uint16_t': 16, 'uint32_t': 32}
        bits = width.get(alias)
        if bits is None:
            for root_, _d, files in os.walk(os.path.join(db.root, 'ccl', 'rslang', 'include')):
                for fn_ in files:
                    m = _re.search(r'using\s+%s\s*=\s*([A-Za-z_0-9:]+)\s*;' % _re.escape(alias), open(os.path.join(root_, fn_), errors='replace').read())
                    if m:
                        bits = width.get(m.group(1).split('::')[-1], bits)
    if cc is None or bits is None:
        rule.broken('the type that counts the children of a node (SyntaxTree::Node::ChildrenCount) is not recognised')
    elif bits >= 31:
        rule.ok('gate:width', 'children are counted by a type of %d value bits: no input of a size the library can hold overflows it' % bits, '%s:%d' % (cc.file, cc.line), nontrivial=False)
    else:
        try:
            fits, _ = run_gate(mk([mk([]) for _ in range(2 ** bits - 2)]))
            edge, crit_e = run_gate(mk([mk([]) for _ in range(2 ** bits - 1)]))
            over, crit_w = run_gate(mk([mk([]) for _ in range(2 ** bits)]))
            idx_ok, _ = run_gate(mk([mk([])], indices=list(range(1, 40))))
            idx_over, crit_i = run_gate(mk([mk([])], indices=[1] * (2 ** bits - 1)))
        except OutOfFragment as e:
            rule.broken('SemanticCheck outside the evaluable fragment: %s' % e)
            return
        if not fits or not idx_ok:
            rule.violation('gate:width', '%s:%d' % (gate.file, gate.line), 'SemanticCheck refuses a node with %d children (%s) or a token with 39 indices (%s), which the counter can hold with room for the one-based loops' % (2 ** bits - 2, fits, idx_ok))
        elif edge or crit_e < 1 or idx_over or crit_i < 1:
            rule.violation('gate:width', '%s:%d' % (gate.file, gate.line), 'components of a tuple are addressed from 1 by the same %d-bit type (%s), so the loops `for (index = 1; index < Arity() + 1; ++index)` of the type algebra and of the data '
                           'comparison wrap at %d: SemanticCheck %s a node with %d children and %s a token with %d indices (both become tuple arities): debool(P)=debool(P) with P a product of %d factors is accepted and '
                           'std::out_of_range escapes Interpreter::Evaluate' % (bits + 1, cc.rec.get('ret'), 2 ** bits - 1, 'accepts' if edge else 'refuses', 2 ** bits - 1, 'accepts' if idx_over else 'refuses', 2 ** bits - 1, 2 ** bits - 1))
        elif over or crit_w < 1:
            rule.violation('gate:width', '%s:%d' % (gate.file, gate.line), 'children of a node are counted and addressed by a %d-bit signed type (%s), and SemanticCheck %s a node with %d children: '
                           'X1×X1×…×X1 with %d factors parses, ChildrenCount() is %d, the visitors and generators see no child (the product prints as an empty text, a set literal as {})' % (
                               bits + 1, cc.rec.get('ret'), 'accepts' if over else 'silently refuses', 2 ** bits, 2 ** bits, -(2 ** bits)))
        else:
            rule.ok('gate:width', 'a node with %d children passes, one with %d or more (and a token with that many indices) is refused with a critical error' % (2 ** bits - 2, 2 ** bits - 1), '%s:%d' % (gate.file, gate.line))
    # (2d) normalisation substitutes the bodies of term-functions into their calls, which multiplies the nesting of definitions that each pass
    # the gate (200 levels x 200 nested calls = 40000): the recursive evaluator may run only behind a test of the normalised tree
    ev = db.fn(R + 'Interpreter::Evaluate', required=False)
    if ev is None or not ev.has_cfg():
        rule.broken('anchor vanished: Interpreter::Evaluate')
    else:
        norm = [n for n in ev.calls() if (n.get('cs') or '').endswith('SyntaxTree::Normalize')]
        runs = [n for n in ev.calls() if (n.get('cs') or '').endswith('ASTInterpreter::Evaluate')]
        if not norm or not runs:
            rule.broken('Interpreter::Evaluate no longer normalises and evaluates the tree itself')
        else:
            gated = True
            for e_ in runs:
                pos = ev.position_of(e_)
                ok = False
                for c, pol in (dominating_guards(ev, pos) if pos is not None else []):
                    inside = list(ev.walk(c))
                    if any(x is n_ for x in inside for n_ in norm):
                        ok = True                      # the result of Normalize itself is tested
                    if any(x['k'] in ('CXXMemberCallExpr', 'CallExpr') and x['id'] > norm[0]['id'] and any(y['k'] == 'MemberExpr' and y.get('member') == 'ast' for y in ev.walk(x)) for x in inside):
                        ok = True                      # a test of the normalised tree made after the normalisation
                gated = gated and ok
            if gated:
                rule.ok('normalised:gated', 'the evaluator runs only behind a test of the normalised tree', ev.loc(runs[0]))
            else:
                rule.violation('normalised:gated', ev.loc(runs[0]), 'the tree is evaluated right after Normalize with no test of what normalisation produced: with F2 := [a∈ℬ(X1)] (((a∪X1)∪X1)…) nested 200 deep and '
                               'F3 := [a∈ℬ(X1)] F2[F2[…F2[a]…]] with 200 nested calls - each far below the parser bound - F3[X1] is accepted, normalises to a tree 40000 deep and the recursive evaluator overflows the stack')
    # (3) the raw tree is released iteratively
    dt = next((f for f in db.functions if f.name == D + 'Node::~Node' and f.body >= 0), None)
    node_rec = '%s:%d' % (gate.file, gate.line)
    if dt is None:
        rule.violation('raw-node:destruction', node_rec, 'detail::Node owns its children through vector<shared_ptr<Node>> and has the implicit destructor: releasing a tree of depth N nests N destructor calls. '
                       'The grammar actions build this tree before any check, so the bound of the gate does not protect it: "¬"*N+"1=1" overflows the stack when the parser pops its stack')
    else:
        def oc(it, fn, n, env):
            if (n.get('cs') or '').endswith('::use_count'):
                return 1
            return NOT_HANDLED
        try:
            root, nodes = chain(40)
            Interp(db, on_call=oc, max_steps=2000000).call(dt, [], root)
            left = [x for x in nodes[:-1] if len(x['children'])]
        except OutOfFragment as e:
            rule.broken('detail::Node::~Node outside the evaluable fragment: %s' % e)
            return
        if left:
            rule.violation('raw-node:destruction', '%s:%d' % (dt.file, dt.line), 'after ~Node() ran on the root of a chain of 40 nodes, %d descendants still own a child: their release nests one destructor call per level' % len(left))
        else:
            rule.ok('raw-node:destruction', '~Node() interpreted on a chain of 40 nodes: every descendant is detached before it is released', '%s:%d' % (dt.file, dt.line))
